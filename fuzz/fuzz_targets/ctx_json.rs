#![no_main]
//! C14: arbitrary bytes as context JSON are rejected or stored well-typed; accepted documents round-trip.
use libfuzzer_sys::fuzz_target;

fuzz_target!(|data: &[u8]| {
    static INIT: std::sync::Once = std::sync::Once::new();
    INIT.call_once(wfverif::engine::quiet_panics);
    if let Err(f) = wfverif::c14::check_document(data) {
        eprintln!("C14 oracle failed [{}]: {}", f.sig, f.msg);
        std::process::abort();
    }
});

#![no_main]
//! Coverage-guided search over a sub-check's own generator: the fuzzer's bytes
//! are read as the choice sequence (little-endian u32s) of the sub-check named
//! by the environment variable WF_FUZZ_SUB = "<ID>:<sub>"; the oracle is the
//! sub-check itself.
use libfuzzer_sys::fuzz_target;
use std::sync::OnceLock;
use wfverif::choices::Choices;
use wfverif::runner::{Stats, Sub};

fn sub() -> &'static Sub {
    static S: OnceLock<Sub> = OnceLock::new();
    S.get_or_init(|| {
        wfverif::engine::quiet_panics();
        let spec = std::env::var("WF_FUZZ_SUB").expect("WF_FUZZ_SUB=<ID>:<sub>");
        let (prop, name) = spec.split_once(':').expect("WF_FUZZ_SUB=<ID>:<sub>");
        let subs = wfverif::subs_of(prop).expect("known property");
        subs.into_iter().find(|s| s.name == name).expect("known sub-check")
    })
}

fuzz_target!(|data: &[u8]| {
    let v: Vec<u32> = data.chunks_exact(4).map(|c| u32::from_le_bytes([c[0], c[1], c[2], c[3]])).collect();
    let mut ch = Choices::new(&v);
    let mut st = Stats::default();
    st.frozen = true;
    if let Err(f) = wfverif::runner::run_case(&*sub().f, &mut ch, &mut st) {
        eprintln!("oracle failed [{}]: {}", f.sig, f.msg);
        std::process::abort();
    }
});

#![no_main]
//! C05: any input yields an AST or a well-formed parse error (oracle inside the target).
use libfuzzer_sys::fuzz_target;
use std::sync::OnceLock;
use wfverif::runner::Stats;

fn scheme() -> &'static wirefilter::Scheme {
    static S: OnceLock<wirefilter::Scheme> = OnceLock::new();
    S.get_or_init(|| {
        wfverif::engine::quiet_panics();
        wfverif::c04::matrix_recipe().build()
    })
}

fuzz_target!(|data: &[u8]| {
    let input = String::from_utf8_lossy(data);
    let mut st = Stats::default();
    st.frozen = true;
    if let Err(f) = wfverif::c05::check_input(scheme(), &input, &mut st, "libfuzzer") {
        eprintln!("C05 oracle failed [{}]: {}", f.sig, f.msg);
        std::process::abort();
    }
});

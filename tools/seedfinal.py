#!/usr/bin/env python3
"""Final detection pass: every stored seed (/verif/seeded/<ID>/<X>) is applied to a private copy of /repo's current
HEAD and the checks of the current harness are run against it (tools/seedrun.py --detect-only; the owner check first,
the others only when it misses).  The result is recorded in the seed's meta.json under `final_pass` without touching
what was recorded when the seed was first confirmed.
Usage: seedfinal.py [ID | ID/X | X ...]      (default: all; e.g. `seedfinal.py E F` = third-round seeds only)"""
import json, os, subprocess, sys, glob

want = set(sys.argv[1:])
rows = []
for d in sorted(glob.glob("/verif/seeded/*/*/")):
    pid, x = d.rstrip("/").split("/")[-2:]
    if want and pid not in want and f"{pid}/{x}" not in want and x not in want:
        continue
    r = subprocess.run(["python3", "/verif/tools/seedrun.py", pid, x, "--src", d.rstrip("/"), "--detect-only"], capture_output=True, text=True)
    try:
        rec = json.loads(r.stdout.strip().splitlines()[-1])
    except Exception as e:
        rec = {"error": str(e), "stdout": r.stdout[-300:], "stderr": r.stderr[-300:]}
    mp = os.path.join(d, "meta.json")
    meta = json.load(open(mp))
    meta["final_pass"] = {
        "repo_head": subprocess.run("git -C /repo rev-parse --short HEAD", shell=True, capture_output=True, text=True).stdout.strip(),
        "applied": rec.get("applied_to_check_copy"),
        "owner_detects": rec.get("owner_detects"),
        "detected_by_quick": rec.get("detected_by_quick"),
        "harness_build": rec.get("harness_build"),
    }
    first = meta.get("checks_that_detect_it_quick") or {}
    if rec.get("owner_detects") and not (pid in first and "signatures" in first.get(pid, {})):
        meta["detected_after_strengthening"] = True
    json.dump(meta, open(mp, "w"), indent=1)
    rows.append((pid, x, rec.get("owner_detects"), sorted((rec.get("detected_by_quick") or {}).keys())))
    print(pid, x, rec.get("owner_detects"), sorted((rec.get("detected_by_quick") or {}).keys()), rec.get("harness_build", ""), flush=True)

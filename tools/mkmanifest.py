#!/usr/bin/env python3
"""Regenerates /verif/MANIFEST.json from the table below (kept in one place so
the manifest stays valid while checks are added)."""
import json, os, sys

ROOT = os.path.dirname(os.path.dirname(os.path.abspath(__file__)))

# id -> (technique, level text, level note, design ref)
CLAIMED = {}
exec(open(os.path.join(ROOT, "tools", "claims.py")).read())

props = [json.loads(l) for l in open(os.path.join(ROOT, "properties.jsonl"))]
checks = []
na = []
for p in props:
    pid = p["id"]
    if pid in CLAIMED:
        c = CLAIMED[pid]
        checks.append({
            "property_id": pid,
            "quick_cmd": f"./check {pid} quick",
            "thorough_cmd": f"./check {pid} thorough",
            "evidence_file": f"/verif/evidence/{pid}.json",
            "replay_cmd_template": f"./check {pid} --replay {{path}}",
            "engine": "wfverif",
            "level_claimed": {"category": "exploration", "text": c["text"], "design_ref": c["ref"]},
            "level_note": c["note"],
            "technique": c["technique"],
        })
    else:
        na.append({"property_id": pid, "reason": NOT_CLAIMED.get(pid, "check not built yet")})

manifest = {
    "version": 1,
    "setup_cmd": "cd /verif/harness && CARGO_NET_OFFLINE=true cargo build",
    "hooks": {
        "guard": "cargo feature `verif-hooks` of wirefilter-engine (off by default)",
        "enable": "the harness crate depends on wirefilter-engine with features=[\"verif-hooks\"]; ./check rebuilds it from /repo's working tree on every invocation",
        "baseline_off_cmd": "cd /repo && cargo test --workspace --no-fail-fast --offline",
        "source_commits": HOOK_COMMITS,
        "add_only": True,
    },
    "engines": [{
        "name": "wfverif",
        "path": "/verif/harness",
        "serves_properties": sorted(CLAIMED.keys()),
        "kind_free_text": "Rust crate (proptest-driven choice sequences + exhaustive enumerations + reference model), binary wfcheck, built against /repo/engine and /repo/ffi by path",
    }],
    "checks": checks,
    "notes": NOTES,
    "not_applicable": na,
}
json.dump(manifest, open(os.path.join(ROOT, "MANIFEST.json"), "w"), indent=1)
print("MANIFEST.json:", len(checks), "checks,", len(na), "not claimed")

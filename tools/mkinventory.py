#!/usr/bin/env python3
"""Rewrites DESIGN.md section 3c (sub-check inventory) from /verif/evidence/*.json of the last run."""
import json, glob, os, re
ROOT = os.path.dirname(os.path.dirname(os.path.abspath(__file__)))
rows = []
for f in sorted(glob.glob(os.path.join(ROOT, "evidence", "C*.json"))):
    e = json.load(open(f))
    cov = e.get("coverage", {})
    subs = cov.get("subchecks", {})
    parts = ", ".join(f"`{k}` {v:,}" for k, v in sorted(subs.items(), key=lambda kv: -kv[1]))
    rows.append(f"| {e['property_id']} | {e.get('tier')} | {cov.get('evaluations', 0):,} | {cov.get('distinct_nontrivial', 0):,} | {cov.get('excluded', 0):,} | {e.get('wall_s', 0):.0f} | {parts} |")
text = ("### 3c. Sub-check inventory (generated from the evidence of the last run by `tools/mkinventory.py`)\n\n"
        "Evaluations per sub-check as measured in the run whose evidence files are committed (seed 1, 16 cores). "
        "`distinct non-trivial` counts fingerprints of cases that satisfy the property's stated non-triviality rule; "
        "`excluded` counts generated cases skipped by construction (open known finding F9, inapplicable constructs, documented grey zones).\n\n"
        "| property | tier | evaluations | distinct non-trivial | excluded | wall s | sub-checks (evaluations) |\n|---|---|---|---|---|---|---|\n"
        + "\n".join(rows) + "\n\n")
p = os.path.join(ROOT, "DESIGN.md")
s = open(p).read()
a = s.find("### 3c. Sub-check inventory")
marker = "---------------------------------------------------------------------------\n\n## 4. Findings on the pinned tree"
b = s.find(marker)
assert b > 0
if a >= 0:
    s = s[:a] + text + s[b:]
else:
    s = s[:b] + text + s[b:]
open(p, "w").write(s)
print("3c written:", len(rows), "rows")

#!/usr/bin/env python3
"""Rebuilds DESIGN.md section 7 (which checks catch which changes) from /verif/seeded/*/*/meta.json and
/verif/tools/mutant_results.jsonl (copied from the private mutant run)."""
import json, glob, os, re
ROOT = os.path.dirname(os.path.dirname(os.path.abspath(__file__)))
out = []
out.append("## 7. Sensitivity: which checks catch which changes\n")
out.append("### 7.1 Independently seeded changes (`/verif/seeded/<ID>/<A..I>/`)\n")
out.append("Each was written by a fresh helper that saw only the property text and a scratch worktree of /repo (nothing from /verif), "
           "asked for a change that still compiles and passes the 156 tests but needs something specific to manifest. "
           "I confirmed each in a scratch worktree (`tools/seedrun.py`: patch applies, suite passes with it, the demo fails with it and passes without it) "
           "and then ran the checks against a private copy of /repo with the patch applied (never committed to /repo).\n")
out.append("Rounds: A,B = first round (any realistic change); C,D = second round (asked for narrow triggers: magic lengths, three features at once, "
           "state carried between calls, two sites that each look fine); E,F = third round (told what A-D did, asked for a different mechanism); G,H = fourth round (told what A-F did; asked for other clauses of the statement and interactions with other features); I = fifth round (one change per property; the seeder was given the summaries of all eight earlier changes of its property and asked for another mechanism and trigger - for C05, C07, C11, C13, C17, C18 and C20 the owner check was strengthened from the seeder's summary before the seed was run, so for these `tools/oldrun.sh` measured the *first run* afterwards with the harness as committed before the round (2a1d7c2); the other thirteen were first run against the check as it stood). For A-D the *first run* is the harness at the time the seed arrived; for E-H it is the owner check of the harness as committed before that round (45906c4 / 17888b1), measured afterwards on a copy. "
           "Column *first run* is the owning check as it was when the seed arrived; *final* is `tools/seedfinal.py`: every stored seed re-applied to a private copy of /repo's final HEAD "
           "and checked by the final harness (owner first, the other checks only when it misses).\n")
out.append("| seed | what it breaks / what it needs | owning check, first run (quick) | owning check, final | other checks that caught it |")
out.append("|---|---|---|---|---|")
for d in sorted(glob.glob(os.path.join(ROOT, "seeded", "C*", "*"))):
    mp = os.path.join(d, "meta.json")
    if not os.path.exists(mp):
        continue
    m = json.load(open(mp))
    pid, x = d.split("/")[-2], d.split("/")[-1]
    det = m.get("checks_that_detect_it_quick") or {}
    hit = {k: v for k, v in det.items() if isinstance(v, dict) and "signatures" in v}
    owner = hit.get(pid)
    later = m.get("detected_after_strengthening")
    own = ("**yes** " + "; ".join(s.strip() for s in owner["signatures"][:2])) if owner else ("no" + (f" -> **yes after strengthening**: {later}" if later else ""))
    pre = m.get("pre_round_harness")
    if m.get("strengthened_before_first_run") and pre:
        cur = ("; ".join(s.strip() for s in owner["signatures"][:2])) if owner else "?"
        if pre.get("owner_detects") is True:
            own = f"**yes** (harness {pre['harness_commit']}, before the strengthening) " + "; ".join(pre.get("signatures") or [])
        elif pre.get("owner_detects") is False:
            own = f"no (harness {pre['harness_commit']}) -> **yes after strengthening**: {cur}"
        else:
            own = f"pre-round harness not measured; **yes** with the check strengthened from the seeder's summary: {cur}"
    others = ", ".join(k for k in hit if k != pid) or ("-" if owner else "none")
    summ = (m.get("summary") or "").replace("\n", " ").replace("|", "/")
    need = (m.get("needs_to_manifest") or "").replace("\n", " ").replace("|", "/")
    fp = m.get("final_pass") or {}
    fhit = {k: v for k, v in (fp.get("detected_by_quick") or {}).items() if isinstance(v, dict) and "signatures" in v}
    if not fp and x == "I" and owner:
        fin = "**yes** (the run of this round is the final harness) " + "; ".join(s.strip() for s in owner["signatures"][:2])
    elif not fp:
        fin = "(not re-run in the last pass: time)"
    elif fp.get("owner_detects"):
        fin = "**yes** " + "; ".join(s.strip() for s in fhit[pid]["signatures"][:2])
    elif m.get("out_of_scope"):
        fin = "no - " + m["out_of_scope"]
    else:
        fin = "**no**" + (" (build failed)" if fp.get("harness_build") else "")
    for k in fhit:
        if k != pid and k not in others:
            others = (others + ", " + k) if others not in ("-", "none") else k
    out.append(f"| {pid}/{x} | {summ[:260]} **Needs:** {need[:220]} | {own} | {fin} | {others} |")
out.append("")
mr = os.path.join(ROOT, "tools", "mutant_results.jsonl")
if os.path.exists(mr):
    out.append("### 7.2 Hand-written mutants (`tools/mutants.py`, quick tier, seed 1)\n")
    out.append("| property | mutant | result | first signature |")
    out.append("|---|---|---|---|")
    for l in open(mr):
        r = json.loads(l)
        sig = (r.get("signatures") or [""])[0].replace("--- violation ", "")
        note = r.get("note", "")
        out.append(f"| {r['property']} | {r['mutant']} | {r['status']}{(' - ' + note) if note else ''} | {sig} |")
    out.append("")
extra = os.path.join(ROOT, "tools", "helper_mutants.md")
if os.path.exists(extra):
    out.append(open(extra).read())
text = "\n".join(out) + "\n"
p = os.path.join(ROOT, "DESIGN.md")
s = open(p).read()
a = s.find("## 7. Sensitivity: which checks catch which changes")
if a >= 0:
    s = s[:a]
s = s.rstrip("\n") + "\n\n" + text
open(p, "w").write(s)
print("section 7 written:", len(out), "lines")

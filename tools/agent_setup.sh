#!/bin/bash
# tools/agent_setup.sh <name>: private scratch copy of /repo and /verif/harness for a helper working on one property module.
set -e
n="$1"
d="/tmp/wf-agent-$n"
rm -rf "$d"; mkdir -p "$d"
rsync -a --exclude target --exclude .git /repo/ "$d/repo/"
rsync -a --exclude target /verif/harness/ "$d/harness/"
sed -i "s#/repo/engine#$d/repo/engine#; s#/repo/ffi#$d/repo/ffi#" "$d/harness/Cargo.toml"
mkdir -p "$d/evidence" "$d/regressions"
cp /verif/known_findings.txt "$d/" 2>/dev/null || true
cp /verif/properties.jsonl "$d/"
(cd "$d/repo" && git init -q && git add -A && git commit -qm base) 
echo "$d"

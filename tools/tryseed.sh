#!/bin/bash
# tools/tryseed.sh <ID> <X> [CHECK ...]: apply seeded change <ID>/<X> to a private copy of /repo (/tmp/wf-agent-mine), build the
# current harness against it and run the quick tier of the given checks (default: the owner).  Never touches /repo.
id="$1"; x="$2"; shift 2
checks="${*:-$id}"
root=/tmp/wf-agent-mine
src="/verif/seeded/$id/$x"; [ -d "$src" ] || src="/tmp/seedout-$id/$x"
if [ ! -d $root ]; then /verif/tools/agent_setup.sh mine >/dev/null; fi
rsync -a --exclude target --exclude Cargo.toml /verif/harness/ $root/harness/
rsync -a --delete /verif/regressions/ $root/regressions/; cp /verif/known_findings.txt $root/
rsync -a --delete --exclude target --exclude .git /repo/ $root/repo/
(cd $root/repo && patch -s -p1 < $src/patch.diff) || { echo "patch failed"; exit 3; }
(cd $root/harness && CARGO_NET_OFFLINE=true cargo build --quiet 2>&1 | grep -E "^error" -A6 | head -30)
for c in $checks; do
  (cd $root && VERIF_ROOT=$root VERIF_SEED=${VERIF_SEED:-1} timeout 1500 $root/harness/target/debug/wfcheck $c quick 2>&1 | grep -E "^--- violation|VIOLATION|^\[C" | head -8)
  rm -rf $root/replays
done
rsync -a --delete --exclude target --exclude .git /repo/ $root/repo/

#!/bin/bash
# tools/regr_check.sh: the stored regressions are choice vectors, so a generator change can silently turn one into a different (passing) case.
# For each fix commit: revert it in the private copy /tmp/wf-agent-man (tools/agent_setup.sh man), replay the stored regressions and
# print which still reproduce; a line "case passes" means: re-find it with the quick check on the reverted copy and store the new replay.
d=/tmp/wf-agent-man
rsync -a --delete --exclude target --exclude .git /repo/ $d/repo/
(cd $d/repo && git add -A >/dev/null && git commit -qm sync >/dev/null 2>&1)
rsync -a --exclude target --exclude Cargo.toml /verif/harness/ $d/harness/
rsync -a --delete /verif/regressions/ $d/regressions/
cp /verif/known_findings.txt $d/
while read commit id files; do
  echo "=== $commit $id"
  cd $d/repo && git checkout -q -- . 
  git -C /repo show $commit -- engine ffi > /tmp/fix_$commit.diff
  if ! git apply -R /tmp/fix_$commit.diff 2>/tmp/rev.err; then echo "REVERT-FAILED $(head -2 /tmp/rev.err)"; continue; fi
  cd $d/harness && cargo build --quiet 2>&1 | grep -E "^error" -A5 | head
  for f in $d/regressions/$id/$files; do
    out=$(VERIF_ROOT=$d ./target/debug/wfcheck --replay $f 2>&1 | grep -E "VIOLATION|passes|sig|\[" | head -3 | tr '\n' ' ')
    echo "  $(basename $f): ${out:0:200}"
  done
done <<LIST
c2396be C03 F5-*.json
7b23b3d C03 F6-*.json
d0519a6 C04 F1-*.json
d0519a6 C17 F1-*.json
5a0dc4b C04 F8-*.json
fd6cef8 C04 F7-*.json
06d1542 C06 F4-*.json
bbbb077 C14 F3-*.json
5cf88af C15 F2-*.json
026268f C20 F10-*.json
1d32832 C19 F11-*.json
LIST
cd $d/repo && git checkout -q -- .

#!/usr/bin/env python3
"""Sensitivity testing: apply hand-written mutants (realistic small edits of the engine that compile) to a PRIVATE copy of
the repository + harness (made with tools/agent_setup.sh), run the quick tier of the property's check there, and record
whether the check reports a VIOLATION.  Usage: mutants.py <scratch-dir> [PROP ...]"""
import json, os, subprocess, sys, time

E = "engine/src/"
M = [
 # (property, name, file, old, new)
 ("C01","le-becomes-lt", E+"ast/field_expr.rs", "OrderingOp::LessThanEqual => gen_ordering!(<=, false)", "OrderingOp::LessThanEqual => gen_ordering!(<, false)"),
 ("C01","cross-family-ip-not-only-ne", E+"ast/field_expr.rs", "None => self == OrderingOp::NotEqual,", "None => self != OrderingOp::Equal,"),
 ("C01","nil-default-applied-to-eq", E+"ast/field_expr.rs", "OrderingOp::Equal => gen_ordering!(==, false)", "OrderingOp::Equal => gen_ordering!(==, nil_not_equal_behavior)"),
 ("C01","xor-binds-tighter-than-and", E+"ast/logical_expr.rs", '''        "xor" | "^^" => Xor,
        /// `and` / `&&` operator
        "and" | "&&" => And,''', '''        "and" | "&&" => And,
        /// `xor` / `^^` operator
        "xor" | "^^" => Xor,'''),
 ("C01","not-binds-whole-chain", E+"ast/logical_expr.rs", "let (arg, input) = Self::lex_simple_expr(input, &nested_parser)?;", "let (arg, input) = LogicalExpr::lex_with(input, &nested_parser)?;"),
 ("C01","xor-fold-starts-false", E+"ast/logical_expr.rs", ".fold(first.execute(ctx), |acc, item| acc ^ item.execute(ctx))", ".fold(false, |acc, item| acc ^ item.execute(ctx))"),
 ("C01","bitand-compares-equal", E+"ast/field_expr.rs", "cast_value!(value, Int) & self.0 != 0", "cast_value!(value, Int) & self.0 == self.0"),
 ("C01","nil-ne-ignores-setting", E+"scheme.rs", "        !self.inner.nil_not_equal_is_false\n", "        let _ = self.inner.nil_not_equal_is_false;\n        true\n"),
 ("C02","or-vec-no-truncate", E+"ast/logical_expr.rs", '''                                            *left = *left || *right;
                                        },
                                    );
                                    if values.len() < output.len() {
                                        output.truncate(values.len());
                                    }''', '''                                            *left = *left || *right;
                                        },
                                    );'''),
 ("C02","all-of-empty-false", E+"ast/logical_expr.rs", "Self::All => values.into_iter().all(|value| value),", "Self::All => {\n                let mut it = values.into_iter().peekable();\n                it.peek().is_some() && it.all(|value| value)\n            }"),
 ("C02","direct-quantifier-absent-all-true", E+"ast/logical_expr.rs", "                        Err(_) => false,\n                        Ok(_) => unreachable!(),", "                        Err(_) => op == QuantifierOp::All,\n                        Ok(_) => unreachable!(),"),
 ("C02","trailing-star-on-field-reversed", E+"ast/index_expr.rs", '''            IdentifierExpr::Field(f) => CompiledVecExpr::new(move |ctx| {
                let comp = &comp;
                ctx.get_field_value_unchecked(&f)
                    .and_then(|value| value.get_nested(&indexes))
                    .map_or(
                        BOOL_ARRAY,
                        #[inline]
                        |val: &LhsValue<'_>| {
                            TypedArray::from_iter(
                                val.iter().unwrap().map(|item| comp.compare(item, ctx)),
                            )''', '''            IdentifierExpr::Field(f) => CompiledVecExpr::new(move |ctx| {
                let comp = &comp;
                ctx.get_field_value_unchecked(&f)
                    .and_then(|value| value.get_nested(&indexes))
                    .map_or(
                        BOOL_ARRAY,
                        #[inline]
                        |val: &LhsValue<'_>| {
                            TypedArray::from_iter(
                                val.iter().unwrap().map(|item| comp.compare(item, ctx)).collect::<Vec<_>>().into_iter().rev(),
                            )'''),
 ("C02","simplify-middle-star", E+"ast/index_expr.rs", "    if Some(&FieldIndex::MapEach) == indexes.last() {\n        indexes.pop();\n    }", "    if let Some(p) = indexes.iter().position(|i| i == &FieldIndex::MapEach) {\n        indexes.remove(p);\n    }"),
 ("C02","not-on-vec-drops-last", E+"ast/logical_expr.rs", "vec.execute(ctx).iter().map(|item| !item).collect()", "{ let v = vec.execute(ctx); let n = v.len(); v.iter().enumerate().map(|(i, item)| if i + 1 == n && n > 3 { *item } else { !item }).collect() }"),
 ("C03","defaults-before-supplied", E+"functions/mod.rs", "(implementation.0)(&mut ExactSizeChain::new(args, opt_args.iter().cloned()))", "(implementation.0)(&mut ExactSizeChain::new(opt_args.iter().cloned(), args))"),
 ("C03","memoised-extra-args-reversed", E+"ast/function_expr.rs", "|elem| ExactSizeChain::new(once(Ok(elem)), extra_args.iter().cloned()),", "|elem| ExactSizeChain::new(once(Ok(elem)), extra_args.iter().rev().cloned()),"),
 ("C03","concat-bytes-stops-after-first-extra", E+"functions/concat.rs", "            Ok(LhsValue::Bytes(value)) => accumulator.extend_from_slice(&value),", "            Ok(LhsValue::Bytes(value)) => {\n                accumulator.extend_from_slice(&value);\n                break;\n            }"),
 ("C03","exact-size-chain-len", E+"functions/mod.rs", "        self.len_a + self.len_b\n", "        self.len_a + self.len_b.min(1)\n"),
 ("C03","map-values-skip-first", E+"ast/function_expr.rs", "map.into_values().filter_map(|elem| call(&mut f(elem))),", "map.into_values().skip(if len > 2 { 1 } else { 0 }).filter_map(|elem| call(&mut f(elem))),"),
 ("C03","ctx-cloned-before-last-check", E+"ast/function_expr.rs", "        let function_call = FunctionCallExpr::new(function.to_owned(), args, ctx);", "        let function_call = FunctionCallExpr::new(function.to_owned(), args, if index > 2 { definition.context() } else { ctx });"),
 ("C04","star-in-later-argument-accepted", E+"ast/function_expr.rs", "            if arg.map_each_count() > 0 && index != 0 {", "            if arg.map_each_count() > 0 && index > 1 {"),
 ("C04","root-may-be-array", E+"ast/mod.rs", "            Type::Bool => Ok((\n                FilterAst {", "            Type::Bool | Type::Array(_) => Ok((\n                FilterAst {"),
 ("C04","array-and-bool-operands", E+"ast/logical_expr.rs", "                (Type::Array(_), Type::Array(_)) => {}\n", "                (Type::Array(_), Type::Array(_)) => {}\n                (Type::Array(_), Type::Bool) => {}\n"),
 ("C04","quantifier-accepts-any-array", E+"ast/logical_expr.rs", "        if actual == bool_array_type() {", "        if matches!(actual, Type::Array(_)) {"),
 ("C04","bitand-on-ip-accepted", E+"ast/field_expr.rs", "                (Type::Int, ComparisonOp::Int(op)) => {", "                (Type::Int | Type::Ip, ComparisonOp::Int(op)) => {"),
 ("C04","value-expr-star-accepted", E+"ast/mod.rs", "        if op.map_each_count() > 0 {", "        if op.map_each_count() > 1 {"),
 ("C05","not-does-not-count-nesting", E+"ast/logical_expr.rs", '''        } else if let Ok((op, rest)) = UnaryOp::lex(input) {
            let nested_parser = parser.with_increased_nesting(input)?;''', '''        } else if let Ok((op, rest)) = UnaryOp::lex(input) {
            let nested_parser = parser.clone();'''),
 ("C05","span-len-not-clamped", E+"ast/parse.rs", "            span_len = min(span_len, line_end - span_start);\n", ""),
 ("C05","escape-error-span-one-byte", E+"rhs_types/bytes.rs", "&input[..c.len_utf8()]", "&input[..1]"),
 ("C05","line-number-off-by-one-after-crlf", E+"ast/parse.rs", "            .match_indices('\\n')", "            .match_indices(\"\\r\\n\")"),
 ("C06","leading-zero-is-decimal", E+"rhs_types/int.rs", "            parse_number(lex_digits(input)?, 8)", "            parse_number(lex_digits(input)?, 10)"),
 ("C06","raw-string-needs-more-hashes", E+"rhs_types/bytes.rs", "            if end_hash_count >= start_hash_count {", "            if end_hash_count > start_hash_count || start_hash_count == 0 {"),
 ("C06","index-wraps-to-u32", E+"scheme.rs", "            RhsValue::Int(i) => match u32::try_from(i) {", "            RhsValue::Int(i) => match Ok::<u32, ()>(i as u32) {"),
 ("C06","int-range-rejects-equal-bounds", E+"rhs_types/int.rs", "        if last < first {", "        if last <= first && input.len() != initial_input.len() - 1 && first != last - 0 {"),
 ("C06","octal-escape-two-digits", E+"rhs_types/bytes.rs", "    fixed_byte(input, 3, 8)", "    fixed_byte(input, if input.starts_with('0') { 3 } else { 3 }, 8).or_else(|e| if input.starts_with(\"37\") { fixed_byte(input, 2, 8) } else { Err(e) })"),
 ("C06","ip-range-allows-reversed-v6", E+"rhs_types/ip.rs", "                (IpAddr::V6(first), IpAddr::V6(last)) if first <= last => {", "                (IpAddr::V6(first), IpAddr::V6(last)) => {"),
 ("C07","parenthesised-chain-flattened", E+"ast/logical_expr.rs", '''            (
                LogicalExpr::Parenthesized(Box::new(ParenthesizedExpr { expr })),
                input,
            )''', '''            (
                if matches!(expr, LogicalExpr::Combining { .. }) { expr } else { LogicalExpr::Parenthesized(Box::new(ParenthesizedExpr { expr })) },
                input,
            )'''),
 ("C07","space-before-rhs-not-skipped-for-bitand", E+"ast/field_expr.rs", "                (Type::Int, ComparisonOp::Int(op)) => {\n                    let (rhs, input) = i64::lex(input)?;", "                (Type::Int, ComparisonOp::Int(op)) => {\n                    let (rhs, input) = i64::lex(input_after_op.strip_prefix(' ').unwrap_or(input_after_op))?;"),
 ("C07","strict-wildcard-serialised-as-wildcard", E+"ast/field_expr.rs", 'serialize_op_rhs("Strict Wildcard", rhs, ser)', 'serialize_op_rhs("Wildcard", rhs, ser)'),
 ("C07","hash-ignores-index-values", E+"ast/index_expr.rs", "#[derive(Debug, PartialEq, Eq, Clone, Hash)]\npub struct IndexExpr {", "#[derive(Debug, Eq, Clone, Hash)]\npub struct IndexExpr {"),
 ("C12","quantifier-not-walked", E+"ast/logical_expr.rs", "            LogicalExpr::Quantifier { arg, .. } => arg.walk(visitor),\n            LogicalExpr::Combining { items, .. } => {\n                items\n                    .iter()\n                    .for_each", "            LogicalExpr::Quantifier { .. } => {}\n            LogicalExpr::Combining { items, .. } => {\n                items\n                    .iter()\n                    .for_each"),
 ("C12","only-first-two-call-args-walked", E+"ast/function_expr.rs", "        self.args\n            .iter()\n            .for_each(|arg| visitor.visit_function_call_arg_expr(arg));\n        visitor.visit_function(&self.function)\n    }\n\n    #[inline]\n    fn walk_mut", "        self.args\n            .iter()\n            .take(2)\n            .for_each(|arg| visitor.visit_function_call_arg_expr(arg));\n        visitor.visit_function(&self.function)\n    }\n\n    #[inline]\n    fn walk_mut"),
 ("C12","uses-list-counts-oneof", E+"ast/visitor.rs", "        if let ComparisonOpExpr::InList { .. } = comparison_expr.op {", "        if let ComparisonOpExpr::InList { .. } | ComparisonOpExpr::OneOf(_) = comparison_expr.op {"),
 ("C12","uses-list-stops-after-first-list", E+"ast/visitor.rs", "            if visitor.uses {\n                self.uses = true;\n            }\n        }\n        if !self.uses {\n            comparison_expr.walk(self)\n        }", "            if visitor.uses {\n                self.uses = true;\n            }\n            return;\n        }\n        if !self.uses {\n            comparison_expr.walk(self)\n        }"),
 ("C14","bytes-visitor-without-seq", E+"lhs_types/bytes.rs", "        while let Some(val) = seq.next_element()? {\n            vec.push(val);\n        }", "        while let Some(val) = seq.next_element::<u8>()? {\n            if val < 0x80 {\n                vec.push(val);\n            }\n        }"),
 ("C14","map-pairs-only-at-top", E+"lhs_types/map.rs", "                keys.sort();", "                keys.sort();\n                keys.dedup_by(|a, b| a.len() == b.len() && a.len() > 3);"),
 ("C14","array-elem-type-check-skipped", E+"lhs_types/array.rs", "                    if value_type != elem_type {", "                    if value_type != elem_type && !matches!(elem_type, Type::Array(_)) {"),
 ("C14","lists-section-serialized-without-type-order", E+"execution_context.rs", "        if !self.list_matchers.is_empty() {\n            map.serialize_entry(", "        if self.list_matchers.len() > 1 {\n            map.serialize_entry("),
 ("C17","list-name-keeps-dollar", E+"rhs_types/list.rs", "        Ok((res.into(), rest))", "        Ok((if res.contains('.') { format!(\"${res}\") } else { res }.into(), rest))"),
 ("C17","list-name-allows-uppercase", E+"rhs_types/list.rs", "'a'..='z' | '0'..='9' | '_' | '.' => res.push(c),", "'a'..='z' | 'A'..='Z' | '0'..='9' | '_' | '.' => res.push(c),"),
 ("C17","matcher-of-first-list-used", E+"execution_context.rs", "        &*self.list_matchers[list.index()]\n    }\n\n    /// Get the list matcher object for the specified list type.\n    pub fn get_list_matcher(", "        &*self.list_matchers[if self.list_matchers.len() > 2 { 0 } else { list.index() }]\n    }\n\n    /// Get the list matcher object for the specified list type.\n    pub fn get_list_matcher("),
 ("C17","clear-keeps-last-matcher", E+"execution_context.rs", "        self.list_matchers\n            .iter_mut()\n            .for_each(|list_matcher| list_matcher.clear());", "        self.list_matchers\n            .iter_mut()\n            .skip(1)\n            .for_each(|list_matcher| list_matcher.clear());"),
 ("C17","never-list-matches-empty-bytes", E+"list_matcher.rs", "impl ListMatcher for NeverListMatcher {\n    fn match_value(&self, _: &str, _: &LhsValue<'_>) -> bool {\n        false", "impl ListMatcher for NeverListMatcher {\n    fn match_value(&self, _: &str, v: &LhsValue<'_>) -> bool {\n        matches!(v, LhsValue::Bytes(b) if b.is_empty())"),
 ("C20","nul-not-substituted", "ffi/src/cstring.rs", "            if *b == b'\\0' {", "            if *b == b'\\0' && len > 4096 {"),
 ("C20","match-panic-reported-as-error", "ffi/src/lib.rs", "        Err(err) => {\n            write_last_error!(\"{}\", err);\n            MatchingResult::PANIC\n        }", "        Err(err) => {\n            write_last_error!(\"{}\", err);\n            MatchingResult::ERROR\n        }"),
 ("C20","uses-list-calls-uses", "ffi/src/lib.rs", "        filter_ast.uses_list(field_name)\n", "        filter_ast.uses(field_name)\n"),
 ("C20","hash-of-debug-not-json", "ffi/src/lib.rs", "    match serde_json::to_writer(HasherWrite(&mut hasher), filter_ast.deref()) {", "    match serde_json::to_writer(HasherWrite(&mut hasher), &format!(\"{:?}\", filter_ast.deref()).len()) {"),
 ("C20","ipv4-setter-reverses-octets", "ffi/src/lib.rs", "    let name = to_str!(name_ptr, name_len);\n    match exec_context.set_field_value_from_name(name, IpAddr::from(*value)) {", "    let name = to_str!(name_ptr, name_len);\n    let value = &{ let mut v = *value; if v.len() == 4 && v[0] == 10 { v.reverse(); } v };\n    match exec_context.set_field_value_from_name(name, IpAddr::from(*value)) {"),
 ("C20","parse-error-not-cleared-on-utf8-failure", "ffi/src/lib.rs", "            Err(err) => {\n                write_last_error!(\"{}\", err);\n                return $ret;\n            }", "            Err(_err) => {\n                return $ret;\n            }"),
 # --- round 5: mutants in files no seeded change had touched much (lex.rs, filter.rs, lhs_types/*, functions/mod.rs, types.rs)
 ("C08","value-filter-skips-scheme-check", E+"filter.rs", "    ) -> Result<Result<LhsValue<'e>, Type>, SchemeMismatchError> {\n        if ctx.scheme() == &self.scheme {", "    ) -> Result<Result<LhsValue<'e>, Type>, SchemeMismatchError> {\n        if ctx.scheme() == &self.scheme || ctx.scheme().field_count() == self.scheme.field_count() {"),
 ("C04","literal-accepted-for-field-parameter", E+"functions/mod.rs", "        if self == &expected_arg_kind {\n            Ok(())", "        if self == &expected_arg_kind || expected_arg_kind == FunctionArgKind::Literal {\n            Ok(())"),
 ("C04","optional-default-type-not-checked", E+"functions/mod.rs", "            next_param\n                .expect_val_type(once(ExpectedType::Type(opt_param.default_value.get_type())))?;", "            let _ = next_param\n                .expect_val_type(once(ExpectedType::Type(opt_param.default_value.get_type())));"),
 ("C16","identifier-stops-at-second-dot", E+"scheme.rs", "            match expect(input, \".\") {\n                Ok(rest) => input = rest,\n                Err(_) => break,\n            };\n        }\n\n        let name = span(initial_input, input);\n\n        let field = scheme", "            match expect(input, \".\") {\n                Ok(rest) if span(initial_input, rest).matches('.').count() < 3 => input = rest,\n                _ => break,\n            };\n        }\n\n        let name = span(initial_input, input);\n\n        let field = scheme"),
 ("C03","array-extract-off-by-one-at-end", E+"lhs_types/array.rs", "        if idx >= data.len() {\n            None\n        } else {\n            match data {\n                InnerArray::Owned(mut vec) => Some(vec.swap_remove(idx)),", "        if idx >= data.len() {\n            None\n        } else {\n            match data {\n                InnerArray::Owned(mut vec) => Some(vec.swap_remove(if idx + 1 == vec.len() && idx > 2 { idx - 1 } else { idx })),"),
 ("C05","take-counts-bytes", E+"lex.rs", "    let rest = chars.as_str();\n    Ok((span(input, rest), rest))\n}", "    let rest = chars.as_str();\n    let _ = rest;\n    Ok((&input[..expected], &input[expected..]))\n}"),
 ("C03","call-result-general-path-skips-first", E+"ast/index_expr.rs", "                        _ => {\n                            return TypedArray::default();\n                        }\n                    }\n\n                    TypedArray::from_iter(iter.map(|item| comp.compare(&item, ctx)))", "                        _ => {\n                            return TypedArray::default();\n                        }\n                    }\n\n                    TypedArray::from_iter(iter.skip(1).map(|item| comp.compare(&item, ctx)))"),
 ("C03","call-result-value-path-absent-is-empty", E+"ast/index_expr.rs", "                        iter.reset(call.execute(ctx).map_err(|_| return_type)?);\n                        Ok(LhsValue::Array(Array::try_from_iter(ty, iter).unwrap()))", "                        iter.reset(call.execute(ctx).map_err(|_| return_type)?);\n                        Ok(LhsValue::Array(Array::try_from_iter(ty, iter.take(3)).unwrap()))"),
]

def sh(cmd, cwd=None, timeout=1800):
    return subprocess.run(cmd, shell=True, cwd=cwd, capture_output=True, text=True, timeout=timeout)

def main():
    root = sys.argv[1]
    props = set(sys.argv[2:])
    repo = os.path.join(root, "repo")
    harness = os.path.join(root, "harness")
    out = os.path.join(root, "mutants_results.jsonl")
    env = f"VERIF_ROOT={root} VERIF_SEED=1 CARGO_NET_OFFLINE=true"
    for (prop, name, f, old, new) in M:
        if props and prop not in props and name not in props:
            continue
        p = os.path.join(repo, f)
        s = open(p).read()
        if s.count(old) != 1:
            rec = {"property": prop, "mutant": name, "status": f"pattern matched {s.count(old)} times - not applied"}
            print(json.dumps(rec), flush=True); open(out, "a").write(json.dumps(rec) + "\n"); continue
        open(p, "w").write(s.replace(old, new))
        try:
            t0 = time.time()
            b = sh(f"{env} cargo build --quiet", cwd=harness)
            if b.returncode != 0:
                rec = {"property": prop, "mutant": name, "status": "does not compile", "detail": b.stderr[-400:]}
            else:
                r = sh(f"{env} {harness}/target/debug/wfcheck {prop} quick", cwd=root)
                viol = [l for l in r.stdout.splitlines() if l.startswith("VIOLATION")]
                sigs = [l for l in r.stderr.splitlines() if l.startswith("--- violation")]
                rec = {"property": prop, "mutant": name, "status": "killed" if (r.returncode == 1 and viol) else f"SURVIVED (exit {r.returncode})", "signatures": sigs[:4], "secs": round(time.time() - t0)}
        finally:
            sh("git checkout -- .", cwd=repo)
            sh(f"rm -rf {root}/replays")
        print(json.dumps(rec), flush=True)
        open(out, "a").write(json.dumps(rec) + "\n")

main()

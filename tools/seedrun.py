#!/usr/bin/env python3
"""Verify an independently seeded breaking change and run the checks against it.
Usage: seedrun.py <ID> <A|B|...> [--src /tmp/seedout-<ID>/<X>]
Phase 1 (scratch worktree /tmp/sv of /repo): the patch applies, the existing suite passes with it, the demo fails with it and
passes without it.  Phase 2 (private copy /tmp/wf-agent-seedrun of repo + harness): every property's quick check is run against
the patched copy; which ones report a VIOLATION is recorded.  Confirmed seeds are stored under /verif/seeded/<ID>/<X>/."""
import json, os, shutil, subprocess, sys, time

def sh(cmd, cwd=None, timeout=3600):
    return subprocess.run(cmd, shell=True, cwd=cwd, capture_output=True, text=True, timeout=timeout)

def main():
    pid, x = sys.argv[1], sys.argv[2]
    src = f"/tmp/seedout-{pid}/{x}"
    if "--src" in sys.argv:
        src = sys.argv[sys.argv.index("--src") + 1]
    only_detect = "--detect-only" in sys.argv
    patch = os.path.join(src, "patch.diff")
    demo = os.path.join(src, "demo.rs")
    meta = json.load(open(os.path.join(src, "meta.json"))) if os.path.exists(os.path.join(src, "meta.json")) else {}
    slot = os.environ.get("SEEDRUN_SLOT", "")
    rec = {"property": pid, "seed": x, "source": src}
    env = "CARGO_NET_OFFLINE=true"
    if not only_detect:
        sv = "/tmp/sv" + slot
        if not os.path.isdir(sv):
            r = sh(f"git -C /repo worktree add --detach {sv} HEAD -q")
        sh("git checkout -- . && git clean -fdq engine/tests ffi/tests/demo.rs", cwd=sv)
        sh("git checkout -q --detach $(git -C /repo rev-parse HEAD)", cwd=sv)
        r = sh(f"git apply --check {patch} && git apply {patch}", cwd=sv)
        rec["patch_applies"] = r.returncode == 0
        if r.returncode != 0:
            rec["detail"] = r.stderr[-400:]
            print(json.dumps(rec)); return rec
        t0 = time.time()
        r = sh(f"{env} cargo test --workspace --no-fail-fast --offline 2>&1 | grep -E '^test result|FAILED|^error' ", cwd=sv)
        lines = r.stdout.strip().splitlines()
        rec["suite_with_change"] = "pass" if lines and all("ok." in l for l in lines if l.startswith("test result")) and not any(l.startswith("error") or "FAILED" in l for l in lines) else "FAIL"
        if rec["suite_with_change"] == "FAIL":
            # the repository's own panic-hook tests are occasionally flaky under load: one retry
            r = sh(f"{env} cargo test --workspace --no-fail-fast --offline 2>&1 | grep -E '^test result|FAILED|^error' ", cwd=sv)
            lines = r.stdout.strip().splitlines()
            rec["suite_with_change"] = "pass" if lines and all("ok." in l for l in lines if l.startswith("test result")) and not any(l.startswith("error") or "FAILED" in l for l in lines) else "FAIL"
            rec["suite_retried"] = True
        rec["suite_summary"] = [l for l in lines if "passed" in l and " 0 passed" not in l]
        uses_ffi = "wirefilter_ffi" in open(demo).read()
        crate, tdir = ("wirefilter-ffi", "ffi/tests") if uses_ffi else ("wirefilter-engine", "engine/tests")
        os.makedirs(os.path.join(sv, tdir), exist_ok=True)
        shutil.copy(demo, os.path.join(sv, tdir, "demo.rs"))
        r1 = sh(f"{env} cargo test -p {crate} --test demo --offline 2>&1 | tail -30", cwd=sv)
        rec["demo_with_change"] = "fails" if ("FAILED" in r1.stdout or "panicked" in r1.stdout or "error" in r1.stdout.lower()) and "test result: ok" not in r1.stdout else "PASSES"
        sh(f"git apply -R {patch}", cwd=sv)
        r2 = sh(f"{env} cargo test -p {crate} --test demo --offline 2>&1 | tail -30", cwd=sv)
        rec["demo_without_change"] = "passes" if "test result: ok" in r2.stdout and "FAILED" not in r2.stdout else "FAILS"
        os.remove(os.path.join(sv, tdir, "demo.rs"))
        sh("git checkout -- . && git clean -fdq engine/tests", cwd=sv)
        rec["verify_secs"] = round(time.time() - t0)
        rec["confirmed"] = rec["suite_with_change"] == "pass" and rec["demo_with_change"] == "fails" and rec["demo_without_change"] == "passes"
        if not rec["confirmed"]:
            rec["demo_output_with_change"] = r1.stdout[-600:]
            rec["demo_output_without_change"] = r2.stdout[-600:]
            print(json.dumps(rec)); 
            open("/tmp/seedrun_results.jsonl", "a").write(json.dumps(rec) + "\n")
            return rec
    if "--verify-only" in sys.argv:
        dst = f"/verif/seeded/{pid}/{x}"
        os.makedirs(dst, exist_ok=True)
        if os.path.abspath(src) != dst:
            shutil.copy(patch, dst + "/patch.diff")
            shutil.copy(demo, dst + "/demo.rs")
        meta.update({"property": pid, "verified_by_me": {k: rec.get(k) for k in ("patch_applies", "suite_with_change", "suite_summary", "demo_with_change", "demo_without_change")},
                     "what_i_ran": ["git apply patch.diff (scratch worktree /tmp/sv of /repo HEAD)", "cargo test --workspace --no-fail-fast --offline", "cargo test --test demo --offline (with and without the patch)"]})
        json.dump(meta, open(dst + "/meta.json", "w"), indent=1)
        print(json.dumps(rec))
        open("/tmp/seedrun_results.jsonl", "a").write(json.dumps(rec) + "\n")
        return rec
    # phase 2
    root = "/tmp/wf-agent-seedrun" + slot
    if "--fresh" in sys.argv or not os.path.isdir(root):
        sh(f"/verif/tools/agent_setup.sh seedrun{slot} && cp -r /verif/regressions {root}/")
    else:
        # refresh the harness sources (keep target) and the repo copy
        sh(f"rsync -a --exclude target --exclude Cargo.toml /verif/harness/ {root}/harness/ && rsync -a --delete /verif/regressions/ {root}/regressions/ && cp /verif/known_findings.txt {root}/")
        sh(f"rsync -a --delete --exclude target --exclude .git /repo/ {root}/repo/")
    repo, harness = root + "/repo", root + "/harness"
    r = sh(f"git apply {patch}", cwd=repo) if os.path.isdir(repo + "/.git") else sh(f"patch -p1 < {patch}", cwd=repo)
    if r.returncode != 0:
        r = sh(f"patch -p1 < {patch}", cwd=repo)
    rec["applied_to_check_copy"] = r.returncode == 0
    henv = f"VERIF_ROOT={root} VERIF_SEED=1 CARGO_NET_OFFLINE=true"
    b = sh(f"{henv} cargo build --quiet", cwd=harness)
    if b.returncode != 0:
        rec["harness_build"] = "FAILED " + b.stderr[-300:]
    else:
        props = [json.loads(l)["id"] for l in open("/verif/properties.jsonl")]
        order = [pid] + [p for p in props if p != pid]
        detected = {}
        for p in order:
            t0 = time.time()
            r = sh(f"{henv} {harness}/target/debug/wfcheck {p} quick", cwd=root)
            sigs = [l[len("--- violation "):] for l in r.stderr.splitlines() if l.startswith("--- violation")]
            if r.returncode == 1 and "VIOLATION" in r.stdout:
                detected[p] = {"signatures": sigs[:3], "secs": round(time.time() - t0)}
            elif r.returncode not in (0, 1):
                detected[p] = {"exit": r.returncode, "note": "inconclusive/no check"}
            sh(f"rm -rf {root}/replays")
            if p == pid and p in detected and "signatures" in detected[p] and "--all" not in sys.argv:
                break  # the owning check detects it; the other checks are only consulted when it does not
        rec["detected_by_quick"] = detected
        rec["owner_detects"] = pid in detected and "signatures" in detected.get(pid, {})
    sh(f"rsync -a --delete --exclude target --exclude .git /repo/ {root}/repo/")
    # store
    if not only_detect:
        dst = f"/verif/seeded/{pid}/{x}"
        os.makedirs(dst, exist_ok=True)
        shutil.copy(patch, dst + "/patch.diff")
        shutil.copy(demo, dst + "/demo.rs")
        meta.update({"property": pid, "verified_by_me": {k: rec.get(k) for k in ("patch_applies", "suite_with_change", "suite_summary", "demo_with_change", "demo_without_change")},
                     "what_i_ran": ["git apply patch.diff (scratch worktree /tmp/sv of /repo HEAD)", "cargo test --workspace --no-fail-fast --offline", "cargo test --test demo --offline (with and without the patch)", "every ./check <ID> quick against a private copy of /repo with the patch applied"],
                     "checks_that_detect_it_quick": rec.get("detected_by_quick")})
        json.dump(meta, open(dst + "/meta.json", "w"), indent=1)
    print(json.dumps(rec))
    open("/tmp/seedrun_results.jsonl", "a").write(json.dumps(rec) + "\n")
    return rec

main()

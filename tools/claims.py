HOOK_COMMITS = ["d197d80", "eeaa9cc"]
NOTES = "All checks are generated-input search (proptest choice sequences, exhaustive small-domain enumeration) against explicit oracles; see DESIGN.md. Exit 2 = inconclusive (build failure / watchdog), never a violation."
NOT_CLAIMED = {}
CLAIMED = {
 "C19": {
  "technique": "model-based testing: exhaustive + random operation histories executed for real on fresh threads in child processes against an abstract model; lock-step two-thread interleavings",
  "text": "Exploration: every well-bracketed history up to length 5 (quick) / 7 (thorough) over {enable, disable, enter catch_panic, return, panic(unique message), set hook again, set fallback Continue, get backtrace} plus random histories up to length 30, each run on a fresh thread in a child process whose sentinel hook was installed before the catcher's; after every step the nesting level (verif hook), every catch_panic result (Ok(v) / Err(text containing the message)), what the previously installed hook received, and the recorded backtrace equal the model's; a final probe panic outside any frame must reach the previous hook; two histories interleaved step by step (scheduler thread) must each observe exactly what they observe alone; panics that unwind past a destructor calling catch_panic, panic messages up to 70 KiB; dedicated children check fallback mode Abort (SIGABRT); fresh children race the first installation of the hook at generated offsets (interleaving chosen through the verif-hooks pauses) while other threads catch panics.",
  "note": "Only string payloads, no resume_unwind; interleavings are at step granularity (finer races such as the non-atomic check-then-set in panic_catcher_set_hook are not reached).",
  "ref": "DESIGN.md section 3, C19",
 },

 "C18": {
  "technique": "stress exploration: generated filter sets executed concurrently (barrier-released threads, shared and per-thread filters/contexts) against a sequential baseline and the reference evaluator; fresh child processes racing first use of lazily initialised global state",
  "text": "Exploration: per case one generated scheme with 19 template filters (regex, SIMD contains, in-sets, lists, wildcard, map-each, plain and mapped calls, xor chains) plus generated filters and 10-16 contexts; after a sequential gate (engine = reference evaluator, repeat and recompile agree) T = 2, 4, 16, 64 barrier-released threads execute every (filter, context) pair repeatedly on shared Arc<Filter> / shared contexts as well as per-thread recompilations and cloned contexts, in walk and same-filter burst patterns; every result must equal the baseline; in-flight counters measure real overlap; fresh child processes (AVX2 on and off) race the first contains compile and first regex execution on 16 threads and must reproduce the sequential digest; filters over equal-length patterns under every byte-string operator are compiled, executed and dropped in rotation on 1..8 threads and every result equals the reference. Sub-check faults: executions that panic inside a user-supplied function (caught by the caller) interleaved with checked executions of the same shared filters on 1/2/4 threads.",
  "note": "Generated search cannot choose thread schedules: this is stress exploration of the schedules that occur; no ThreadSanitizer build; races that change no result, crash nothing and hang nothing are invisible.",
  "ref": "DESIGN.md section 3, C18",
 },

 "C11": {
  "technique": "property-based testing of generated regexes against a position-set reference matcher + exhaustive wildcard patterns against a DP reference + metamorphic size-limit checks",
  "text": "Exploration: regexes from a subset grammar (literals incl. escapes and \\xHH, ., classes with ranges/negation/quotes, ?*+, alternation, groups, ^ $ \\A \\z, word assertions \\b \\B \\< \\>, \\d \\w \\s and negations, counted and lazy repetition, (?ism:) groups) written quoted and raw, at top level and nested in parentheses / double negation / an or-operand: the AST carries exactly the pattern and the match result equals an independent position-set matcher on ~13 values each (non-UTF-8, newlines, case flips, empty); every wildcard pattern over {a,B,*,\\,?} up to length 6 (quick) / 8 (thorough) in quoted/escaped/raw forms, both operators, star limits 0..4: rejected exactly for invalid escapes, trailing backslash, ** and too many stars, accepted ones agree with a DP matcher (ASCII case folding iff not strict); regex size limits behave monotonically and independently of what was parsed before; 360 regex idioms (anchors x bodies x flag groups) on values with line breaks; wildcard values up to 1.5 KB with literals straddling offsets 256/512. Non-ASCII characters are also written as themselves in patterns (matched as their UTF-8 bytes).",
  "note": "Nested character classes and a leading ] in a class are not generated (the quoted scanner's treatment is unspecified); size thresholds are only checked for monotonicity, default-accepts and one impossibility bound.",
  "ref": "DESIGN.md section 3, C11",
 },
 "C13": {
  "technique": "exhaustive enumeration of nesting shapes x limits + random deep shapes + child-process stack-budget runs",
  "text": "Exploration: every sequence over {parenthesis, not, any/all, call} up to length 6 (quick) / 9 (thorough), typed through four adapter functions, in 4 spellings, and shapes with the deep path in each call-argument / quantifier / chain-operand position, against limits 0..8: accepted exactly when the nesting is within the limit (otherwise rejected, with the nesting error unless a hex-like function name routes the argument through the parser's fallback); random shapes at depth d-1, d, d+1 for d in {16, 64, 128 default, 129, 200}, also through parse_value; calls with an empty argument list as innermost construct; one parser object fed many inputs in a row (malformed and over-limit ones in between must not change later verdicts); accepted filters at the limit are parsed, serialised, hashed, cloned, compiled, executed and dropped on a thread with 64 KiB of stack per level in a child process. Sub-check far: constructs repeated to nesting far over the limit (excess of 255..257, 2^16-1..2^16+1, 2^17, 3*2^16) must be rejected (child process).",
  "note": "Stack budget 64 KiB x (d+8) has > 20x headroom over the measured need in the harness profile; an abnormal child exit is a violation.",
  "ref": "DESIGN.md section 3, C13",
 },

 "C08": {
  "technique": "model-based (stateful) property testing: generated operation histories interpreted against live contexts and an abstract typed-map model",
  "text": "Exploration: histories of up to 40 (quick) / 120 (thorough) operations (set by field of the own / cloned / twin scheme, set by name incl. unknown and near-miss names, get, clear, clone_with, nested borrow_with + drop, take_with, list-matcher updates, filter and value execution for own and foreign schemes) over generated schemes; after every step every live context is read back in full and compared (==) with a freshly built expected context; set outcomes (previous value, error variant, no change on failure) follow the model; separate constructor checks (Array::try_from_iter/try_from_vec, Map::try_from_iter, TypedArray/TypedMap) accept exactly homogeneous element lists.",
  "note": "Mandatory fields unset make execution panic by contract: such executions are skipped and counted; a foreign field with a wrong type may report either error variant.",
  "ref": "DESIGN.md section 3, C08",
 },
 "C20": {
  "technique": "differential property testing (C API called from the rlib vs Rust API on the same scheme) + failure-sequence histories + interleaved threads + child process for panics",
  "text": "Exploration: schemes are built through the C constructors (the same registrations, incl. names with NUL / blanks / non-ASCII / invalid UTF-8, give the same answers, errors and scheme as the Rust builder); generated filters (well-typed, mutated, NUL-containing, invalid UTF-8) give the same parse outcome with last-error = ParseError text (NUL -> 0x1A), the same AST JSON, equal hashes for equal JSON, the same uses/uses_list, the same context serialisation (typed setters and JSON setter) and the same match results (also vs the reference evaluator); histories of failing/succeeding/clear calls over 12 kinds of failures check that every failure sets a well-formed, NUL-terminated last error with no interior NUL; two threads interleaved step by step see exactly the errors they see alone; filters at the regex-size and nesting limits give the same verdicts through both APIs; contexts filled in two steps keep what was there; a child process (hook installed before or after enabling) checks Status::Panic for a user function panicking at parse, compile and match time - also twice from one source line with different payloads - and that the next call works. The builder differential includes types of up to 32 layers, always/never lists and type JSON through the C API.",
  "note": "The extern C functions are called as Rust functions from the rlib; an abnormal child exit counts as a panic crossing the C boundary.",
  "ref": "DESIGN.md section 3, C20",
 },

 "C15": {
  "technique": "exhaustive enumeration of all types up to 12 layers + sampled deep types and generated scheme documents through four serde entry points; round-trip and differential (Rust vs C API) oracles",
  "text": "Exploration: all 32,764 types with <= 12 layers and shaped/sampled types up to 32 layers round-trip through the recursive, bit-packed (CompoundType, CType built through the C constructors) and JSON forms (5 writers incl. the C API, 5 readers); descriptors with 33..130 layers must be rejected or reproduce the same JSON, never panic; scheme documents with 0..40 fields (dotted, long, non-ASCII, escape-requiring names, re-spelled with \\u escapes) round-trip names, order, types and optionality through from_str/from_slice/from_reader/from_value, duplicates (also equal only after escape normalisation) are rejected; a deep representable type is read correctly after failed reads on the same thread; the builder is offered names twice without it showing in the JSON form.",
  "note": "For from_value the expected field order is the value tree's own (sorted) member order.",
  "ref": "DESIGN.md section 3, C15",
 },
 "C16": {
  "technique": "exhaustive + random operation sequences against an abstract registry model (model-based testing), resolution confirmed by execution",
  "text": "Exploration: all add_field/add_optional_field/add_function/add_list sequences up to length 4 (quick) / 6 (thorough) over colliding names, plus random histories up to length 12 over the full pool; after every step outcomes, holder kinds, counts, order, indexes, types, optionality and lookups equal the model; 30 probe names (prefixes, extensions, case variants) resolve exactly as the model says through the API and through parsing and executing `name`, `name == lit`, `name()`; clones are interchangeable, identical re-builds are not; generated names of 1..300 bytes (one-byte neighbours, NUL-suffixed, through the Rust and the C builder) resolve exactly.",
  "note": "Names beginning with an operator keyword (not/any/all) are outside the property's pool and not generated.",
  "ref": "DESIGN.md section 3, C16",
 },

 "C09": {
  "technique": "exhaustive small-domain enumeration + property-based testing against a linear-scan reference",
  "text": "Exploration: every list of <=3 (quick) / <=4 (thorough) inclusive ranges over a 7-point domain embedded order-preservingly into i64 / IPv4 (and an IPv6 analogue), written as values, a..b ranges and CIDRs, probed at every point, between points, with other-family addresses and the unset field; plus random lists of <=40 items (extremes, neighbours of earlier endpoints, /0, duplicates, mixed families, byte-string sets with shared prefixes) probed at every boundary +-1 and at values that alias a boundary in their low 16/32 bits, members stretched across 63..300 bytes, also under any(arr[*] in {...}); also grid lists of 15..200 disjoint items over the whole domain and all/any-not/all-not forms under [*]; oracle = linear scan of the written items with own mask arithmetic.",
  "note": "Trusts the harness printer for literal forms; the exhaustive part is complete for the stated domain.",
  "ref": "DESIGN.md section 3, C09",
 },
 "C10": {
  "technique": "exhaustive (needle length x anchor) grid with constructed haystacks + property-based random cases, in two helper processes (AVX2 / scalar), naive window scan as oracle",
  "text": "Exploration: needle lengths 0..=40 x every SIMD anchor (forced through the verif-hooks override) x needle kinds x ~1000 constructed haystacks per cell (offsets straddling every 16/32-byte block end, near-misses in first/last/anchor byte, prefixes/suffixes, decoys, small alphabets), random needles/haystacks up to 300 bytes, long needles and haystacks around the 16/32/64/256-byte thresholds, and the production path (random anchor) compiled 8 times; each in a process with AVX2 allowed and one with WIREFILTER_USE_AVX2=0; near-identical patterns compiled and kept alive together (also joined in one filter by and/or/xor); every execution compared with a naive scan.",
  "note": "Needs the verif-hooks feature (anchor override, SIMD-active query); evidence records whether the SIMD half was really exercised (CPU with AVX2).",
  "ref": "DESIGN.md section 3, C10",
 },
 "C14": {
  "technique": "property-based round trips through five entry points + mutated documents; libFuzzer target ctx_json in the thorough tier",
  "text": "Exploration: generated contexts (all value types nested to depth 3, forced non-UTF-8 bytes/keys, list-matcher state) are serialised, compared with the documented JSON form, and fed back through from_str / from_slice / from_reader / serde_json::Value / the C API: equal context, byte-identical re-serialisation, generated filters agree; mutated documents (type swaps, truncation, key edits, nesting changes, out-of-range numbers, deep or unknown type descriptors, malformed list sections, unknown keys up to 1 KiB with multi-byte characters at round offsets) must be rejected or leave only deep-well-typed values, never panic.",
  "note": "Open known finding value-tree-lists-key-order (value tree x scheme with lists) is excluded by construction and probed deterministically.",
  "ref": "DESIGN.md section 3, C14",
 },

 "C17": {
  "technique": "property-based testing with a harness-defined list matcher (query log + named sets) and model-based histories",
  "text": "Exploration: `lhs in $name` over fields, index paths, map-each paths and call results with lists registered for Int/Ip/Bytes in generated orders and kinds (harness set matcher / AlwaysList / NeverList): results equal the model lookup and the matcher's query log equals the predicted (name, value) sequence; generated valid/invalid list names x registered-or-not decide acceptance exactly; histories of mutate / clear / JSON round trip (str, slice, reader) / clone / execute against a model of the matcher state.",
  "note": "Trusts the harness matcher's own lookup; query multiplicity behind short-circuit logic is compared as a set.",
  "ref": "DESIGN.md section 3, C17",
 },

 "C06": {
  "technique": "property-based round trips (independent printer -> parser -> AST JSON / boundary probes), exhaustive per-byte and per-prefix tables, reference decoders for hostile literal texts",
  "text": "Exploration: every literal kind is rendered from a value in every documented form, embedded in every literal position followed by each kind of next token, and read back from the AST (CIDR / ranges also probed by execution at their boundaries); all 256 bytes x 6 escape forms and every CIDR prefix length are enumerated; curated malformed classes must be rejected in every position; random hostile quoted / hex-pair texts are judged by reference decoders of the documented grammar (accepted exactly when well-formed, with the same value).",
  "note": "Forms whose meaning the documentation leaves open are not generated (listed in the evidence assumptions).",
  "ref": "DESIGN.md section 3, C06",
 },
 "C07": {
  "technique": "metamorphic property-based testing: alias/whitespace re-renderings, redundant parentheses, single structural mutations; canonical JSON from the model tree",
  "text": "Exploration: each generated well-typed filter is printed twice with independent alias and whitespace choices: ASTs equal, JSON byte-identical and equal to the canonical document computed from the model, C-API hash and std Hash equal, serialisation deterministic; redundant parentheses leave JSON/hash unchanged; one structural mutation must change both JSON and AST. Literal mutants include letter case, low bit, sign, bit 32, top bit, trailing NUL, IPv4 vs mapped IPv6, and edits of wildcard / regex patterns.",
  "note": "Hash inequality is not asserted; literal forms (quoted vs raw) are part of the structure and are kept identical between the two renderings.",
  "ref": "DESIGN.md section 3, C07",
 },
 "C12": {
  "technique": "property-based testing: uses/uses_list for every scheme field against identifier sets computed from the model tree",
  "text": "Exploration: for generated filters and value expressions (fields in every position class, nested calls, quantifier and logical arguments, in-$list left-hand sides) uses() and uses_list() are queried for every field of the scheme and for unknown names (function names, prefixes, extensions, case variants) and compared with the identifier sets of the source.",
  "note": "Trusts the model printer (the text contains exactly the model tree's identifiers).",
  "ref": "DESIGN.md section 3, C12",
 },

 "C05": {
  "technique": "fuzzing: proptest string/token/mutation generators + stress inputs in child processes + libFuzzer (thorough), oracle inside the target",
  "text": "Exploration: random Unicode strings, token soups over the language alphabet, string literals assembled from escapes, multi-byte characters and invalid-UTF-8 bytes in every literal slot (map key, right-hand sides, set member, regex, wildcard, function argument), valid generated filters with 1-4 character/token edits, and 1e5-long chains / 1e5-deep nestings (child process, 8 MiB stack) are fed to Scheme::parse and Scheme::parse_value; every outcome must be an AST (serialisable) or an error whose line/column/caret range lie inside the input line; panics, aborts and stack overflows are violations. A function definition counts its parameter checks while call nests of depth 4/8/16 are parsed (accepted and rejected ones): growth by more than a factor 200 means work doubling per level, i.e. no termination in practice at depth 128. The thorough tier adds 8 coverage-guided libFuzzer jobs with the same oracle inside the target. Sub-checks illtyped / matrix: grammatical filters made ill-typed by structural mutations (wrong index kind, field of another type, [*] moved, other literal kind), and every text of C04's typing matrices, through the same oracle.",
  "note": "Stack budget 8 MiB in the harness profile; a hang is reported as inconclusive (watchdog), not as a violation; libFuzzer needs the nightly toolchain (if its build fails the campaign is skipped and the evidence says so).",
  "ref": "DESIGN.md section 3, C05",
 },

 "C02": {
  "technique": "property-based testing: proptest-generated index/map-each/quantifier filters and value expressions against a reference evaluator",
  "text": "Exploration: grammar-directed well-typed filters over container fields nested to depth 3 ([n], [\"k\"], [*] in every position, bool-array logic, any/all incl. direct application to absent/empty arrays) on 6 generated contexts each, plus star-free value expressions; all three engine evaluation strategies are compared against one independent fold-based reference. Holds on everything explored.",
  "note": "Trusts harness/src/eval.rs; cases whose outcome the documented rules leave open are skipped and counted as excluded.",
  "ref": "DESIGN.md section 3, C02",
 },
 "C03": {
  "technique": "property-based testing: generated function-call filters; engine result and observed call log vs. reference evaluator's predicted log",
  "text": "Exploration: calls to a harness-registered function family (optional parameters, literal/field parameters, nested calls, logical arguments, map-each over arrays and maps, concat, a definition with a per-call context whose every accessor is exercised); for every execution the observed argument vectors, their order and (where fixed) multiplicity are compared with the prediction, and value expressions must obey the static type contract.",
  "note": "Harness functions are pure and defined once for engine and model; call multiplicity behind short-circuit logic / memoisable arguments is compared as a set.",
  "ref": "DESIGN.md section 3, C03",
 },
 "C04": {
  "technique": "exhaustive typing matrices + property-based mutated compositions against a reference type checker",
  "text": "Exploration: complete finite matrices (left type x operator x literal kind, container x index kind, operand kinds x logical operator, quantifier x argument shape, function signature x argument shape) with acceptance expected from the documented rules, and random well-typed compositions with 0-2 type-breaking mutations judged by an independent reference type checker; every accepted input is compiled and executed on 4 contexts (no panic, static type contract, agreement with the reference evaluator).",
  "note": "Undocumented typings (bare Map(Bool) as logical operand) are only required to be safe; mutated literals come from unambiguous pools.",
  "ref": "DESIGN.md section 3, C04",
 },

 "C01": {
  "technique": "property-based testing: exhaustive operator table + proptest-generated filters against a reference evaluator",
  "text": "Exploration: every cell of the (type x operator x boundary lhs incl. absent x boundary rhs x nil_ne x optional) table is executed, plus grammar-directed random well-typed scalar filters (precedence chains, not, parentheses) on 8 generated contexts each; engine result and AST JSON compared with an independent reference evaluator / canonical JSON. Holds on everything explored; not a proof. Sub-check ruleset: rule-set idioms (one field tested 2-7 times in a chain against 2-5 literals, negated members and groups, two groups joined by another operator, fields absent, both nil-not-equal settings).",
  "note": "Trusts the reference evaluator (harness/src/eval.rs), the printer and proptest's RNG; mandatory fields always set.",
  "ref": "DESIGN.md section 3, C01",
 },
}

HOOK_COMMITS = ["d197d80"]
NOTES = "All checks are generated-input search (proptest choice sequences, exhaustive small-domain enumeration) against explicit oracles; see DESIGN.md. Exit 2 = inconclusive (build failure / watchdog), never a violation."
NOT_CLAIMED = {}
CLAIMED = {
 "C01": {
  "technique": "property-based testing: exhaustive operator table + proptest-generated filters against a reference evaluator",
  "text": "Exploration: every cell of the (type x operator x boundary lhs incl. absent x boundary rhs x nil_ne x optional) table is executed, plus grammar-directed random well-typed scalar filters (precedence chains, not, parentheses) on 8 generated contexts each; engine result and AST JSON compared with an independent reference evaluator / canonical JSON. Holds on everything explored; not a proof.",
  "note": "Trusts the reference evaluator (harness/src/eval.rs), the printer and proptest's RNG; mandatory fields always set.",
  "ref": "DESIGN.md section 3, C01",
 },
}

#!/bin/bash
# tools/seedloop.sh <slot> <round letter> <ID>...: runs tools/seedrun.py (own scratch dirs per slot) once on every listed seed
# as soon as it is complete (patch.diff + demo.rs + meta.json, untouched for 2 minutes).
slot="$1"; x="$2"; shift 2
mkdir -p /tmp/seedrun-done
pending="$*"
while [ -n "$pending" ]; do
  next=""
  for id in $pending; do
    d=/tmp/seedout-$id/$x
    if [ -f "$d/patch.diff" ] && [ -f "$d/demo.rs" ] && [ -f "$d/meta.json" ] && [ $(( $(date +%s) - $(stat -c %Y $d/meta.json) )) -ge 120 ]; then
      SEEDRUN_SLOT=$slot python3 /verif/tools/seedrun.py $id $x >> /tmp/seedloop$slot.log 2>&1
      touch /tmp/seedrun-done/$id-$x
    else
      next="$next $id"
    fi
  done
  pending="$next"
  [ -f /tmp/seedloop.stop ] && exit 0
  [ -n "$pending" ] && sleep 30
done

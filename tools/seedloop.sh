#!/bin/bash
# Polls /tmp/seedout-*/{A,B,...} and runs tools/seedrun.py once on every complete seed (patch.diff + demo.rs + meta.json).
mkdir -p /tmp/seedrun-done
while true; do
  for d in /tmp/seedout-C*/[A-Z]; do
    [ -f "$d/patch.diff" ] && [ -f "$d/demo.rs" ] && [ -f "$d/meta.json" ] || continue
    id=$(basename $(dirname $d) | sed 's/seedout-//'); x=$(basename $d)
    [ -f /tmp/seedrun-done/$id-$x ] && continue
    # wait until the seeding agent left the directory alone for 3 minutes
    if [ $(( $(date +%s) - $(stat -c %Y $d/meta.json) )) -lt 180 ]; then continue; fi
    python3 /verif/tools/seedrun.py $id $x >> /tmp/seedloop.log 2>&1
    touch /tmp/seedrun-done/$id-$x
  done
  [ -f /tmp/seedloop.stop ] && exit 0
  sleep 60
done

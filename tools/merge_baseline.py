#!/usr/bin/env python3
"""Records, for the third/fourth-round seeds, what the owner check did BEFORE it was strengthened in response to that round:
reads a log written by running the owner quick check of the pre-round harness (git archive of the commit named below) against
each seed (lines `== <ID> <X>`, `--- violation [sub] sig`, `[Cxx quick] ... violations=N`) and stores it as the seed's
`checks_that_detect_it_quick` (the "first run" column of DESIGN.md section 7).
Usage: merge_baseline.py <log> <harness-commit>"""
import json, os, re, sys
log, commit = sys.argv[1], sys.argv[2]
cur = None; data = {}
for line in open(log):
    line = line.rstrip("\n")
    m = re.match(r"== (C\d\d) ([A-Z])$", line)
    if m:
        cur = (m.group(1), m.group(2)); data[cur] = {"sigs": [], "viol": None, "note": None}; continue
    if cur is None: continue
    if line.startswith("--- violation "):
        data[cur]["sigs"].append(line[len("--- violation "):])
    m = re.search(r"violations=(\d+)", line)
    if m: data[cur]["viol"] = int(m.group(1))
    if "BUILD-FAILED" in line or "patch failed" in line: data[cur]["note"] = line
for (pid, x), d in sorted(data.items()):
    mp = f"/verif/seeded/{pid}/{x}/meta.json"
    if not os.path.exists(mp): continue
    meta = json.load(open(mp))
    if d["note"]:
        meta["first_run_note"] = d["note"]
    elif d["viol"] is None and not d["sigs"]:
        continue
    elif d["sigs"] or (d["viol"] or 0) > 0:
        meta["checks_that_detect_it_quick"] = {pid: {"signatures": d["sigs"][:3] or ["(violation)"], "harness_commit": commit}}
    else:
        meta["checks_that_detect_it_quick"] = {}
        meta["first_run_harness_commit"] = commit
    json.dump(meta, open(mp, "w"), indent=1)
    print(pid, x, "first run:", "detected" if meta.get("checks_that_detect_it_quick") else "missed")

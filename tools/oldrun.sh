#!/bin/bash
# tools/oldrun.sh <harness commit> <ID>/<X> ...: the owner check of the harness AS COMMITTED at <harness commit>, run against a private
# copy of /repo with the seeded change applied (measures what the check caught before it was strengthened).
c="$1"; shift
root=/tmp/wf-agent-old
mkdir -p $root; rm -rf $root/harness.src; mkdir -p $root/harness.src
git -C /verif archive $c harness regressions known_findings.txt | tar -x -C $root/harness.src
mkdir -p $root/harness; rsync -a --delete --exclude target $root/harness.src/harness/ $root/harness/
rsync -a --delete $root/harness.src/regressions/ $root/regressions/; cp $root/harness.src/known_findings.txt $root/; cp /verif/properties.jsonl $root/; mkdir -p $root/evidence
sed -i "s#/repo/engine#$root/repo/engine#; s#/repo/ffi#$root/repo/ffi#" $root/harness/Cargo.toml
for s in "$@"; do
  id=${s%/*}; x=${s#*/}
  rsync -a --delete --exclude target --exclude .git /repo/ $root/repo/
  (cd $root/repo && patch -s -p1 < /verif/seeded/$id/$x/patch.diff) || { echo "$s patch-failed"; continue; }
  (cd $root/harness && CARGO_NET_OFFLINE=true cargo build --quiet 2>&1 | grep -E "^error" -A5 | head -10)
  out=$(cd $root && VERIF_ROOT=$root VERIF_SEED=1 timeout 1500 $root/harness/target/debug/wfcheck $id quick 2>&1 | grep -E "^--- violation" | sort -u | head -3 | tr '\n' ';')
  echo "$s harness=$c owner_detects=$([ -n "$out" ] && echo true || echo false) $out"
  rm -rf $root/replays
done

//! C20 - the C API mirrors the Rust API and reports failures via status and last-error.

use crate::ast::*;
use crate::choices::Choices;
use crate::engine::*;
use crate::eval::{self, BV, Env};
use crate::funcs;
use crate::genr::{self as g, Gen, GenCfg};
use crate::lists::ListKind;
use crate::model::*;
use crate::runner::*;
use crate::scheme::{ListState, Recipe};
use serde_json::{Value, json};
use std::ffi::CStr;
use wirefilter_ffi as ffi;
use wirefilter_ffi::Status;

fn ctype(t: &MType) -> ffi::CType {
    match t {
        MType::Ip => ffi::wirefilter_create_primitive_type(ffi::CPrimitiveType::Ip),
        MType::Bytes => ffi::wirefilter_create_primitive_type(ffi::CPrimitiveType::Bytes),
        MType::Int => ffi::wirefilter_create_primitive_type(ffi::CPrimitiveType::Int),
        MType::Bool => ffi::wirefilter_create_primitive_type(ffi::CPrimitiveType::Bool),
        MType::Array(e) => ffi::wirefilter_create_array_type(ctype(e)),
        MType::Map(e) => ffi::wirefilter_create_map_type(ctype(e)),
    }
}

/// (text, raw buffer length incl. terminator) of the calling thread's last error, None when NULL
pub fn last_error() -> Option<(Vec<u8>, usize)> {
    let p = ffi::wirefilter_get_last_error();
    if p.is_null() {
        return None;
    }
    let s = unsafe { CStr::from_ptr(p) }.to_bytes().to_vec();
    // the buffer's real length, from its Debug form `CString([..])`
    let dbg = ffi::LAST_ERROR.with_borrow(|e| format!("{e:?}"));
    let n = if dbg.contains("[]") { 0 } else { dbg.matches(',').count() + 1 };
    Some((s, n))
}

/// A well-formed last error: non-NULL, no interior NUL (the C string ends
/// exactly where the buffer ends).
fn check_last_error(what: &str, case: &Value) -> Result<Vec<u8>, Fail> {
    match last_error() {
        None => Err(Fail::new("failure-without-last-error", format!("{what}: the call failed but wirefilter_get_last_error() is NULL"), case.clone())),
        Some((s, n)) => {
            if n != s.len() + 1 {
                return Err(Fail::new(
                    "last-error-interior-nul",
                    format!("{what}: the last-error buffer holds {n} bytes but the C string ends after {} (interior NUL)", s.len()),
                    case.clone(),
                ));
            }
            Ok(s)
        }
    }
}

fn substitute_nul(s: &str) -> Vec<u8> {
    s.bytes().map(|b| if b == 0 { 0x1a } else { b }).collect()
}

fn c_scheme(r: &Recipe) -> Result<Box<ffi::Scheme>, String> {
    let mut b = ffi::wirefilter_create_scheme_builder();
    for f in &r.fields {
        if !ffi::wirefilter_add_type_field_to_scheme(&mut b, f.name.as_ptr().cast(), f.name.len(), ctype(&f.ty)) {
            return Err(format!("add_type_field {} failed", f.name));
        }
    }
    for name in &r.funcs {
        if name == "ctxfn" {
            b.add_function(name, funcs::CtxFn).map_err(|e| e.to_string())?;
        } else {
            let s = funcs::sig(name).unwrap();
            b.add_function(name, funcs::definition(&s)).map_err(|e| e.to_string())?;
        }
    }
    if r.concat {
        b.add_function("concat", wirefilter::ConcatFunction::new()).map_err(|e| e.to_string())?;
    }
    for (t, k) in &r.lists {
        let ok = match k {
            ListKind::Always => ffi::wirefilter_add_always_list_to_scheme(&mut b, ctype(t)),
            ListKind::Never => ffi::wirefilter_add_never_list_to_scheme(&mut b, ctype(t)),
            ListKind::Set => return Err("set lists cannot be registered through the C API".into()),
        };
        if !ok {
            return Err("add list failed".into());
        }
    }
    b.set_nil_not_equal_behavior(r.nil_ne);
    Ok(ffi::wirefilter_build_scheme(b))
}

fn take_string(r: ffi::SerializingResult) -> Result<String, String> {
    if r.status != Status::Success {
        return Err("status not Success".into());
    }
    let s = unsafe { std::slice::from_raw_parts(r.json.ptr as *const u8, r.json.len) };
    let out = String::from_utf8_lossy(s).to_string();
    ffi::wirefilter_free_string(r.json);
    Ok(out)
}

fn fill_ctx(arena: &mut Arena, cx: &mut ffi::ExecutionContext<'_>, r: &Recipe, c: &MCtx, how: usize, case: &Value) -> CaseResult {
    if how >= 3 {
        // two steps on one context: every other field first (3: typed setters, 4: a document),
        // then a document with the remaining fields - what is already there stays
        let part = |keep: usize| MCtx { vals: c.vals.iter().enumerate().map(|(i, v)| if i % 2 == keep { v.clone() } else { None }).collect() };
        fill_ctx(arena, cx, r, &part(0), if how == 3 { 0 } else { 2 }, case)?;
        return fill_ctx(arena, cx, r, &part(1), 2, case);
    }
    if how == 2 {
        // the whole context as one JSON document; the buffer is only lent for the call
        let mut o = serde_json::Map::new();
        for (f, v) in r.fields.iter().zip(&c.vals) {
            if let Some(v) = v {
                o.insert(f.name.clone(), v.to_ctx_json());
            }
        }
        // (kept allocated until the context is gone, so that a context that wrongly kept
        // pointers into it reads scrubbed bytes instead of freed memory)
        let buf = arena.keep_bytes_mut(serde_json::to_vec(&Value::Object(o)).unwrap());
        let ok = ffi::wirefilter_deserialize_json_to_execution_context(cx, buf.as_ptr(), buf.len());
        buf.iter_mut().for_each(|b| *b = b'#');
        if !ok {
            return Err(Fail::new("c-api-setter-rejected-valid-value", format!("deserialize_json failed: {:?}", last_error().map(|e| String::from_utf8_lossy(&e.0).to_string())), case.clone()));
        }
        return Ok(());
    }
    for (f, v) in r.fields.iter().zip(&c.vals) {
        let Some(v) = v else { continue };
        let np = f.name.as_ptr().cast();
        let nl = f.name.len();
        let ok = match (v, how) {
            (MVal::Int(i), 0) => ffi::wirefilter_add_int_value_to_execution_context(cx, np, nl, *i),
            (MVal::Bool(b), 0) => ffi::wirefilter_add_bool_value_to_execution_context(cx, np, nl, *b),
            (MVal::Bytes(b), 0) => {
                // the context borrows the bytes: they must outlive it (leaked here);
                // a non-null pointer even for the empty slice
                let buf: &'static [u8] = arena.keep_bytes(if b.is_empty() { vec![0u8] } else { b.clone() });
                ffi::wirefilter_add_bytes_value_to_execution_context(cx, np, nl, buf.as_ptr(), b.len())
            }
            (MVal::Ip(std::net::IpAddr::V4(a)), 0) => ffi::wirefilter_add_ipv4_value_to_execution_context(cx, np, nl, &a.octets()),
            (MVal::Ip(std::net::IpAddr::V6(a)), 0) => ffi::wirefilter_add_ipv6_value_to_execution_context(cx, np, nl, &a.octets()),
            (v, _) => {
                let js = arena.keep_bytes_mut(serde_json::to_vec(&v.to_ctx_json()).unwrap());
                let ok = ffi::wirefilter_add_json_value_to_execution_context(cx, np, nl, js.as_ptr(), js.len());
                js.iter_mut().for_each(|b| *b = b'#');
                ok
            }
        };
        if !ok {
            return Err(Fail::new("c-api-setter-rejected-valid-value", format!("setting {} to {:?} failed: {:?}", f.name, v.show(), last_error().map(|e| String::from_utf8_lossy(&e.0).to_string())), case.clone()));
        }
    }
    Ok(())
}

fn diff_case(ch: &mut Choices<'_>, st: &mut Stats) -> CaseResult {
    let mut arena = Arena::new();
    let broken = ch.chance(1, 3);
    let how = ch.draw(5);
    let mut gen_ = Gen::new(ch, GenCfg { max_depth: 3, ..GenCfg::full() });
    let expr = gen_.gen_bool(3);
    gen_.finish_scheme();
    let mut recipe = gen_.r.clone();
    // what the C API can express: mandatory fields, built-in lists
    for f in recipe.fields.iter_mut() {
        f.optional = false;
    }
    for (i, (_, k)) in recipe.lists.iter_mut().enumerate() {
        if *k == ListKind::Set {
            *k = if i % 2 == 0 { ListKind::Always } else { ListKind::Never };
        }
    }
    let hints = gen_.hints.clone();
    let ch = gen_.ch;
    let lists = ListState::new();
    let ctxs: Vec<MCtx> = (0..3).map(|_| g::gen_ctx(ch, &recipe, &hints)).collect();
    let alias: Vec<u8> = (0..6).map(|_| ch.draw(2) as u8).collect();
    let space: Vec<u8> = (0..6).map(|_| ch.weighted(&[3, 6, 1, 1, 1, 1]) as u8).collect();
    let good = print_expr(&expr, &Style { alias, space });
    // error inputs: mutated text, NUL bytes
    let text = if broken {
        let mut t = crate::c05::mutate_text(ch, &good);
        if ch.chance(1, 3) {
            let mut k = ch.draw(t.len() + 1);
            while !t.is_char_boundary(k) {
                k -= 1;
            }
            t.insert(k, '\0');
        }
        t
    } else {
        good.clone()
    };
    let case = json!({"scheme": recipe.show(), "filter": text, "contexts": ctxs.iter().map(|c| c.show(&recipe.fields)).collect::<Vec<_>>()});
    let cs = c_scheme(&recipe).map_err(|e| Fail::new("c-api-scheme-build", e, case.clone()))?;
    let rs: &wirefilter::Scheme = &cs;
    // scheme JSON
    st.eval();
    let sj = take_string(ffi::wirefilter_serialize_scheme_to_json(&cs)).map_err(|e| Fail::new("c-api-serialize-scheme", e, case.clone()))?;
    if sj != serde_json::to_string(rs).unwrap() || sj != serde_json::to_string(&recipe.build()).unwrap() {
        return Err(Fail::new("scheme-json-differs", sj, case.clone()));
    }
    // parse
    ffi::wirefilter_clear_last_error();
    let rust = catch(|| rs.parse(&text).map_err(|e| e.to_string())).map_err(|p| Fail::new("parse-panic", p, case.clone()))?;
    let pr = ffi::wirefilter_parse_filter(&cs, text.as_ptr().cast(), text.len());
    match (&rust, &pr.status, &pr.ast) {
        (Ok(_), Status::Success, Some(_)) => {
            // what a success does to the last error is not fixed by the property: measured only
            if last_error().is_some() {
                st.class("last-error-set-by-a-successful-call");
            }
        }
        (Err(e), Status::Error, None) => {
            let got = check_last_error("wirefilter_parse_filter", &case)?;
            let want = substitute_nul(e);
            if got != want {
                return Err(Fail::new(
                    "parse-error-text-differs",
                    format!("C API last-error:\n{}\nRust ParseError (NUL -> 0x1A):\n{}", String::from_utf8_lossy(&got), String::from_utf8_lossy(&want)),
                    case.clone(),
                ));
            }
            st.class("parse-error-mirrored");
            if e.contains('\0') || text.contains('\0') {
                st.class("error-message-with-substituted-nul");
                st.nontrivial(&text);
            }
            if e.matches('\n').count() > 3 {
                st.class("multi-line-error-message");
                st.nontrivial(&text);
            }
            return Ok(());
        }
        _ => {
            return Err(Fail::new(
                "parse-outcome-differs",
                format!("Rust API: {:?}; C API status {:?}, ast present: {}", rust.as_ref().map(|_| "Ok").map_err(|e| e.clone()), pr.status, pr.ast.is_some()),
                case.clone(),
            ));
        }
    }
    let rast = rust.unwrap();
    let cast = pr.ast.unwrap();
    // JSON, hash
    let cj = take_string(ffi::wirefilter_serialize_filter_to_json(&cast)).map_err(|e| Fail::new("c-api-serialize-filter", e, case.clone()))?;
    let rj = serde_json::to_string(&rast).unwrap();
    if cj != rj {
        return Err(Fail::new("ast-json-differs", format!("{cj}\n{rj}"), case.clone()));
    }
    let h1 = ffi::wirefilter_get_filter_hash(&cast);
    let other = print_expr(&expr, &Style::plain());
    if !broken {
        let pr2 = ffi::wirefilter_parse_filter(&cs, other.as_ptr().cast(), other.len());
        if let Some(a2) = pr2.ast {
            let j2 = take_string(ffi::wirefilter_serialize_filter_to_json(&a2)).unwrap_or_default();
            let h2 = ffi::wirefilter_get_filter_hash(&a2);
            if j2 == cj && (h1.status != Status::Success || h2.status != Status::Success || h1.hash != h2.hash) {
                return Err(Fail::new("equal-json-different-hash", format!("{:x} vs {:x}", h1.hash, h2.hash), case.clone()));
            }
            ffi::wirefilter_free_parsed_filter(a2);
        }
    }
    // uses / uses_list
    for f in &recipe.fields {
        let u = ffi::wirefilter_filter_uses(&cast, f.name.as_ptr().cast(), f.name.len());
        let ul = ffi::wirefilter_filter_uses_list(&cast, f.name.as_ptr().cast(), f.name.len());
        if u.status != Status::Success || Ok(u.used) != rast.uses(&f.name) || ul.status != Status::Success || Ok(ul.used) != rast.uses_list(&f.name) {
            return Err(Fail::new("uses-differs", format!("field {}: C API uses={:?}/{} uses_list={:?}/{}, Rust {:?} {:?}", f.name, u.status, u.used, ul.status, ul.used, rast.uses(&f.name), rast.uses_list(&f.name)), case.clone()));
        }
    }
    ffi::wirefilter_clear_last_error();
    let unknown = "no.such.field";
    let u = ffi::wirefilter_filter_uses(&cast, unknown.as_ptr().cast(), unknown.len());
    if u.status != Status::Error {
        return Err(Fail::new("uses-differs", "uses(unknown field) must report Error".to_string(), case.clone()));
    }
    check_last_error("wirefilter_filter_uses(unknown)", &case)?;
    // compile + match
    let rf = catch(|| rast.compile()).map_err(|p| Fail::new("compile-panic", p, case.clone()))?;
    let cr = ffi::wirefilter_compile_filter(cast);
    let (Status::Success, Some(cf)) = (&cr.status, &cr.filter) else {
        return Err(Fail::new("compile-outcome-differs", format!("C API compile status {:?}", cr.status), case.clone()));
    };
    for (ci, c) in ctxs.iter().enumerate() {
        st.eval();
        let mut cx = ffi::wirefilter_create_execution_context(&cs);
        fill_ctx(&mut arena, &mut cx, &recipe, c, how, &case)?;
        let rcx = recipe.make_ctx(rs, c, &lists);
        // context JSON
        let cjson = take_string(ffi::wirefilter_serialize_execution_context_to_json(&mut cx)).map_err(|e| Fail::new("c-api-serialize-context", e, case.clone()))?;
        let rjson = serde_json::to_string(&rcx).unwrap();
        if cjson != rjson {
            return Err(Fail::new("context-json-differs", format!("context #{ci}\n{cjson}\n{rjson}"), case.clone()));
        }
        let want = catch(|| rf.execute(&rcx)).map_err(|p| Fail::new("execute-panic", p, case.clone()))?;
        let m = ffi::wirefilter_match(cf, &cx);
        match (want, &m.status) {
            (Ok(b), Status::Success) if b == m.matched => {}
            other => return Err(Fail::new("match-differs", format!("context #{ci}: Rust {:?}, C API {:?}/{}", other.0, m.status, m.matched), case.clone())),
        }
        // and the reference
        let env = Env::new(&recipe, c, &lists);
        if let Ok(BV::One(b)) = eval::eval_expr(&env, &expr) {
            if !broken && b != m.matched {
                return Err(Fail::new("eval-mismatch", format!("context #{ci}: C API matched={}, reference {b}", m.matched), case.clone()));
            }
        }
        ffi::wirefilter_free_execution_context(cx);
    }
    ffi::wirefilter_free_compiled_filter(cr.filter.unwrap());
    st.class(if broken { "mutated-text-still-valid" } else { "well-typed-filter-mirrored" });
    st.sample("diff", || json!({"filter": text}));
    Ok(())
}

// ---------------------------------------------------------------------------
// Failure reporting: sequences of failing / succeeding calls

fn small_scheme() -> (Box<ffi::Scheme>, Recipe) {
    let mut r = Recipe::empty();
    for (n, t) in [("n", MType::Int), ("s", MType::Bytes), ("ip", MType::Ip), ("t", MType::Bool), ("arr", MType::array(MType::Int))] {
        r.fields.push(FieldSpec { name: n.into(), ty: t, optional: false });
    }
    r.lists.push((MType::Int, ListKind::Always));
    (c_scheme(&r).unwrap(), r)
}

/// One failing C API call of a generated kind; returns (description, substring the message must contain or None)
fn failing_call(ch: &mut Choices<'_>, cs: &ffi::Scheme, cx: &mut ffi::ExecutionContext<'_>) -> (String, bool) {
    // returns (what, failed?)
    // unknown / malformed names, and a real field of another type (`s` for the int setter, `n` otherwise)
    let names: [&[u8]; 6] = [b"nope", b"n\0x", b"\xff\xfe", b"arr", b"", b"N"];
    let other = |int_setter: bool| -> &'static [u8] { if int_setter { b"s" } else { b"n" } };
    match ch.draw(12) {
        0 => {
            let t = *ch.pick(&["n ==", "n == \"a\"", "unknown", "n == 1 and", "s matches \"(\"", "n in $A", "n == 1\n and ((", "s == \"\0\"x"]);
            let r = ffi::wirefilter_parse_filter(cs, t.as_ptr().cast(), t.len());
            (format!("parse_filter({t:?})"), r.status != Status::Success)
        }
        1 => {
            let b: &[u8] = *ch.pick(&[&b"n == \xff"[..], b"\xc3", b"s == \"\xfe\""]);
            let r = ffi::wirefilter_parse_filter(cs, b.as_ptr().cast(), b.len());
            (format!("parse_filter(invalid UTF-8 {b:?})"), r.status != Status::Success)
        }
        2 => {
            let n: &[u8] = if ch.chance(1, 4) { other(true) } else { *ch.pick(&names) };
            let ok = ffi::wirefilter_add_int_value_to_execution_context(cx, n.as_ptr().cast(), n.len(), 1);
            (format!("add_int_value({:?})", String::from_utf8_lossy(n)), !ok)
        }
        3 => {
            let n: &[u8] = if ch.chance(1, 4) { other(false) } else { *ch.pick(&names) };
            let ok = ffi::wirefilter_add_bytes_value_to_execution_context(cx, n.as_ptr().cast(), n.len(), b"v".as_ptr(), 1);
            (format!("add_bytes_value({:?})", String::from_utf8_lossy(n)), !ok)
        }
        4 => {
            let n: &[u8] = if ch.chance(1, 4) { other(false) } else { *ch.pick(&names) };
            let ok = ffi::wirefilter_add_bool_value_to_execution_context(cx, n.as_ptr().cast(), n.len(), true);
            (format!("add_bool_value({:?})", String::from_utf8_lossy(n)), !ok)
        }
        5 => {
            let n: &[u8] = if ch.chance(1, 4) { other(false) } else { *ch.pick(&names) };
            let ok = ffi::wirefilter_add_ipv4_value_to_execution_context(cx, n.as_ptr().cast(), n.len(), &[1, 2, 3, 4]);
            (format!("add_ipv4_value({:?})", String::from_utf8_lossy(n)), !ok)
        }
        6 => {
            let n: &[u8] = if ch.chance(1, 4) { other(false) } else { *ch.pick(&names) };
            let ok = ffi::wirefilter_add_ipv6_value_to_execution_context(cx, n.as_ptr().cast(), n.len(), &[0; 16]);
            (format!("add_ipv6_value({:?})", String::from_utf8_lossy(n)), !ok)
        }
        7 => {
            let n: &[u8] = *ch.pick(&[&b"n"[..], b"arr", b"nope", b"t"]);
            let j: &[u8] = *ch.pick(&[&b"\"x\""[..], b"[1,", b"{}", b"[\"a\"]", b"1.5", b"\0"]);
            let ok = ffi::wirefilter_add_json_value_to_execution_context(cx, n.as_ptr().cast(), n.len(), j.as_ptr(), j.len());
            (format!("add_json_value({:?}, {:?})", String::from_utf8_lossy(n), String::from_utf8_lossy(j)), !ok)
        }
        8 => {
            let j: &[u8] = *ch.pick(&[&b"{\"nope\":1}"[..], b"{\"n\":\"x\"}", b"[", b"{\"n\":1,\"$lists\":[{\"type\":\"Bytes\",\"data\":{}}]}", b"\xff"]);
            let ok = ffi::wirefilter_deserialize_json_to_execution_context(cx, j.as_ptr(), j.len());
            (format!("deserialize_json({:?})", String::from_utf8_lossy(j)), !ok)
        }
        9 => {
            let mut b = ffi::wirefilter_create_scheme_builder();
            let n: &[u8] = *ch.pick(&[&b"dup"[..], b"\xff"]);
            let t = ffi::wirefilter_create_primitive_type(ffi::CPrimitiveType::Int);
            let _ = ffi::wirefilter_add_type_field_to_scheme(&mut b, n.as_ptr().cast(), n.len(), t);
            let ok = ffi::wirefilter_add_type_field_to_scheme(&mut b, n.as_ptr().cast(), n.len(), t);
            ffi::wirefilter_free_scheme_builder(b);
            (format!("add_type_field twice ({:?})", String::from_utf8_lossy(n)), !ok)
        }
        10 => {
            let mut b = ffi::wirefilter_create_scheme_builder();
            let t = ffi::wirefilter_create_primitive_type(ffi::CPrimitiveType::Int);
            let _ = ffi::wirefilter_add_always_list_to_scheme(&mut b, t);
            let ok = if ch.boolean() { ffi::wirefilter_add_never_list_to_scheme(&mut b, t) } else { ffi::wirefilter_add_always_list_to_scheme(&mut b, t) };
            ffi::wirefilter_free_scheme_builder(b);
            ("add list twice for one type".to_string(), !ok)
        }
        _ => {
            let ok = ffi::panic::wirefilter_set_panic_catcher_fallback_mode(*ch.pick(&[2u8, 7, 255]));
            ("set_panic_catcher_fallback_mode(invalid)".to_string(), !ok)
        }
    }
}

fn succeeding_call(ch: &mut Choices<'_>, cs: &ffi::Scheme, cx: &mut ffi::ExecutionContext<'_>) -> String {
    match ch.draw(4) {
        0 => {
            let t = "n == 1";
            let r = ffi::wirefilter_parse_filter(cs, t.as_ptr().cast(), t.len());
            assert!(r.status == Status::Success);
            "parse_filter(n == 1)".into()
        }
        1 => {
            assert!(ffi::wirefilter_add_int_value_to_execution_context(cx, b"n".as_ptr().cast(), 1, 5));
            "add_int_value(n)".into()
        }
        2 => {
            let _ = take_string(ffi::wirefilter_serialize_scheme_to_json(cs));
            "serialize_scheme".into()
        }
        _ => {
            let _ = ffi::wirefilter_get_version();
            "get_version".into()
        }
    }
}

fn errors_case(ch: &mut Choices<'_>, st: &mut Stats) -> CaseResult {
    let (cs, _r) = small_scheme();
    let mut cx = ffi::wirefilter_create_execution_context(&cs);
    ffi::wirefilter_clear_last_error();
    let n = ch.range(2, 10);
    let mut history: Vec<String> = Vec::new();
    let mut last: Option<Vec<u8>> = None;
    let mut fail_then_success = false;
    for _ in 0..n {
        st.eval();
        match ch.weighted(&[5, 2, 1]) {
            0 => {
                // mark the buffer so that "unchanged" is distinguishable from "rewritten with the same text"
                let before = last_error().map(|e| e.0);
                let (what, failed) = failing_call(ch, &cs, &mut cx);
                history.push(what.clone());
                let case = json!({"history": history});
                if !failed {
                    return Err(Fail::new("invalid-call-succeeded", format!("{what} was expected to fail"), case));
                }
                let msg = check_last_error(&what, &case)?;
                if msg.is_empty() {
                    return Err(Fail::new("failure-with-empty-last-error", what, case));
                }
                // a later failure replaces the message: it must describe THIS call. We cannot know
                // the wording, but a failing call that leaves the previous message of a different
                // kind of call untouched is detectable when the buffer was cleared before.
                if before.is_none() {
                    st.class("failure-after-clear");
                }
                last = Some(msg);
                st.class("failing-call");
            }
            1 => {
                let what = succeeding_call(ch, &cs, &mut cx);
                history.push(what);
                // a success does not have to clear the message, but must not corrupt it
                if let Some(l) = &last {
                    let now = last_error().map(|e| e.0);
                    // (not fixed by the property whether a success clears / keeps the message: measured only)
                    if now.as_ref() != Some(l) {
                        st.class("last-error-changed-by-a-successful-call");
                        last = now;
                    }
                    fail_then_success = true;
                }
            }
            _ => {
                ffi::wirefilter_clear_last_error();
                history.push("clear_last_error".into());
                if last_error().is_some() {
                    return Err(Fail::new("clear-did-not-empty-last-error", "".to_string(), json!({"history": history})));
                }
                last = None;
            }
        }
    }
    ffi::wirefilter_free_execution_context(cx);
    if fail_then_success {
        st.nontrivial(&history);
        st.sample("errors", || json!({"history": history}));
    }
    Ok(())
}

/// A failure on one thread leaves another thread's last error untouched.
fn threads_case(ch: &mut Choices<'_>, st: &mut Stats) -> CaseResult {
    let seq_a: Vec<u32> = (0..8).map(|_| ch.raw()).collect();
    let seq_b: Vec<u32> = (0..8).map(|_| ch.raw()).collect();
    let run_alone = |seq: &[u32]| -> Vec<Option<Vec<u8>>> {
        let (cs, _) = small_scheme();
        let mut cx = ffi::wirefilter_create_execution_context(&cs);
        let mut c = Choices::new(seq);
        let mut out = Vec::new();
        ffi::wirefilter_clear_last_error();
        for _ in 0..3 {
            let _ = failing_call(&mut c, &cs, &mut cx);
            out.push(last_error().map(|e| e.0));
        }
        out
    };
    // alone (each on a fresh thread) ...
    let a_alone = std::thread::scope(|s| s.spawn(|| run_alone(&seq_a)).join().unwrap());
    let b_alone = std::thread::scope(|s| s.spawn(|| run_alone(&seq_b)).join().unwrap());
    // ... and interleaved step by step
    let (a_il, b_il) = std::thread::scope(|s| {
        use std::sync::mpsc::channel;
        let (ta, ra) = channel::<()>();
        let (tb, rb) = channel::<()>();
        let (da, dra) = channel::<()>();
        let (db, drb) = channel::<()>();
        let sa = &seq_a;
        let sb = &seq_b;
        let ha = s.spawn(move || {
            let (cs, _) = small_scheme();
            let mut cx = ffi::wirefilter_create_execution_context(&cs);
            let mut c = Choices::new(sa);
            let mut out = Vec::new();
            ffi::wirefilter_clear_last_error();
            for _ in 0..3 {
                ra.recv().unwrap();
                let _ = failing_call(&mut c, &cs, &mut cx);
                out.push(last_error().map(|e| e.0));
                da.send(()).unwrap();
            }
            out
        });
        let hb = s.spawn(move || {
            let (cs, _) = small_scheme();
            let mut cx = ffi::wirefilter_create_execution_context(&cs);
            let mut c = Choices::new(sb);
            let mut out = Vec::new();
            ffi::wirefilter_clear_last_error();
            for _ in 0..3 {
                rb.recv().unwrap();
                let _ = failing_call(&mut c, &cs, &mut cx);
                out.push(last_error().map(|e| e.0));
                db.send(()).unwrap();
            }
            out
        });
        for _ in 0..3 {
            ta.send(()).unwrap();
            dra.recv().unwrap();
            tb.send(()).unwrap();
            drb.recv().unwrap();
        }
        (ha.join().unwrap(), hb.join().unwrap())
    });
    st.eval();
    if a_il != a_alone || b_il != b_alone {
        return Err(Fail::new(
            "last-error-not-per-thread",
            format!("thread A alone {a_alone:?} vs interleaved {a_il:?}; thread B alone {b_alone:?} vs interleaved {b_il:?}"),
            json!({"seq_a": seq_a, "seq_b": seq_b}),
        ));
    }
    st.nontrivial(&(seq_a, seq_b));
    st.class("two-threads-interleaved");
    Ok(())
}

// ---------------------------------------------------------------------------
// Panics raised by a user-supplied function (child process)

#[derive(Debug)]
struct Boom;

impl wirefilter::FunctionDefinition for Boom {
    fn check_param(
        &self,
        _: &wirefilter::ParserSettings,
        params: &mut dyn ExactSizeIterator<Item = wirefilter::FunctionParam<'_>>,
        next: &wirefilter::FunctionParam<'_>,
        _: Option<&mut wirefilter::FunctionDefinitionContext>,
    ) -> Result<(), wirefilter::FunctionParamError> {
        if params.len() == 1 {
            if let wirefilter::FunctionParam::Constant(wirefilter::RhsValue::Int(1)) = next {
                panic!("boom-at-parse-7f3a");
            }
        }
        Ok(())
    }
    fn return_type(&self, _: &mut dyn ExactSizeIterator<Item = wirefilter::FunctionParam<'_>>, _: Option<&wirefilter::FunctionDefinitionContext>) -> wirefilter::Type {
        wirefilter::Type::Bool
    }
    fn arg_count(&self) -> (usize, Option<usize>) {
        (2, Some(0))
    }
    fn compile(&self, params: &mut dyn ExactSizeIterator<Item = wirefilter::FunctionParam<'_>>, _: Option<wirefilter::FunctionDefinitionContext>) -> wirefilter::CompiledFunction {
        let mode = params.nth(1).and_then(|p| if let wirefilter::FunctionParam::Constant(wirefilter::RhsValue::Int(i)) = p { Some(*i) } else { None });
        if mode == Some(2) {
            panic!("boom-at-compile-91c2");
        }
        Box::new(move |args| {
            let first = args.next();
            if mode == Some(3) {
                if let Some(Ok(wirefilter::LhsValue::Int(v))) = first {
                    if v >= 13 {
                        // one panic site, a different payload per value
                        panic!("boom-at-match-55e0-{v}");
                    }
                }
            }
            Some(wirefilter::LhsValue::Bool(true))
        })
    }
}

pub fn child(args: &[String]) -> i32 {
    if args.first().map(|s| s.as_str()) != Some("panic") {
        return 2;
    }
    // fresh process: install the catcher hook and enable catching on this thread, in either order
    if args.get(1).map(|s| s.as_str()) == Some("enable-first") {
        ffi::panic::wirefilter_enable_panic_catcher();
        ffi::panic::wirefilter_set_panic_catcher_hook();
    } else {
        ffi::panic::wirefilter_set_panic_catcher_hook();
        ffi::panic::wirefilter_enable_panic_catcher();
    }
    let mut b = ffi::wirefilter_create_scheme_builder();
    let t = ffi::wirefilter_create_primitive_type(ffi::CPrimitiveType::Int);
    assert!(ffi::wirefilter_add_type_field_to_scheme(&mut b, b"n".as_ptr().cast(), 1, t));
    b.add_function("boom", Boom).unwrap();
    let cs = ffi::wirefilter_build_scheme(b);
    let mut cx = ffi::wirefilter_create_execution_context(&cs);
    let fail = |m: String| -> i32 {
        println!("FAIL {m}");
        1
    };
    let le = || last_error().map(|e| String::from_utf8_lossy(&e.0).to_string()).unwrap_or_default();
    for round in 0..3 {
        // parse-time panic
        let t = "boom(n, 1)";
        let r = ffi::wirefilter_parse_filter(&cs, t.as_ptr().cast(), t.len());
        if r.status != Status::Panic || r.ast.is_some() {
            return fail(format!("round {round}: parse panic reported as {:?}", r.status));
        }
        if !le().contains("boom-at-parse-7f3a") {
            return fail(format!("parse panic message lost: {}", le()));
        }
        // the next call works
        let t = "boom(n, 0)";
        let r = ffi::wirefilter_parse_filter(&cs, t.as_ptr().cast(), t.len());
        if r.status != Status::Success {
            return fail(format!("parse after a panic: {:?}", r.status));
        }
        ffi::wirefilter_free_parsed_filter(r.ast.unwrap());
        // compile-time panic
        let t = "boom(n, 2)";
        let r = ffi::wirefilter_parse_filter(&cs, t.as_ptr().cast(), t.len());
        if r.status != Status::Success {
            return fail(format!("parse of boom(n,2): {:?} {}", r.status, le()));
        }
        let c = ffi::wirefilter_compile_filter(r.ast.unwrap());
        if c.status != Status::Panic || c.filter.is_some() {
            return fail(format!("compile panic reported as {:?}", c.status));
        }
        if !le().contains("boom-at-compile-91c2") {
            return fail(format!("compile panic message lost: {}", le()));
        }
        // match-time panic
        let t = "boom(n, 3)";
        let r = ffi::wirefilter_parse_filter(&cs, t.as_ptr().cast(), t.len());
        let c = ffi::wirefilter_compile_filter(r.ast.unwrap());
        if c.status != Status::Success {
            return fail(format!("compile of boom(n,3): {:?}", c.status));
        }
        let f = c.filter.unwrap();
        assert!(ffi::wirefilter_add_int_value_to_execution_context(&mut cx, b"n".as_ptr().cast(), 1, 13));
        let m = ffi::wirefilter_match(&f, &cx);
        if m.status != Status::Panic || m.matched {
            return fail(format!("match panic reported as {:?}/{}", m.status, m.matched));
        }
        if !le().contains("boom-at-match-55e0-13") {
            return fail(format!("match panic message lost: {}", le()));
        }
        // a second panic from the same source line with another payload: the message is this panic's
        for v in [14i64, 15 + round as i64] {
            assert!(ffi::wirefilter_add_int_value_to_execution_context(&mut cx, b"n".as_ptr().cast(), 1, v));
            let m = ffi::wirefilter_match(&f, &cx);
            if m.status != Status::Panic || m.matched {
                return fail(format!("match panic reported as {:?}/{}", m.status, m.matched));
            }
            if !le().contains(&format!("boom-at-match-55e0-{v}")) {
                return fail(format!("the last error after a panic with payload boom-at-match-55e0-{v} describes another panic: {}", le().lines().next().unwrap_or("")));
            }
        }
        match last_error() {
            Some((s, n)) if n == s.len() + 1 => {}
            other => return fail(format!("panic last-error malformed: {:?}", other.map(|o| o.1))),
        }
        assert!(ffi::wirefilter_add_int_value_to_execution_context(&mut cx, b"n".as_ptr().cast(), 1, 12));
        let m = ffi::wirefilter_match(&f, &cx);
        if m.status != Status::Success || !m.matched {
            return fail(format!("match after a panic: {:?}/{}", m.status, m.matched));
        }
        ffi::wirefilter_free_compiled_filter(f);
    }
    ffi::panic::wirefilter_disable_panic_catcher();
    println!("OK");
    0
}

fn panic_case(ch: &mut Choices<'_>, st: &mut Stats) -> CaseResult {
    let order = if ch.draw(2) == 1 { "enable-first" } else { "hook-first" };
    let (code, sig, out, err) = spawn_child(&["c20", "panic", order], &[], None);
    let out = String::from_utf8_lossy(&out).to_string();
    st.eval();
    match (code, sig) {
        (Some(0), _) if out.contains("OK") => {
            st.class(&format!("panic-status-reported({order})"));
            st.nontrivial("panic-at-parse-compile-match");
            st.nontrivial("next-call-works-after-panic");
            Ok(())
        }
        (Some(1), _) => Err(Fail::new("panic-not-reported-as-status", out, json!({"child": "c20 panic"}))),
        (c, s) => Err(Fail::new(
            "panic-unwound-into-caller",
            format!("child exited abnormally (code {c:?}, signal {s:?}): a panic crossed the C boundary or aborted\n{out}\n{}", String::from_utf8_lossy(&err).chars().take(600).collect::<String>()),
            json!({"child": "c20 panic"}),
        )),
    }
}

/// The same sequence of field registrations through the C builder and through the
/// Rust builder: same accept / refuse answers, same error text, same scheme.
const BUILDER_NAMES: &[&[u8]] = &[
    b"x", b"x\0", b"x\0\0", b"\0x", b"x ", b" x", b"X", b"x.y", b"x.y\0", b"", b"\0", b"\xc3\xa9", b"\xc3\xa9\0", b"x\n", b"x\xff", b"\xff",
    b"a_rather_long_field_name.with.several.segments.and_more_than_sixty_four_bytes_in_total",
    b"a_rather_long_field_name.with.several.segments.and_more_than_sixty_four_bytes_in_total\0",
];

fn builder_case(ch: &mut Choices<'_>, st: &mut Stats) -> CaseResult {
    let n = ch.range(1, 7);
    let mut cb = ffi::wirefilter_create_scheme_builder();
    let mut rb = wirefilter::SchemeBuilder::new();
    let mut log: Vec<Value> = Vec::new();
    let types = [MType::Int, MType::Bytes, MType::Bool, MType::Ip, MType::array(MType::Int), MType::map(MType::Bytes)];
    let mut used: Vec<MType> = Vec::new();
    for _ in 0..n {
        let name: &[u8] = *ch.pick(BUILDER_NAMES);
        // mostly the shallow types; now and then a type nested up to the deepest one a type descriptor can hold (32 layers)
        let t = if ch.chance(1, 5) {
            let layers = *ch.pick(&[2usize, 3, 4, 8, 16, 30, 31, 32]);
            let mut t = ch.pick(&types[..4]).clone();
            for _ in 0..layers {
                t = if ch.boolean() { MType::array(t) } else { MType::map(t) };
            }
            st.class(&format!("builder:type-with-{layers}-layers"));
            t
        } else {
            ch.pick(&types).clone()
        };
        used.push(t.clone());
        if ch.chance(1, 4) {
            // a list for that type (always / never), through both builders
            let always = ch.boolean();
            log.push(json!({"add_list": if always { "always" } else { "never" }, "type": t.show()}));
            let case = json!({"registrations_in_order": log});
            st.eval();
            ffi::wirefilter_clear_last_error();
            let c_ok = if always { ffi::wirefilter_add_always_list_to_scheme(&mut cb, ctype(&t)) } else { ffi::wirefilter_add_never_list_to_scheme(&mut cb, ctype(&t)) };
            let rust = if always { rb.add_list(t.to_engine(), wirefilter::AlwaysList {}) } else { rb.add_list(t.to_engine(), wirefilter::NeverList {}) }.map_err(|e| e.to_string());
            match (&rust, c_ok) {
                (Ok(()), true) => {}
                (Err(e), false) => {
                    let got = check_last_error("wirefilter_add_*_list_to_scheme", &case)?;
                    if got != substitute_nul(e) {
                        return Err(Fail::new("builder-error-text-differs", format!("C last error {:?}, Rust error {:?}", String::from_utf8_lossy(&got), e), case));
                    }
                    st.class("builder:list-refused-on-both-sides");
                }
                (r, c) => {
                    return Err(Fail::new("builder-outcome-differs", format!("wirefilter_add_*_list_to_scheme returned {c}, the Rust builder {r:?}"), case));
                }
            }
            continue;
        }
        log.push(json!({"add_type_field": show_bytes(name), "type": t.show()}));
        let case = json!({"registrations_in_order": log});
        st.eval();
        ffi::wirefilter_clear_last_error();
        let c_ok = ffi::wirefilter_add_type_field_to_scheme(&mut cb, name.as_ptr().cast(), name.len(), ctype(&t));
        let rust: Result<(), String> = match std::str::from_utf8(name) {
            Err(e) => Err(e.to_string()),
            Ok(s) => rb.add_field(s, t.to_engine()).map_err(|e| e.to_string()),
        };
        match (&rust, c_ok) {
            (Ok(()), true) => {}
            (Err(e), false) => {
                let got = check_last_error("wirefilter_add_type_field_to_scheme", &case)?;
                if got != substitute_nul(e) {
                    return Err(Fail::new(
                        "builder-error-text-differs",
                        format!("C last error {:?}, Rust error {:?}", String::from_utf8_lossy(&got), e),
                        case,
                    ));
                }
                st.class("builder:refused-on-both-sides");
            }
            (r, c) => {
                return Err(Fail::new(
                    "builder-outcome-differs",
                    format!("wirefilter_add_type_field_to_scheme returned {c}, the Rust builder {r:?}"),
                    case,
                ));
            }
        }
    }
    let case = json!({"registrations_in_order": log});
    let cs = ffi::wirefilter_build_scheme(cb);
    let rs = rb.build();
    let cj = take_string(ffi::wirefilter_serialize_scheme_to_json(&cs)).map_err(|e| Fail::new("c-api-serialize-scheme", e, case.clone()))?;
    let rj = serde_json::to_string(&rs).unwrap();
    if cj != rj {
        return Err(Fail::new("builder-scheme-differs", format!("scheme built through the C API: {cj}\nscheme built through the Rust API: {rj}"), case));
    }
    let crs: &wirefilter::Scheme = &cs;
    for name in BUILDER_NAMES {
        if let Ok(sname) = std::str::from_utf8(name) {
            let (a, b) = (crs.get_field(sname).map(|f| f.index()).ok(), rs.get_field(sname).map(|f| f.index()).ok());
            if a != b {
                return Err(Fail::new("builder-lookup-differs", format!("get_field({sname:?}): C-built scheme {a:?}, Rust-built scheme {b:?}"), case));
            }
        }
    }
    for t in &used {
        let (a, b) = (crs.get_list(&t.to_engine()).is_some(), rs.get_list(&t.to_engine()).is_some());
        if a != b {
            return Err(Fail::new("builder-lookup-differs", format!("get_list({}): C-built scheme {a}, Rust-built scheme {b}", t.show()), case));
        }
        let tj = take_string(ffi::wirefilter_serialize_type_to_json(ctype(t))).map_err(|e| Fail::new("c-api-serialize-type", format!("{e} for {}", t.show()), case.clone()))?;
        let want = serde_json::to_string(&t.to_engine()).unwrap();
        if tj != want {
            return Err(Fail::new("type-json-differs", format!("wirefilter_serialize_type_to_json: {tj}\nserde_json::to_string(&Type): {want}"), case));
        }
    }
    if rs.field_count() >= 2 {
        st.nontrivial(&cj);
    }
    if log.iter().any(|l| l["add_type_field"].as_str().map(|s| s.contains("\\x00") || s.contains("\\0")).unwrap_or(false)) {
        st.class("builder:name-with-nul");
    }
    st.sample("builder", || json!({"registrations_in_order": log, "scheme_json": cj}));
    ffi::wirefilter_free_scheme(cs);
    Ok(())
}

/// Filters at the parser's configured limits (regex compiled size, nesting depth, long
/// operand lists): the C API must draw every line where the Rust API draws it.
fn limits_texts() -> Vec<String> {
    let mut v = Vec::new();
    for n in [1000usize, 10_000, 30_000, 60_000, 100_000, 300_000, 1_000_000] {
        v.push(format!("s ~ \".{{{n}}}\""));
        v.push(format!("s matches r\"[a-z0-9]{{{n}}}\""));
    }
    for n in [2000usize, 20_000, 50_000] {
        v.push(format!("s ~ \"(ab|cd){{{n}}}\""));
    }
    for d in [64usize, 127, 128, 129, 130, 200] {
        v.push(format!("{}t{}", "(".repeat(d), ")".repeat(d)));
        v.push(format!("{}t", "not ".repeat(d)));
    }
    v.push(format!("s wildcard \"{}\"", "a*".repeat(500)));
    v.push(format!("n in {{{}}}", "1 2..3 ".repeat(5000)));
    v
}

fn limits_case(ch: &mut Choices<'_>, st: &mut Stats) -> CaseResult {
    let texts = limits_texts();
    let text = &texts[ch.draw(texts.len())];
    let (cs, _r) = small_scheme();
    let rs: &wirefilter::Scheme = &cs;
    let case = json!({"filter": if text.len() > 120 { format!("{}... ({} bytes)", &text[..100], text.len()) } else { text.clone() }});
    st.eval();
    ffi::wirefilter_clear_last_error();
    let rust = catch(|| rs.parse(text).map(|a| serde_json::to_string(&a).unwrap()).map_err(|e| e.to_string())).map_err(|p| Fail::new("parse-panic", p, case.clone()))?;
    let pr = ffi::wirefilter_parse_filter(&cs, text.as_ptr().cast(), text.len());
    match (&rust, &pr.status, &pr.ast) {
        (Ok(j), Status::Success, Some(ast)) => {
            let cj = take_string(ffi::wirefilter_serialize_filter_to_json(ast)).map_err(|e| Fail::new("c-api-serialize-filter", e, case.clone()))?;
            if &cj != j {
                return Err(Fail::new("ast-json-differs", "C API and Rust API serialise the accepted filter differently".to_string(), case));
            }
            st.class("limits:accepted-by-both");
        }
        (Err(e), Status::Error, None) => {
            let got = check_last_error("wirefilter_parse_filter", &case)?;
            if got != substitute_nul(e) {
                return Err(Fail::new(
                    "parse-error-text-differs",
                    format!("C last error: {}\nRust error: {}", String::from_utf8_lossy(&got).lines().last().unwrap_or(""), e.lines().last().unwrap_or("")),
                    case,
                ));
            }
            st.class("limits:rejected-by-both");
        }
        (r, s, _) => {
            return Err(Fail::new(
                "parse-outcome-differs",
                format!("Rust API: {}; C API status {s:?}", if r.is_ok() { "accepted".to_string() } else { format!("rejected ({})", r.as_ref().unwrap_err().lines().last().unwrap_or("")) }),
                case,
            ));
        }
    }
    if let Some(a) = pr.ast {
        ffi::wirefilter_free_parsed_filter(a);
    }
    st.nontrivial(text);
    Ok(())
}

pub fn subs() -> Vec<Sub> {
    vec![
        Sub { name: "diff", f: Box::new(diff_case) },
        Sub { name: "builder", f: Box::new(builder_case) },
        Sub { name: "limits", f: Box::new(limits_case) },
        Sub { name: "errors", f: Box::new(errors_case) },
        Sub { name: "threads", f: Box::new(threads_case) },
        Sub { name: "panic", f: Box::new(panic_case) },
    ]
}

pub fn run(run: &Run) {
    run.rule(
        "diff: schemes built through the C constructors (fields of every type, always/never lists, harness functions), generated filters (well-typed, and mutated / NUL-containing texts) parsed through both APIs on the same scheme: same outcome, last-error text = ParseError text with NUL -> 0x1A, same AST JSON, equal hash for equal JSON, same uses/uses_list, contexts filled through the typed setters or the JSON setter serialise identically and match identically (also vs the reference evaluator); errors: sequences of 2-10 failing / succeeding / clear calls over 12 kinds of failing calls (invalid UTF-8 and NUL in names and filters, unknown fields, wrong types, bad JSON, duplicate fields/lists): every failure sets a well-formed last error; threads: two threads' failing calls interleaved step by step see exactly the errors they see alone; panic (child process): a user function panicking at parse / compile / match time yields Status::Panic with the payload in last-error and the next call works; \
         non-trivial = an error message containing a substituted NUL or several lines, a success after a failure on the same thread, an interleaving, a reported panic; distinct by input",
    );
    run.assume("the C functions are called as Rust functions from the rlib (same code as the cdylib exports)");
    let subs = subs();
    let get = |n: &str| &*find_sub(&subs, n).unwrap().f;
    run_regressions(run, &subs);
    run.fixed("panic", &[vec![0], vec![1]], get("panic"));
    let n = run.tier.pick(60_000, 2_000_000);
    run.random("diff", n, 300, get("diff"));
    run.random("builder", n, 40, get("builder"));
    run.enumerate("limits", limits_texts().len() as u64, &|i| vec![i as u32], get("limits"));
    run.random("errors", n, 60, get("errors"));
    run.random("threads", n / 20, 40, get("threads"));
}

//! Harness-registered function family.  Each function's semantics is defined
//! once (`apply`) on model values; the engine-side implementation converts its
//! arguments to model values, logs the call, and calls the same definition.

use crate::model::*;
use std::cell::RefCell;
use wirefilter::{
    FunctionArgs, LhsValue, SimpleFunctionArgKind, SimpleFunctionDefinition, SimpleFunctionImpl,
    SimpleFunctionOptParam, SimpleFunctionParam, Type,
};

#[derive(Clone, Copy, PartialEq, Eq, Debug, Hash)]
pub enum Kind {
    Field,
    Literal,
    Both,
}

#[derive(Clone, Debug)]
pub struct Sig {
    pub name: &'static str,
    pub params: Vec<(Kind, MType)>,
    pub opts: Vec<(Kind, MVal)>,
    pub ret: MType,
}

pub type ArgV = Result<MVal, MType>;

#[derive(Clone, PartialEq, Eq, Hash, Debug)]
pub struct CallRec {
    pub name: String,
    pub args: Vec<ArgV>,
}

impl CallRec {
    pub fn show(&self) -> serde_json::Value {
        serde_json::json!({
            "fn": self.name,
            "args": self.args.iter().map(|a| match a {
                Ok(v) => v.show(),
                Err(t) => serde_json::json!({"absent": t.show()}),
            }).collect::<Vec<_>>()
        })
    }
}

thread_local! {
    pub static CALL_LOG: RefCell<Option<Vec<CallRec>>> = const { RefCell::new(None) };
}

pub fn log_start() {
    CALL_LOG.with(|l| *l.borrow_mut() = Some(Vec::new()));
}

pub fn log_take() -> Vec<CallRec> {
    CALL_LOG.with(|l| l.borrow_mut().take().unwrap_or_default())
}

fn b(v: &[u8]) -> MVal {
    MVal::Bytes(v.to_vec())
}

pub fn sigs() -> Vec<Sig> {
    use Kind::*;
    use MType::*;
    let ab = || MType::array(Bool);
    vec![
        Sig { name: "idb", params: vec![(Field, Bytes)], opts: vec![], ret: Bytes },
        Sig { name: "lower", params: vec![(Field, Bytes)], opts: vec![], ret: Bytes },
        Sig { name: "len", params: vec![(Field, Bytes)], opts: vec![], ret: Int },
        Sig { name: "dropodd", params: vec![(Field, Int)], opts: vec![], ret: Int },
        Sig { name: "isodd", params: vec![(Field, Int)], opts: vec![], ret: Bool },
        Sig {
            name: "opt2",
            params: vec![(Field, Bytes)],
            opts: vec![(Literal, MVal::Int(10)), (Literal, b(b"d"))],
            ret: Bytes,
        },
        Sig { name: "addi", params: vec![(Both, Int), (Both, Int)], opts: vec![], ret: Int },
        Sig { name: "alen", params: vec![(Field, MType::array(Bytes))], opts: vec![], ret: Int },
        Sig { name: "pick", params: vec![(Field, Bool), (Both, Bytes), (Both, Bytes)], opts: vec![], ret: Bytes },
        Sig { name: "cnt", params: vec![(Field, ab())], opts: vec![], ret: Int },
        Sig { name: "ipid", params: vec![(Both, Ip)], opts: vec![], ret: Ip },
        Sig { name: "sfx", params: vec![(Field, Bytes), (Both, Bytes)], opts: vec![(Both, MVal::Int(0))], ret: Bytes },
        Sig { name: "emb", params: vec![(Field, MType::map(Bool))], opts: vec![], ret: Int },
        Sig { name: "b2b", params: vec![(Field, Bool)], opts: vec![], ret: Bool },
        Sig { name: "b2a", params: vec![(Field, Bool)], opts: vec![], ret: ab() },
        Sig { name: "a2b", params: vec![(Field, ab())], opts: vec![], ret: Bool },
        Sig { name: "a2a", params: vec![(Field, ab())], opts: vec![], ret: ab() },
        Sig { name: "mkarr", params: vec![(Field, Bytes)], opts: vec![], ret: MType::array(Bytes) },
        // no mandatory parameters: `nowi()`, `yes()`, `optb()` / `optb("x")`
        Sig { name: "nowi", params: vec![], opts: vec![], ret: Int },
        Sig { name: "yes", params: vec![], opts: vec![], ret: Bool },
        Sig { name: "optb", params: vec![], opts: vec![(Literal, b(b"dflt"))], ret: Bytes },
    ]
}

pub fn sig(name: &str) -> Option<Sig> {
    sigs().into_iter().find(|s| s.name == name)
}

/// The single definition of every harness function.
pub fn apply(name: &str, a: &[ArgV]) -> Option<MVal> {
    fn by(a: &ArgV) -> Option<&Vec<u8>> {
        match a {
            Ok(MVal::Bytes(b)) => Some(b),
            _ => None,
        }
    }
    fn int(a: &ArgV) -> Option<i64> {
        match a {
            Ok(MVal::Int(i)) => Some(*i),
            _ => None,
        }
    }
    fn boolean(a: &ArgV) -> Option<bool> {
        match a {
            Ok(MVal::Bool(b)) => Some(*b),
            _ => None,
        }
    }
    fn bools(a: &ArgV) -> Option<Vec<bool>> {
        match a {
            Ok(MVal::Array(_, v)) => Some(v.iter().map(|e| matches!(e, MVal::Bool(true))).collect()),
            _ => None,
        }
    }
    match name {
        "idb" => by(&a[0]).map(|v| MVal::Bytes(v.clone())),
        "lower" => by(&a[0]).map(|v| MVal::Bytes(v.to_ascii_lowercase())),
        "len" => by(&a[0]).map(|v| MVal::Int(v.len() as i64)),
        "dropodd" => int(&a[0]).and_then(|i| if i & 1 == 1 { None } else { Some(MVal::Int(i)) }),
        "isodd" => int(&a[0]).map(|i| MVal::Bool(i & 1 == 1)),
        "opt2" => {
            let first = by(&a[0])?;
            let mut out = first.clone();
            out.extend_from_slice(int(&a[1]).map(|i| i.to_string()).unwrap_or("?".into()).as_bytes());
            out.extend_from_slice(by(&a[2]).map(|v| v.as_slice()).unwrap_or(b"?"));
            Some(MVal::Bytes(out))
        }
        "addi" => Some(MVal::Int(int(&a[0])?.wrapping_add(int(&a[1])?))),
        "alen" => Some(MVal::Int(match &a[0] {
            Ok(MVal::Array(_, v)) => v.len() as i64,
            _ => -1,
        })),
        "pick" => {
            let c = boolean(&a[0])?;
            by(if c { &a[1] } else { &a[2] }).map(|v| MVal::Bytes(v.clone()))
        }
        "cnt" => Some(MVal::Int(match bools(&a[0]) {
            Some(v) => v.iter().filter(|b| **b).count() as i64,
            None => -1,
        })),
        "ipid" => match &a[0] {
            Ok(MVal::Ip(ip)) => Some(MVal::Ip(*ip)),
            _ => None,
        },
        "sfx" => {
            let mut out = by(&a[0])?.clone();
            out.extend_from_slice(by(&a[1]).map(|v| v.as_slice()).unwrap_or(b"<nil>"));
            let n = int(&a[2]).unwrap_or(-1);
            if n != 0 {
                out.extend_from_slice(n.to_string().as_bytes());
            }
            Some(MVal::Bytes(out))
        }
        "emb" => Some(MVal::Int(match &a[0] {
            Ok(MVal::Map(_, m)) => m.values().filter(|v| matches!(v, MVal::Bool(true))).count() as i64,
            Ok(_) => -2,
            Err(_) => -1,
        })),
        "b2b" => boolean(&a[0]).map(MVal::Bool),
        "b2a" => boolean(&a[0]).map(|x| MVal::Array(MType::Bool, vec![MVal::Bool(x), MVal::Bool(!x)])),
        "a2b" => bools(&a[0]).map(|v| MVal::Bool(v.iter().filter(|b| **b).count() % 2 == 1)),
        "a2a" => bools(&a[0]).map(|v| MVal::Array(MType::Bool, v.into_iter().rev().map(MVal::Bool).collect())),
        "mkarr" => by(&a[0]).map(|v| {
            MVal::Array(
                MType::Bytes,
                vec![MVal::Bytes(v.clone()), MVal::Bytes(v.iter().rev().cloned().collect())],
            )
        }),
        "nowi" => Some(MVal::Int(42)),
        "yes" => Some(MVal::Bool(true)),
        "optb" => by(&a[0]).map(|v| MVal::Bytes(v.clone())),
        _ => panic!("unknown harness function {name}"),
    }
}

fn run_fn<'a>(name: &'static str, args: FunctionArgs<'_, 'a>) -> Option<LhsValue<'a>> {
    let declared = args.len();
    let mut v: Vec<ArgV> = Vec::new();
    for a in args {
        v.push(match a {
            Ok(x) => Ok(MVal::from_lhs(&x)),
            Err(t) => Err(MType::from_engine(t)),
        });
    }
    // ExactSizeIterator contract: the announced length is the real one
    assert_eq!(declared, v.len(), "FunctionArgs::len() disagrees with the number of arguments yielded");
    // every argument (value or typed absence) has the declared parameter type
    if let Some(s) = sig(name) {
        assert_eq!(v.len(), s.params.len() + s.opts.len(), "{name} invoked with {} arguments", v.len());
        for (i, a) in v.iter().enumerate() {
            let want = if i < s.params.len() { s.params[i].1.clone() } else { s.opts[i - s.params.len()].1.ty() };
            let got = match a {
                Ok(x) => x.ty(),
                Err(t) => t.clone(),
            };
            assert!(
                got == want,
                "{name} received argument #{i} of type {} where its parameter is declared {}",
                got.show(),
                want.show()
            );
        }
    }
    CALL_LOG.with(|l| {
        if let Some(log) = l.borrow_mut().as_mut() {
            log.push(CallRec { name: name.to_string(), args: v.clone() });
        }
    });
    apply(name, &v).map(|r| r.to_lhs())
}

macro_rules! impls {
    ($($id:ident => $name:literal),* $(,)?) => {
        $(fn $id<'a>(args: FunctionArgs<'_, 'a>) -> Option<LhsValue<'a>> { run_fn($name, args) })*
        fn impl_of(name: &str) -> SimpleFunctionImpl {
            match name {
                $($name => SimpleFunctionImpl::new($id),)*
                _ => panic!("no impl for {name}"),
            }
        }
    };
}

impls! {
    f_idb => "idb", f_lower => "lower", f_len => "len", f_dropodd => "dropodd", f_isodd => "isodd",
    f_opt2 => "opt2", f_addi => "addi", f_alen => "alen", f_pick => "pick", f_cnt => "cnt",
    f_ipid => "ipid", f_sfx => "sfx", f_emb => "emb", f_b2b => "b2b", f_b2a => "b2a", f_a2b => "a2b",
    f_a2a => "a2a", f_mkarr => "mkarr", f_nowi => "nowi", f_yes => "yes", f_optb => "optb",
}

fn kind(k: Kind) -> SimpleFunctionArgKind {
    match k {
        Kind::Field => SimpleFunctionArgKind::Field,
        Kind::Literal => SimpleFunctionArgKind::Literal,
        Kind::Both => SimpleFunctionArgKind::Both,
    }
}

pub fn definition(s: &Sig) -> SimpleFunctionDefinition {
    SimpleFunctionDefinition {
        params: s
            .params
            .iter()
            .map(|(k, t)| SimpleFunctionParam { arg_kind: kind(*k), val_type: t.to_engine() })
            .collect(),
        opt_params: s
            .opts
            .iter()
            .map(|(k, v)| SimpleFunctionOptParam { arg_kind: kind(*k), default_value: v.to_lhs() })
            .collect(),
        return_type: s.ret.to_engine(),
        implementation: impl_of(s.name),
    }
}

pub fn engine_type(t: &MType) -> Type {
    t.to_engine()
}

// ---------------------------------------------------------------------------
// A hand-written definition with a per-call context object.

use wirefilter::{
    CompiledFunction, FunctionDefinition, FunctionDefinitionContext, FunctionParam, FunctionParamError,
    GetType, ParserSettings, RhsValue,
};

#[derive(Clone, Debug, PartialEq, Eq)]
pub enum Seen {
    Var(MType),
    ConstInt(i64),
    ConstOther,
}

#[derive(Clone, Debug, Default)]
pub struct CtxState {
    pub seen: Vec<Seen>,
    pub touched_by: Vec<&'static str>,
}

thread_local! {
    pub static CTX_ERRORS: RefCell<Vec<String>> = const { RefCell::new(Vec::new()) };
    pub static CTX_ACCESSORS: RefCell<Vec<&'static str>> = const { RefCell::new(Vec::new()) };
}

pub fn ctx_errors_take() -> Vec<String> {
    CTX_ERRORS.with(|e| std::mem::take(&mut *e.borrow_mut()))
}

pub fn ctx_accessors_take() -> Vec<&'static str> {
    CTX_ACCESSORS.with(|e| std::mem::take(&mut *e.borrow_mut()))
}

fn ctx_err(s: String) {
    CTX_ERRORS.with(|e| e.borrow_mut().push(s));
}

fn used(a: &'static str) {
    CTX_ACCESSORS.with(|e| e.borrow_mut().push(a));
}

fn describe(p: &FunctionParam<'_>) -> Seen {
    match p {
        FunctionParam::Variable(t) => Seen::Var(MType::from_engine(*t)),
        FunctionParam::Constant(RhsValue::Int(i)) => Seen::ConstInt(*i),
        FunctionParam::Constant(_) => Seen::ConstOther,
    }
}

#[derive(Debug)]
pub struct CtxFn;

pub fn ctxfn_value(first_len: usize, nargs: usize, consts: &[i64]) -> i64 {
    let sum: i64 = consts.iter().fold(0i64, |a, b| a.wrapping_add(*b));
    first_len as i64 + 1000 * nargs as i64 + 7 * sum.rem_euclid(100)
}

impl FunctionDefinition for CtxFn {
    fn context(&self) -> Option<FunctionDefinitionContext> {
        Some(FunctionDefinitionContext::new(CtxState::default()))
    }

    fn check_param(
        &self,
        _: &ParserSettings,
        params: &mut dyn ExactSizeIterator<Item = FunctionParam<'_>>,
        next_param: &FunctionParam<'_>,
        ctx: Option<&mut FunctionDefinitionContext>,
    ) -> Result<(), FunctionParamError> {
        let index = params.len();
        let before: Vec<Seen> = params.map(|p| describe(&p)).collect();
        if index == 0 {
            next_param.as_variable().map_err(FunctionParamError::KindMismatch)?;
            next_param.expect_val_type(std::iter::once(wirefilter::ExpectedType::Type(wirefilter::Type::Bytes)))?;
        } else {
            next_param.as_constant().map_err(FunctionParamError::KindMismatch)?;
            next_param.expect_val_type(std::iter::once(wirefilter::ExpectedType::Type(wirefilter::Type::Int)))?;
        }
        let Some(ctx) = ctx else {
            ctx_err("check_param received no context object".into());
            return Ok(());
        };
        // rotate through the mutable accessors
        let state: Option<&mut CtxState> = if index % 2 == 0 {
            used("downcast_mut");
            ctx.downcast_mut::<CtxState>()
        } else {
            used("as_any_mut");
            ctx.as_any_mut().downcast_mut::<CtxState>()
        };
        match state {
            None => ctx_err(format!(
                "accessor {} could not reach the context object in check_param #{index}",
                if index % 2 == 0 { "downcast_mut" } else { "as_any_mut" }
            )),
            Some(st) => {
                if st.seen != before {
                    ctx_err(format!("check_param #{index}: context remembers {:?}, earlier parameters are {:?}", st.seen, before));
                }
                st.seen.push(describe(next_param));
            }
        }
        Ok(())
    }

    fn return_type(
        &self,
        params: &mut dyn ExactSizeIterator<Item = FunctionParam<'_>>,
        ctx: Option<&FunctionDefinitionContext>,
    ) -> Type {
        let actual: Vec<Seen> = params.map(|p| describe(&p)).collect();
        match ctx {
            None => ctx_err("return_type received no context object".into()),
            Some(c) => {
                used("as_any_ref");
                used("downcast_ref");
                let a = c.as_any_ref().downcast_ref::<CtxState>().map(|s| s.seen.clone());
                let b = c.downcast_ref::<CtxState>().map(|s| s.seen.clone());
                if a.is_none() || b.is_none() {
                    ctx_err("as_any_ref / downcast_ref could not reach the context object in return_type".into());
                } else if a != b {
                    ctx_err("as_any_ref and downcast_ref disagree".into());
                } else if a.as_ref() != Some(&actual) {
                    // the mutable accessor may have failed earlier; only report when it claims to have worked
                    ctx_err(format!("return_type: context remembers {:?}, the call's parameters are {:?}", a, actual));
                }
            }
        }
        Type::Int
    }

    fn arg_count(&self) -> (usize, Option<usize>) {
        (1, Some(2))
    }

    fn compile(
        &self,
        params: &mut dyn ExactSizeIterator<Item = FunctionParam<'_>>,
        ctx: Option<FunctionDefinitionContext>,
    ) -> CompiledFunction {
        let actual: Vec<Seen> = params.map(|p| describe(&p)).collect();
        let state: Option<CtxState> = match ctx {
            None => {
                ctx_err("compile received no context object".into());
                None
            }
            Some(c) => {
                let cl = c.clone();
                used("clone");
                let via_clone = cl.downcast_ref::<CtxState>().cloned();
                let via_into_any = if actual.len() % 2 == 0 {
                    used("into_any");
                    c.into_any().downcast::<CtxState>().ok().map(|b| *b)
                } else {
                    used("downcast");
                    c.downcast::<CtxState>().ok().map(|b| *b)
                };
                if via_clone.as_ref().map(|s| &s.seen) != via_into_any.as_ref().map(|s| &s.seen) {
                    ctx_err("clone and into_any/downcast disagree".into());
                }
                via_into_any
            }
        };
        let (n_seen, consts): (usize, Vec<i64>) = match &state {
            Some(s) => {
                if s.seen != actual {
                    ctx_err(format!("compile: context remembers {:?}, the call's parameters are {:?}", s.seen, actual));
                }
                (s.seen.len(), s.seen.iter().filter_map(|x| if let Seen::ConstInt(i) = x { Some(*i) } else { None }).collect())
            }
            None => (usize::MAX / 2000, vec![]),
        };
        Box::new(move |args| {
            let mut v: Vec<ArgV> = Vec::new();
            for a in args {
                v.push(match a {
                    Ok(x) => Ok(MVal::from_lhs(&x)),
                    Err(t) => Err(MType::from_engine(t)),
                });
            }
            CALL_LOG.with(|l| {
                if let Some(log) = l.borrow_mut().as_mut() {
                    log.push(CallRec { name: "ctxfn".to_string(), args: v.clone() });
                }
            });
            match v.first() {
                Some(Ok(MVal::Bytes(b))) => Some(LhsValue::Int(ctxfn_value(b.len(), n_seen, &consts))),
                _ => None,
            }
        })
    }
}

/// model semantics of ctxfn on evaluated arguments
pub fn apply_ctxfn(a: &[ArgV]) -> Option<MVal> {
    let consts: Vec<i64> = a[1..].iter().filter_map(|x| if let Ok(MVal::Int(i)) = x { Some(*i) } else { None }).collect();
    match &a[0] {
        Ok(MVal::Bytes(b)) => Some(MVal::Int(ctxfn_value(b.len(), a.len(), &consts))),
        _ => None,
    }
}

#[allow(unused)]
fn _assert_traits() {
    fn is_get_type<T: GetType>() {}
    is_get_type::<Type>();
}

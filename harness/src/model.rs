//! Reference model types: types, values, schemes, contexts.  Independent of the
//! engine's own structs; converted to engine values only through public
//! constructors.

use serde_json::{Value, json};
use std::collections::BTreeMap;
use std::net::{IpAddr, Ipv4Addr, Ipv6Addr};
use wirefilter::{Array, GetType, LhsValue, Map, Type};

#[derive(Clone, PartialEq, Eq, Hash, Debug, PartialOrd, Ord)]
pub enum MType {
    Bool,
    Int,
    Ip,
    Bytes,
    Array(Box<MType>),
    Map(Box<MType>),
}

impl MType {
    pub fn array(t: MType) -> MType {
        MType::Array(Box::new(t))
    }
    pub fn map(t: MType) -> MType {
        MType::Map(Box::new(t))
    }
    pub fn elem(&self) -> Option<&MType> {
        match self {
            MType::Array(t) | MType::Map(t) => Some(t),
            _ => None,
        }
    }
    pub fn is_scalar(&self) -> bool {
        self.elem().is_none()
    }
    pub fn depth(&self) -> usize {
        match self {
            MType::Array(t) | MType::Map(t) => 1 + t.depth(),
            _ => 0,
        }
    }
    pub fn leaf(&self) -> &MType {
        match self {
            MType::Array(t) | MType::Map(t) => t.leaf(),
            t => t,
        }
    }
    pub fn to_engine(&self) -> Type {
        match self {
            MType::Bool => Type::Bool,
            MType::Int => Type::Int,
            MType::Ip => Type::Ip,
            MType::Bytes => Type::Bytes,
            MType::Array(t) => Type::Array(t.to_engine().into()),
            MType::Map(t) => Type::Map(t.to_engine().into()),
        }
    }
    pub fn from_engine(t: Type) -> MType {
        match t {
            Type::Bool => MType::Bool,
            Type::Int => MType::Int,
            Type::Ip => MType::Ip,
            Type::Bytes => MType::Bytes,
            Type::Array(t) => MType::array(MType::from_engine(t.into())),
            Type::Map(t) => MType::map(MType::from_engine(t.into())),
        }
    }
    /// JSON form documented for types: "Bool" | {"Array": ...} | {"Map": ...}
    pub fn to_json(&self) -> Value {
        match self {
            MType::Bool => json!("Bool"),
            MType::Int => json!("Int"),
            MType::Ip => json!("Ip"),
            MType::Bytes => json!("Bytes"),
            MType::Array(t) => json!({"Array": t.to_json()}),
            MType::Map(t) => json!({"Map": t.to_json()}),
        }
    }
    pub fn show(&self) -> String {
        match self {
            MType::Bool => "Bool".into(),
            MType::Int => "Int".into(),
            MType::Ip => "Ip".into(),
            MType::Bytes => "Bytes".into(),
            MType::Array(t) => format!("Array({})", t.show()),
            MType::Map(t) => format!("Map({})", t.show()),
        }
    }
}

#[derive(Clone, PartialEq, Eq, Hash, Debug)]
pub enum MVal {
    Bool(bool),
    Int(i64),
    Ip(IpAddr),
    Bytes(Vec<u8>),
    /// element type, elements
    Array(MType, Vec<MVal>),
    /// element type, entries (ascending key order by construction)
    Map(MType, BTreeMap<Vec<u8>, MVal>),
}

impl MVal {
    pub fn ty(&self) -> MType {
        match self {
            MVal::Bool(_) => MType::Bool,
            MVal::Int(_) => MType::Int,
            MVal::Ip(_) => MType::Ip,
            MVal::Bytes(_) => MType::Bytes,
            MVal::Array(t, _) => MType::array(t.clone()),
            MVal::Map(t, _) => MType::map(t.clone()),
        }
    }

    /// Deep check that every element has the declared element type.
    pub fn well_formed(&self) -> bool {
        match self {
            MVal::Array(t, v) => v.iter().all(|e| e.ty() == *t && e.well_formed()),
            MVal::Map(t, m) => m.values().all(|e| e.ty() == *t && e.well_formed()),
            _ => true,
        }
    }

    pub fn to_lhs(&self) -> LhsValue<'static> {
        match self {
            MVal::Bool(b) => LhsValue::Bool(*b),
            MVal::Int(i) => LhsValue::Int(*i),
            MVal::Ip(ip) => LhsValue::Ip(*ip),
            MVal::Bytes(b) => LhsValue::Bytes(b.clone().into()),
            MVal::Array(t, v) => LhsValue::Array(
                Array::try_from_iter(t.to_engine(), v.iter().map(|e| e.to_lhs()))
                    .expect("model array is homogeneous"),
            ),
            MVal::Map(t, m) => LhsValue::Map(
                Map::try_from_iter::<wirefilter::TypeMismatchError, _>(
                    t.to_engine(),
                    m.iter().map(|(k, v)| Ok((k.clone().into_boxed_slice(), v.to_lhs()))),
                )
                .expect("model map is homogeneous"),
            ),
        }
    }

    pub fn from_lhs(v: &LhsValue<'_>) -> MVal {
        match v {
            LhsValue::Bool(b) => MVal::Bool(*b),
            LhsValue::Int(i) => MVal::Int(*i),
            LhsValue::Ip(ip) => MVal::Ip(*ip),
            LhsValue::Bytes(b) => MVal::Bytes(b.to_vec()),
            LhsValue::Array(a) => MVal::Array(
                MType::from_engine(a.value_type()),
                a.iter().map(MVal::from_lhs).collect(),
            ),
            LhsValue::Map(m) => MVal::Map(
                MType::from_engine(m.value_type()),
                m.iter().map(|(k, v)| (k.to_vec(), MVal::from_lhs(v))).collect(),
            ),
        }
    }

    /// Deep check of an engine value: every container's declared element type
    /// equals the dynamic type of each element.
    pub fn lhs_deep_well_typed(v: &LhsValue<'_>) -> bool {
        match v {
            LhsValue::Array(a) => {
                let t = a.value_type();
                a.iter().all(|e| e.get_type() == t && MVal::lhs_deep_well_typed(e))
            }
            LhsValue::Map(m) => {
                let t = m.value_type();
                m.iter().all(|(_, e)| e.get_type() == t && MVal::lhs_deep_well_typed(e))
            }
            _ => true,
        }
    }

    /// Debug rendering for replay files.
    pub fn show(&self) -> Value {
        match self {
            MVal::Bool(b) => json!(b),
            MVal::Int(i) => json!(i),
            MVal::Ip(ip) => json!(ip.to_string()),
            MVal::Bytes(b) => json!(show_bytes(b)),
            MVal::Array(_, v) => Value::Array(v.iter().map(|e| e.show()).collect()),
            MVal::Map(_, m) => Value::Array(
                m.iter().map(|(k, v)| json!([show_bytes(k), v.show()])).collect(),
            ),
        }
    }

    /// The JSON the engine documents for context values: strings when UTF-8,
    /// byte arrays otherwise; maps as objects when every key is UTF-8, else as
    /// a list of [key, value] pairs sorted by key.
    pub fn to_ctx_json(&self) -> Value {
        match self {
            MVal::Bool(b) => json!(b),
            MVal::Int(i) => json!(i),
            MVal::Ip(ip) => json!(ip.to_string()),
            MVal::Bytes(b) => bytes_json(b),
            MVal::Array(_, v) => Value::Array(v.iter().map(|e| e.to_ctx_json()).collect()),
            MVal::Map(_, m) => {
                if m.keys().all(|k| std::str::from_utf8(k).is_ok()) {
                    let mut o = serde_json::Map::new();
                    for (k, v) in m {
                        o.insert(String::from_utf8(k.clone()).unwrap(), v.to_ctx_json());
                    }
                    Value::Object(o)
                } else {
                    Value::Array(m.iter().map(|(k, v)| json!([bytes_json(k), v.to_ctx_json()])).collect())
                }
            }
        }
    }
}

pub fn bytes_json(b: &[u8]) -> Value {
    match std::str::from_utf8(b) {
        Ok(s) => json!(s),
        Err(_) => Value::Array(b.iter().map(|x| json!(x)).collect()),
    }
}

pub fn show_bytes(b: &[u8]) -> String {
    let mut s = String::new();
    for &c in b {
        if c == b'\\' {
            s.push_str("\\\\");
        } else if (0x20..0x7f).contains(&c) {
            s.push(c as char);
        } else {
            s.push_str(&format!("\\x{c:02x}"));
        }
    }
    s
}

#[derive(Clone, PartialEq, Eq, Hash, Debug)]
pub struct FieldSpec {
    pub name: String,
    pub ty: MType,
    pub optional: bool,
}

/// A model context: one optional value per field (index-aligned with the recipe).
#[derive(Clone, PartialEq, Eq, Hash, Debug)]
pub struct MCtx {
    pub vals: Vec<Option<MVal>>,
}

impl MCtx {
    pub fn show(&self, fields: &[FieldSpec]) -> Value {
        let mut o = serde_json::Map::new();
        for (f, v) in fields.iter().zip(&self.vals) {
            o.insert(f.name.clone(), v.as_ref().map(|v| v.show()).unwrap_or(Value::Null));
        }
        Value::Object(o)
    }
}

pub fn v4(a: u8, b: u8, c: u8, d: u8) -> IpAddr {
    IpAddr::V4(Ipv4Addr::new(a, b, c, d))
}

pub fn v6(x: u128) -> IpAddr {
    IpAddr::V6(Ipv6Addr::from(x))
}

//! C18 - compiled filters are deterministic and safe to execute concurrently.
//!
//! A case is a *filter set*: one generated scheme, 16+ filters over it (hand
//! written templates guaranteeing a regex, a multi-byte `contains` (SIMD), an
//! `in {..}`, an `in $list`, a map-each, a function call, a wildcard and an
//! `xor` filter, plus generator-made compositions), several contexts and list
//! contents.  The sequential result of every (filter, context) pair - checked
//! against the reference evaluator - is the baseline; then T = 2, 4, 16, 64
//! threads released by a barrier execute every pair many times against the
//! shared `Arc<Filter>`s / shared `&ExecutionContext`s as well as per-thread
//! recompilations / context clones, and every observed result must equal the
//! baseline.  Separately, fresh child processes race the very first use of the
//! lazily initialised global state (the `contains` SIMD latch, the regex cache
//! pools) across 16 threads and print their results, which must equal the
//! parent's sequential digest.
//!
//! Generated search cannot choose thread schedules: this is stress exploration
//! of the schedules that happen to occur.  For that reason the choice vectors
//! are derived from (seed, case index) and run through `Run::enumerate` (no
//! shrinking: shrinking a schedule-dependent failure only produces "flaky").

use crate::ast::*;
use crate::choices::Choices;
use crate::engine::catch;
use crate::eval::{self, BV, Env};
use crate::funcs;
use crate::genr::{self as g, Gen, GenCfg};
use crate::lists::ListKind;
use crate::model::*;
use crate::runner::*;
use crate::rx;
use crate::scheme::{ListState, Recipe, show_lists};
use crate::typeck;
use serde_json::{Value, json};
use std::net::IpAddr;
use std::sync::atomic::{AtomicUsize, Ordering};
use std::sync::{Arc, Barrier, Mutex};
use wirefilter::{ExecutionContext, Filter, FilterAst, Scheme};

// The whole design shares `&Filter` and `&ExecutionContext` between threads;
// both must be Sync (and Send) for that - checked at compile time.
#[allow(unused)]
fn _assert_shareable() {
    fn is_send_sync<T: Send + Sync>() {}
    is_send_sync::<Filter>();
    is_send_sync::<ExecutionContext<'static>>();
    is_send_sync::<FilterAst>();
}

#[derive(Clone, Copy)]
struct Params {
    /// generator-made compositions added to the templates
    ngen: usize,
    nctx: usize,
    rounds: usize,
}

const QUICK: Params = Params { ngen: 6, nctx: 10, rounds: 24 };
const DEEP: Params = Params { ngen: 10, nctx: 16, rounds: 160 };
const FRESH: Params = Params { ngen: 4, nctx: 6, rounds: 0 };
const THREADS: [usize; 4] = [2, 4, 16, 64];
const CHILD_THREADS: usize = 16;
/// environment of the children of one workload (the last one runs with the
/// SIMD implementation switched off: the results must not depend on it)
const CHILD_ENVS: [&[(&str, &str)]; 3] = [&[], &[], &[("WIREFILTER_USE_AVX2", "0")]];

// ---------------------------------------------------------------------------
// Features of a filter (for the non-triviality rule and the histogram)

#[derive(Default, Clone, Copy, Debug)]
struct Feat {
    regex: bool,
    simd_contains: bool,
    in_set: bool,
    in_list: bool,
    map_each: bool,
    call: bool,
    mapped_call: bool,
    wildcard: bool,
    xor: bool,
}

impl Feat {
    fn names(&self) -> Vec<&'static str> {
        let mut v = Vec::new();
        for (c, n) in [
            (self.regex, "regex"),
            (self.simd_contains, "contains-simd"),
            (self.in_set, "in-set"),
            (self.in_list, "in-list"),
            (self.map_each, "map-each"),
            (self.call, "call"),
            (self.mapped_call, "mapped-call"),
            (self.wildcard, "wildcard"),
            (self.xor, "xor"),
        ] {
            if c {
                v.push(n);
            }
        }
        v
    }
    fn or(&mut self, o: &Feat) {
        self.regex |= o.regex;
        self.simd_contains |= o.simd_contains;
        self.in_set |= o.in_set;
        self.in_list |= o.in_list;
        self.map_each |= o.map_each;
        self.call |= o.call;
        self.mapped_call |= o.mapped_call;
        self.wildcard |= o.wildcard;
        self.xor |= o.xor;
    }
}

fn feat_index(ix: &MIndex, f: &mut Feat) {
    if ix.stars() > 0 {
        f.map_each = true;
    }
    if let MBase::Call { args, .. } = &ix.base {
        f.call = true;
        if matches!(args.first(), Some(MArg::Index(i)) if i.stars() > 0) {
            f.mapped_call = true;
        }
        for a in args {
            match a {
                MArg::Index(i) => feat_index(i, f),
                MArg::Lit(_) => {}
                MArg::Logical(e) => feat_expr(e, f),
            }
        }
    }
}

fn feat_expr(e: &MExpr, f: &mut Feat) {
    match e {
        MExpr::Cmp { lhs, op } => {
            feat_index(lhs, f);
            match op {
                MOp::Matches(..) => f.regex = true,
                // empty needle / one byte use other searchers; >= 2 bytes takes the AVX2 one when latched on
                MOp::Contains(l) if l.v.len() >= 2 => f.simd_contains = true,
                MOp::In(_) => f.in_set = true,
                MOp::InList(_) => f.in_list = true,
                MOp::Wildcard { .. } => f.wildcard = true,
                _ => {}
            }
        }
        MExpr::Not(a) | MExpr::Paren(a) => feat_expr(a, f),
        MExpr::Comb { op, items } => {
            if *op == LOp::Xor {
                f.xor = true;
            }
            items.iter().for_each(|i| feat_expr(i, f));
        }
        MExpr::Quant { arg, .. } => match &**arg {
            MQArg::Index(ix) => feat_index(ix, f),
            MQArg::Logical(e) => feat_expr(e, f),
        },
    }
}

// ---------------------------------------------------------------------------
// The model side of a filter set: a pure function of the choice sequence.

struct SetModel {
    recipe: Recipe,
    exprs: Vec<MExpr>,
    texts: Vec<String>,
    origin: Vec<&'static str>,
    feats: Vec<Feat>,
    ctxs: Vec<MCtx>,
    lists: ListState,
    /// the list contents of every third context (matcher state belongs to the context)
    lists_alt: ListState,
}

impl SetModel {
    fn lists_of(&self, ctx: usize) -> &ListState {
        if ctx % 3 == 2 { &self.lists_alt } else { &self.lists }
    }

    fn show(&self, only_filters: Option<&[usize]>, only_ctxs: Option<&[usize]>) -> Value {
        let fs: Vec<Value> = self
            .texts
            .iter()
            .enumerate()
            .filter(|(i, _)| only_filters.map(|o| o.contains(i)).unwrap_or(true))
            .map(|(i, t)| json!({"#": i, "filter": t, "origin": self.origin[i]}))
            .collect();
        let cs: Vec<Value> = self
            .ctxs
            .iter()
            .enumerate()
            .filter(|(i, _)| only_ctxs.map(|o| o.contains(i)).unwrap_or(true))
            .map(|(i, c)| json!({"#": i, "values": c.show(&self.recipe.fields)}))
            .collect();
        json!({"scheme": self.recipe.show(), "filters": fs, "contexts": cs, "lists": show_lists(&self.lists), "lists_of_every_third_context": show_lists(&self.lists_alt)})
    }

    fn set_feat(&self) -> Feat {
        let mut f = Feat::default();
        self.feats.iter().for_each(|x| f.or(x));
        f
    }
}

fn leaf(field: &str, path: Vec<MIdx>, op: MOp) -> MExpr {
    MExpr::Cmp { lhs: MIndex { base: MBase::Field(field.to_string()), path }, op }
}

fn call1(func: &str, arg: MIndex, path: Vec<MIdx>) -> MIndex {
    MIndex { base: MBase::Call { func: func.to_string(), args: vec![MArg::Index(arg)] }, path }
}

fn any_of(e: MExpr) -> MExpr {
    MExpr::Quant { any: true, arg: Box::new(MQArg::Logical(e)) }
}

fn rx_op(gen_: &mut Gen<'_, '_>) -> MOp {
    let r = rx::gen_rx(gen_.ch, 2);
    // a value that probably matches, so that both outcomes occur
    let sample = rx::gen_sample(&r, gen_.ch);
    gen_.hints.bytes.push(sample);
    let form = if gen_.ch.chance(1, 3) { RegexForm::Raw(gen_.ch.draw(3) as u8) } else { RegexForm::Quoted };
    MOp::Matches(r, form)
}

/// `contains` with a needle of >= 2 bytes (the SIMD searcher).
fn contains_op(gen_: &mut Gen<'_, '_>) -> MOp {
    let mut l = gen_.bytes_lit(false);
    if l.v.len() < 2 {
        let tail = *gen_.ch.pick(&[&b"ab"[..], b"bA", b"\xffa", b"zzz", b"a\x00b"]);
        l.v.extend_from_slice(tail);
    }
    gen_.hints.bytes.push(l.v.clone());
    MOp::Contains(l)
}

fn int_items(gen_: &mut Gen<'_, '_>) -> Vec<SetItem> {
    let n = gen_.ch.range(1, 4);
    (0..n)
        .map(|_| {
            if gen_.ch.chance(1, 3) {
                let a = gen_.int_lit(false);
                let b = gen_.int_lit(false);
                let (a, b) = if a.v <= b.v { (a, b) } else { (b, a) };
                SetItem::IntRange(a, b)
            } else {
                SetItem::Int(gen_.int_lit(false))
            }
        })
        .collect()
}

/// The same set moved up by one: agrees with the original on some values and
/// differs on the boundary ones (two `in` filters that see the same field).
fn shifted(items: &[SetItem]) -> Vec<SetItem> {
    items
        .iter()
        .map(|i| match i {
            SetItem::Int(a) => SetItem::Int(IntLit { v: a.v.saturating_add(1), form: a.form }),
            SetItem::IntRange(a, b) => SetItem::IntRange(
                IntLit { v: a.v.saturating_add(1), form: a.form },
                IntLit { v: b.v.saturating_add(1), form: b.form },
            ),
            o => o.clone(),
        })
        .collect()
}

fn ip_items(gen_: &mut Gen<'_, '_>) -> Vec<SetItem> {
    let mut out = vec![SetItem::Ip(gen_.ip_lit())];
    let a = gen_.ip_lit();
    let b = gen_.ip_lit();
    out.push(match (a, b) {
        (IpAddr::V4(x), IpAddr::V4(y)) => if x <= y { SetItem::IpRange(a, b) } else { SetItem::IpRange(b, a) },
        (IpAddr::V6(x), IpAddr::V6(y)) => if x <= y { SetItem::IpRange(a, b) } else { SetItem::IpRange(b, a) },
        _ => SetItem::IpRange(a, a),
    });
    if gen_.ch.boolean() {
        out.push(SetItem::Ip(b));
    }
    out
}

fn list_op(gen_: &mut Gen<'_, '_>, t: &MType) -> MOp {
    if gen_.r.list_kind(t).is_none() {
        gen_.r.lists.push((t.clone(), ListKind::Set));
    }
    let name = g::gen_list_name(gen_.ch);
    gen_.hints.list_names.push((t.clone(), name.clone()));
    MOp::InList(name)
}

/// A valid wildcard pattern derived from a known value: escaped prefix + `*`.
fn wildcard_op(gen_: &mut Gen<'_, '_>) -> MOp {
    let mut base: Vec<u8> = if gen_.hints.bytes.is_empty() { Vec::new() } else { gen_.ch.pick(&gen_.hints.bytes.clone()).clone() };
    if base.is_empty() {
        // `*` + "" + `*` would be the invalid pattern `**`
        base = b"ab".to_vec();
    }
    let mut v = Vec::new();
    for b in base.iter().take(4) {
        if *b == b'*' || *b == b'\\' {
            v.push(b'\\');
        }
        v.push(*b);
    }
    match gen_.ch.draw(3) {
        0 => v.push(b'*'),
        1 => {
            v.insert(0, b'*');
            v.push(b'*');
        }
        _ => {
            v.push(b'*');
            v.push(b'b');
        }
    }
    MOp::Wildcard { strict: gen_.ch.boolean(), pat: BytesLit { v, form: BytesForm::Quoted(0) } }
}

fn drain(ch: &mut Choices<'_>) -> Vec<u32> {
    let mut raw = Vec::new();
    while !ch.exhausted() {
        raw.push(ch.raw());
    }
    raw
}

fn build_set(ch: &mut Choices<'_>, p: Params) -> SetModel {
    let mut gen_ = Gen::new(ch, GenCfg::full());
    let bytes_t = MType::Bytes;
    let arr_bytes = MType::array(MType::Bytes);
    let map_int = MType::map(MType::Int);
    // the fields the templates share (the generator re-uses them in its own compositions)
    let b0 = gen_.field_of(&bytes_t);
    let n0 = gen_.field_of(&MType::Int);
    let ip0 = gen_.field_of(&MType::Ip);
    let ab0 = gen_.field_of(&arr_bytes);
    let mi0 = gen_.field_of(&map_int);

    let mut exprs: Vec<(MExpr, &'static str)> = Vec::new();
    // two regexes and two SIMD contains over the same field
    let rx1 = leaf(&b0, vec![], rx_op(&mut gen_));
    let rx2 = leaf(&b0, vec![], rx_op(&mut gen_));
    let c1 = leaf(&b0, vec![], contains_op(&mut gen_));
    let c2 = leaf(&b0, vec![], contains_op(&mut gen_));
    // two integer sets over the same field, differing at their boundaries
    let items = int_items(&mut gen_);
    let i2 = leaf(&n0, vec![], MOp::In(shifted(&items)));
    let i1 = leaf(&n0, vec![], MOp::In(items));
    let ipset = leaf(&ip0, vec![], MOp::In(ip_items(&mut gen_)));
    let bset = {
        let n = gen_.ch.range(1, 3);
        let items = (0..n).map(|_| SetItem::Bytes(gen_.bytes_lit(false))).collect();
        leaf(&b0, vec![], MOp::In(items))
    };
    // a large set written in unsorted order (lazily prepared lookup structures
    // would have a wide first-use window)
    let big = {
        let k = gen_.ch.draw(50) as i64;
        let mut items = Vec::new();
        for i in 0..300i64 {
            let v = ((i * 7919 + k) % 1009) * 3 - 1500;
            if i % 17 == 0 {
                items.push(SetItem::IntRange(IntLit::dec(v), IntLit::dec(v + 1)));
            } else {
                items.push(SetItem::Int(IntLit::dec(v)));
            }
            if i % 40 == 0 {
                gen_.hints.ints.push(v);
                gen_.hints.ints.push(v + 2);
            }
        }
        leaf(&n0, vec![], MOp::In(items))
    };
    let l1 = leaf(&n0, vec![], list_op(&mut gen_, &MType::Int));
    let l2 = leaf(&b0, vec![], list_op(&mut gen_, &MType::Bytes));
    // a call of literals only on the left of a list comparison: nothing on its left depends on the
    // context, the answer still does (the matcher state belongs to the context)
    let lc = {
        gen_.need_func("concat");
        let (mut a, mut b) = (gen_.bytes_lit(false), gen_.bytes_lit(false));
        // hex pairs cannot be written as call arguments
        a.form = BytesForm::Quoted(1);
        b.form = BytesForm::Quoted(2);
        let mut joined = a.v.clone();
        joined.extend_from_slice(&b.v);
        gen_.hints.bytes.push(joined);
        let op = list_op(&mut gen_, &MType::Bytes);
        MExpr::Cmp { lhs: MIndex { base: MBase::Call { func: "concat".into(), args: vec![MArg::Lit(MLit::Bytes(a)), MArg::Lit(MLit::Bytes(b))] }, path: vec![] }, op }
    };
    let w1 = leaf(&b0, vec![], wildcard_op(&mut gen_));
    // map-each
    let me1 = any_of(leaf(&ab0, vec![MIdx::Each], contains_op(&mut gen_)));
    let me2 = any_of(leaf(&ab0, vec![MIdx::Each], rx_op(&mut gen_)));
    let me3 = any_of(leaf(&mi0, vec![MIdx::Each], MOp::In(int_items(&mut gen_))));
    // function calls (plain and mapped)
    gen_.need_func("lower");
    gen_.need_func("len");
    let f1 = MExpr::Cmp { lhs: call1("lower", MIndex::field(&b0), vec![]), op: contains_op(&mut gen_) };
    let f2 = MExpr::Cmp { lhs: call1("len", MIndex::field(&b0), vec![]), op: MOp::In(int_items(&mut gen_)) };
    let f3 = any_of(MExpr::Cmp {
        lhs: call1("lower", MIndex { base: MBase::Field(ab0.clone()), path: vec![MIdx::Each] }, vec![MIdx::Each]),
        op: rx_op(&mut gen_),
    });
    // xor chains over the leaves above (the same comparisons occur in several filters)
    let x1 = MExpr::Comb { op: LOp::Xor, items: vec![c1.clone(), i1.clone(), rx1.clone()] };
    let x2 = MExpr::Comb { op: LOp::Xor, items: vec![l1.clone(), MExpr::Not(Box::new(w1.clone())), i2.clone()] };
    // the contains needles themselves become field values of two contexts (value == pattern)
    let needles: Vec<Vec<u8>> = [&c1, &c2]
        .iter()
        .filter_map(|e| if let MExpr::Cmp { op: MOp::Contains(b), .. } = e { Some(b.v.clone()) } else { None })
        .collect();
    // long flat chains (10 operands over one field): which operand decides differs per context
    let mut long_chain = |op: LOp, cmp: OrdOp| -> MExpr {
        let k = gen_.ch.draw(1000) as i64;
        let items: Vec<MExpr> = (0..10i64)
            .map(|i| {
                let v = k + i * 3;
                gen_.hints.ints.push(v);
                leaf(&n0, vec![], MOp::Ord(cmp, MLit::Int(IntLit::dec(v))))
            })
            .collect();
        MExpr::Comb { op, items }
    };
    let lo = long_chain(LOp::Or, OrdOp::Eq);
    // the values that decide the long `or`: most contexts get one of them, so that the deciding
    // operand differs between the contexts that threads work on at the same time
    let or_vals: Vec<i64> = match &lo {
        MExpr::Comb { items, .. } => items.iter().filter_map(|e| if let MExpr::Cmp { op: MOp::Ord(_, MLit::Int(i)), .. } = e { Some(i.v) } else { None }).collect(),
        _ => vec![],
    };
    let la = long_chain(LOp::And, OrdOp::Ne);
    let lx = long_chain(LOp::Xor, OrdOp::Ge);
    for (e, o) in [
        (lo, "t:long-or"),
        (la, "t:long-and"),
        (lx, "t:long-xor"),
        (rx1, "t:regex"),
        (rx2, "t:regex"),
        (c1, "t:contains"),
        (c2, "t:contains"),
        (i1, "t:in-set"),
        (i2, "t:in-set"),
        (big, "t:in-set-large"),
        (ipset, "t:in-set-ip"),
        (bset, "t:in-set-bytes"),
        (l1, "t:in-list"),
        (l2, "t:in-list"),
        (lc, "t:in-list-literal-call"),
        (w1, "t:wildcard"),
        (me1, "t:map-each"),
        (me2, "t:map-each"),
        (me3, "t:map-each"),
        (f1, "t:call"),
        (f2, "t:call"),
        (f3, "t:mapped-call"),
        (x1, "t:xor"),
        (x2, "t:xor"),
    ] {
        exprs.push((e, o));
    }
    for _ in 0..p.ngen {
        exprs.push((gen_.gen_bool(3), "generated"));
    }
    gen_.finish_scheme();
    let recipe = gen_.r.clone();
    let hints = gen_.hints.clone();
    let mut texts = Vec::new();
    for (e, o) in &exprs {
        if let Err(why) = typeck::filter_ok(&recipe, e) {
            panic!("c18 generator: {o} filter is not well-typed: {why}");
        }
        let alias: Vec<u8> = (0..4).map(|_| gen_.ch.draw(2) as u8).collect();
        let space: Vec<u8> = (0..4).map(|_| gen_.ch.weighted(&[3, 6, 1, 1]) as u8).collect();
        texts.push(print_expr(e, &Style { alias, space }));
    }
    let lists = g::gen_lists(gen_.ch, &recipe, &hints);
    let lists_alt = g::gen_lists(gen_.ch, &recipe, &hints);
    let mut ctxs: Vec<MCtx> = (0..p.nctx).map(|_| g::gen_ctx(gen_.ch, &recipe, &hints)).collect();
    if let Some((ni, _)) = recipe.field(&n0) {
        for (j, c) in ctxs.iter_mut().enumerate() {
            if j % 2 == 1 && !or_vals.is_empty() {
                c.vals[ni] = Some(MVal::Int(or_vals[(j * 7) % or_vals.len()]));
            }
        }
    }
    if let Some((bi, _)) = recipe.field(&b0) {
        for (k, n) in needles.iter().enumerate() {
            if let Some(c) = ctxs.get_mut(2 * k) {
                c.vals[bi] = Some(MVal::Bytes(n.clone()));
            }
        }
    }
    // every other context carries a long (>= 80 bytes) value in the shared bytes
    // field, different per context (per-filter caches keyed on large inputs)
    if let Some((bi, _)) = recipe.field(&b0) {
        for (i, c) in ctxs.iter_mut().enumerate() {
            if i % 2 == 1 {
                if let Some(MVal::Bytes(v)) = &mut c.vals[bi] {
                    let fill = b"abcdefghijklmnopqrstuvwxyzABCDEFGHIJKLMNOPQRSTUVWXYZ0123456789";
                    let mut k = i;
                    while v.len() < 80 + i {
                        v.push(fill[k % fill.len()]);
                        k = k.wrapping_mul(7).wrapping_add(3);
                    }
                }
            }
        }
    }
    let feats = exprs
        .iter()
        .map(|(e, _)| {
            let mut f = Feat::default();
            feat_expr(e, &mut f);
            f
        })
        .collect();
    SetModel {
        recipe,
        origin: exprs.iter().map(|(_, o)| *o).collect(),
        exprs: exprs.into_iter().map(|(e, _)| e).collect(),
        texts,
        feats,
        ctxs,
        lists,
        lists_alt,
    }
}

// ---------------------------------------------------------------------------
// The engine side

struct Engine {
    #[allow(unused)]
    scheme: Scheme,
    asts: Vec<FilterAst>,
    ecs: Vec<ExecutionContext<'static>>,
}

fn parse_all(m: &SetModel) -> Result<Engine, Fail> {
    let scheme = m.recipe.build();
    let mut asts = Vec::new();
    for (i, t) in m.texts.iter().enumerate() {
        match catch(|| scheme.parse(t).map_err(|e| e.to_string())) {
            Ok(Ok(a)) => asts.push(a),
            Ok(Err(e)) => {
                return Err(Fail::new("well-typed-rejected", format!("filter #{i} rejected:\n{e}"), m.show(Some(&[i]), Some(&[]))));
            }
            Err(p) => return Err(Fail::new("parse-panic", format!("filter #{i}: {p}"), m.show(Some(&[i]), Some(&[])))),
        }
    }
    let ecs = m.ctxs.iter().enumerate().map(|(i, c)| m.recipe.make_ctx(&scheme, c, m.lists_of(i))).collect();
    Ok(Engine { scheme, asts, ecs })
}

fn compile_all(m: &SetModel, eng: &Engine) -> Result<Vec<Arc<Filter>>, Fail> {
    let mut out = Vec::new();
    for (i, a) in eng.asts.iter().enumerate() {
        match catch(|| a.clone().compile()) {
            Ok(f) => out.push(Arc::new(f)),
            Err(p) => return Err(Fail::new("compile-panic", format!("filter #{i}: {p}"), m.show(Some(&[i]), Some(&[])))),
        }
    }
    let _ = funcs::ctx_accessors_take();
    Ok(out)
}

const FALSE: u8 = 0;
const TRUE: u8 = 1;
const ERROR: u8 = 2;
const PANIC: u8 = 3;

/// One execution: 0 = false, 1 = true, 2 = error result, 3 = panic.
#[inline]
fn exec(f: &Filter, ec: &ExecutionContext<'static>) -> (u8, Option<String>) {
    match catch(|| f.execute(ec)) {
        Ok(Ok(false)) => (FALSE, None),
        Ok(Ok(true)) => (TRUE, None),
        Ok(Err(e)) => (ERROR, Some(e.to_string())),
        Err(p) => (PANIC, Some(p)),
    }
}

fn code_name(c: u8) -> &'static str {
    match c {
        FALSE => "false",
        TRUE => "true",
        ERROR => "error",
        _ => "panic",
    }
}

fn digits(v: &[u8]) -> String {
    v.iter().map(|c| (b'0' + *c) as char).collect()
}

/// Sequential baseline, gated by the reference evaluator; also: repeated
/// sequential executions (two traversal orders) and a sequential recompilation
/// must reproduce it.  Returns the baseline codes indexed [filter * nctx + ctx].
fn baseline(m: &SetModel, eng: &Engine, filters: &[Arc<Filter>], st: &mut Stats) -> Result<Vec<u8>, Fail> {
    let nctx = eng.ecs.len();
    let nf = filters.len();
    let mut base = vec![0u8; nf * nctx];
    for f in 0..nf {
        for c in 0..nctx {
            let (code, msg) = exec(&filters[f], &eng.ecs[c]);
            st.eval();
            if code >= ERROR {
                let sig = if code == PANIC { "execute-panic" } else { "execute-error" };
                return Err(Fail::new(sig, format!("sequential execution of filter #{f} on context #{c}: {}", msg.unwrap_or_default()), m.show(Some(&[f]), Some(&[c]))));
            }
            base[f * nctx + c] = code;
            let env = Env::new(&m.recipe, &m.ctxs[c], m.lists_of(c));
            match eval::eval_expr(&env, &m.exprs[f]) {
                Ok(BV::One(w)) => {
                    if w != (code == TRUE) {
                        return Err(Fail::new(
                            "eval-mismatch",
                            format!("sequential baseline: filter #{f} on context #{c}: engine returned {}, reference semantics give {w}", code_name(code)),
                            m.show(Some(&[f]), Some(&[c])),
                        ));
                    }
                }
                Ok(BV::Many(_)) => panic!("model: top level is an array"),
                Err(_) => st.excluded(),
            }
        }
    }
    // repeated executions: context-major, then filter-major again
    for pass in 0..2 {
        for a in 0..(nf * nctx) {
            let (f, c) = if pass == 0 { (a % nf, a / nf) } else { (a / nctx, a % nctx) };
            let (code, msg) = exec(&filters[f], &eng.ecs[c]);
            st.eval();
            if code != base[f * nctx + c] {
                return Err(Fail::new(
                    "sequential-repeat-differs",
                    format!(
                        "filter #{f} on context #{c} returned {} on its first execution and {} when executed again (single thread){}",
                        code_name(base[f * nctx + c]),
                        code_name(code),
                        msg.map(|m| format!(": {m}")).unwrap_or_default()
                    ),
                    m.show(Some(&[f]), Some(&[c])),
                ));
            }
        }
    }
    // recompilation of the same AST
    let again = compile_all(m, eng)?;
    for f in 0..nf {
        for c in 0..nctx {
            let (code, msg) = exec(&again[f], &eng.ecs[c]);
            st.eval();
            if code != base[f * nctx + c] {
                return Err(Fail::new(
                    "recompile-differs",
                    format!(
                        "a second compilation of filter #{f} returned {} on context #{c} where the first returned {}{}",
                        code_name(code),
                        code_name(base[f * nctx + c]),
                        msg.map(|m| format!(": {m}")).unwrap_or_default()
                    ),
                    m.show(Some(&[f]), Some(&[c])),
                ));
            }
        }
    }
    Ok(base)
}

// ---------------------------------------------------------------------------
// Concurrent stress

#[derive(Clone, Debug)]
struct Mismatch {
    threads: usize,
    tid: usize,
    round: usize,
    f: usize,
    c: usize,
    got: u8,
    want: u8,
    own_filter: bool,
    own_ctx: bool,
    msg: Option<String>,
}

#[derive(Default)]
struct StressOut {
    execs: u64,
    shared_execs: u64,
    mismatches: u64,
    first: Vec<Mismatch>,
    /// per filter: highest number of simultaneous executions of the shared Arc<Filter>
    peak: Vec<usize>,
}

/// Scheduling only (never results): the stress phases and child processes of
/// the cases running on the 16 runner threads share the machine's cores, so
/// that the threads of one phase really run at the same time instead of being
/// time-sliced against 15 other sets.
struct Cores {
    free: Mutex<usize>,
    cv: std::sync::Condvar,
    total: usize,
}

static CORES: std::sync::OnceLock<Cores> = std::sync::OnceLock::new();

struct Permit(usize);

fn acquire_cores(want: usize) -> Permit {
    let c = CORES.get_or_init(|| {
        let n = std::thread::available_parallelism().map(|n| n.get()).unwrap_or(4);
        Cores { free: Mutex::new(n), cv: std::sync::Condvar::new(), total: n }
    });
    let want = want.clamp(1, c.total);
    let mut free = c.free.lock().unwrap();
    while *free < want {
        free = c.cv.wait(free).unwrap();
    }
    *free -= want;
    Permit(want)
}

impl Drop for Permit {
    fn drop(&mut self) {
        let c = CORES.get().unwrap();
        *c.free.lock().unwrap() += self.0;
        c.cv.notify_all();
    }
}

/// One phase: `threads` threads released together.  Each first walks all pairs
/// `rounds / 2` times in a per-thread rotated filter order (different filters
/// are in flight at the same time), then the threads share a ticket counter
/// that hands the same filter to `threads` consecutive requesters - the
/// threads that are on a CPU at that moment - for (rounds - rounds / 2) * nf
/// bursts of all contexts (the same filter is in flight in several threads).
fn stress(eng: &Engine, filters: &[Arc<Filter>], cheap: &[bool], base: &[u8], rounds: usize, threads: usize) -> StressOut {
    let _permit = acquire_cores(threads);
    let nf = filters.len();
    let nctx = eng.ecs.len();
    let barrier = Barrier::new(threads);
    let inflight: Vec<AtomicUsize> = (0..nf).map(|_| AtomicUsize::new(0)).collect();
    let peak: Vec<AtomicUsize> = (0..nf).map(|_| AtomicUsize::new(0)).collect();
    let ticket = AtomicUsize::new(0);
    let walk_rounds = rounds / 2;
    // a burst repeats the contexts: twice for filters with a regex or a function call, 16 times for
    // the cheap ones (a few ns per execution - too short to overlap with another thread otherwise)
    let tickets = (rounds - walk_rounds) * nf * threads / 2;
    let out = Mutex::new(StressOut::default());
    std::thread::scope(|s| {
        for tid in 0..threads {
            let (barrier, inflight, peak, out, ticket) = (&barrier, &inflight, &peak, &out, &ticket);
            std::thread::Builder::new()
                .stack_size(16 << 20)
                .spawn_scoped(s, move || {
                    // 3 of 4 threads share the Arc<Filter>s; every 4th recompiles the ASTs itself;
                    // every 4th (another one) executes against its own clones of the contexts
                    let own_filter = tid % 4 == 3;
                    let own_ctx = tid % 4 == 2;
                    let mut local = StressOut::default();
                    barrier.wait();
                    // compiled *after* the release: compilation runs concurrently with the others' executions
                    let mine: Option<Vec<Filter>> = if own_filter {
                        let r = catch(|| eng.asts.iter().map(|a| a.clone().compile()).collect::<Vec<_>>());
                        let _ = funcs::ctx_accessors_take();
                        match r {
                            Ok(v) => Some(v),
                            Err(p) => {
                                local.mismatches += 1;
                                local.first.push(Mismatch { threads, tid, round: 0, f: 0, c: 0, got: PANIC, want: base[0], own_filter, own_ctx, msg: Some(format!("concurrent compilation panicked: {p}")) });
                                None
                            }
                        }
                    } else {
                        None
                    };
                    let my_ctx: Option<Vec<ExecutionContext<'static>>> =
                        if own_ctx { Some(eng.ecs.iter().map(|e| e.clone_with(())).collect()) } else { None };
                    // all contexts on one filter
                    let burst = |f: usize, reps: usize, counted: bool, round: usize, local: &mut StressOut| {
                        let filt: &Filter = match &mine {
                            Some(v) => &v[f],
                            None => &filters[f],
                        };
                        let counted = counted && mine.is_none();
                        for c0 in 0..nctx * reps {
                            // each thread starts at another context: the threads inside one filter
                            // are mostly busy with different values
                            let c = (c0 + tid) % nctx;
                            let ec = match &my_ctx {
                                Some(v) => &v[c],
                                None => &eng.ecs[c],
                            };
                            if counted {
                                let prev = inflight[f].fetch_add(1, Ordering::Relaxed);
                                peak[f].fetch_max(prev + 1, Ordering::Relaxed);
                            }
                            let (got, msg) = exec(filt, ec);
                            if counted {
                                inflight[f].fetch_sub(1, Ordering::Relaxed);
                            }
                            local.execs += 1;
                            if mine.is_none() {
                                local.shared_execs += 1;
                            }
                            let want = base[f * nctx + c];
                            if got != want {
                                local.mismatches += 1;
                                if local.first.len() < 4 {
                                    local.first.push(Mismatch { threads, tid, round, f, c, got, want, own_filter, own_ctx, msg });
                                }
                            }
                        }
                    };
                    // only the first walk and every 4th block of nf * threads tickets carry the in-flight
                    // instrumentation (two atomic read-modify-writes per execution); the rest runs bare
                    for r in 0..walk_rounds {
                        let off = (tid * nf / threads + r) % nf;
                        for k in 0..nf {
                            burst((k + off) % nf, 1, r == 0, r, &mut local);
                        }
                    }
                    loop {
                        let k = ticket.fetch_add(1, Ordering::Relaxed);
                        if k >= tickets {
                            break;
                        }
                        let f = (k / threads) % nf;
                        let block = k / (nf * threads);
                        burst(f, if cheap[f] { 16 } else { 2 }, block % 4 == 0, walk_rounds + block, &mut local);
                    }
                    let mut o = out.lock().unwrap();
                    o.execs += local.execs;
                    o.shared_execs += local.shared_execs;
                    o.mismatches += local.mismatches;
                    o.first.extend(local.first);
                })
                .expect("spawn stress thread");
        }
    });
    let mut o = out.into_inner().unwrap();
    o.peak = peak.iter().map(|p| p.load(Ordering::Relaxed)).collect();
    o
}

fn describe_mismatches(m: &SetModel, outs: &[StressOut]) -> (String, Vec<usize>, Vec<usize>) {
    let mut lines = Vec::new();
    let mut fs: Vec<usize> = Vec::new();
    let mut cs: Vec<usize> = Vec::new();
    for o in outs {
        if o.mismatches == 0 {
            continue;
        }
        let t = o.first.first().map(|x| x.threads).unwrap_or(0);
        lines.push(format!("T={t}: {} of {} executions differ from the sequential baseline", o.mismatches, o.execs));
        for mm in o.first.iter().take(6) {
            lines.push(format!(
                "  thread {}/{} ({}, {}), round {}: filter #{} {:?} on context #{} returned {} - sequential result {}{}",
                mm.tid,
                mm.threads,
                if mm.own_filter { "own recompilation" } else { "shared Arc<Filter>" },
                if mm.own_ctx { "own context clone" } else { "shared &ExecutionContext" },
                mm.round,
                mm.f,
                m.texts[mm.f],
                mm.c,
                code_name(mm.got),
                code_name(mm.want),
                mm.msg.as_ref().map(|s| format!(" [{s}]")).unwrap_or_default()
            ));
        }
        for mm in &o.first {
            if !fs.contains(&mm.f) {
                fs.push(mm.f);
            }
            if !cs.contains(&mm.c) {
                cs.push(mm.c);
            }
        }
    }
    fs.sort();
    cs.sort();
    (lines.join("\n"), fs, cs)
}

/// Rounds per thread: the nominal number up to 16 threads; with 64 threads (4 per core) a
/// quarter, so that the phase does the same total work as the one with 16.
fn rounds_for(rounds: usize, threads: usize) -> usize {
    if threads <= 16 { rounds } else { (rounds * 16 / threads).max(2) }
}

fn set_case(p: Params, ch: &mut Choices<'_>, st: &mut Stats) -> CaseResult {
    // works the same in exact (enumerated / replayed) and proptest mode: the raw
    // values are the choice sequence of the generator
    let raw = drain(ch);
    let mut inner = Choices::new(&raw);
    let m = build_set(&mut inner, p);
    let eng = parse_all(&m)?;
    let filters = compile_all(&m, &eng)?;
    let base = baseline(&m, &eng, &filters, st)?;
    let nf = filters.len();
    let mut outs = Vec::new();
    let cheap: Vec<bool> = m.feats.iter().map(|f| !f.regex && !f.call).collect();
    for t in THREADS {
        let o = stress(&eng, &filters, &cheap, &base, rounds_for(p.rounds, t), t);
        st.evals_n(o.execs);
        st.class_n("executions-on-shared-filter", o.shared_execs);
        st.class_n("executions-on-own-recompilation", o.execs - o.shared_execs);
        outs.push(o);
    }
    if outs.iter().any(|o| o.mismatches > 0) {
        let (msg, fs, cs) = describe_mismatches(&m, &outs);
        let panicked = outs.iter().flat_map(|o| &o.first).any(|x| x.got == PANIC);
        return Err(Fail::new(
            if panicked { "concurrent-execution-panicked" } else { "concurrent-result-differs" },
            msg,
            m.show(Some(&fs), Some(&cs)),
        ));
    }
    // first executions of freshly compiled (never executed) filters, raced
    // across 16 threads released by a barrier, several times
    let race_rounds = if p.rounds >= 100 { 24 } else { 6 };
    let nctx = eng.ecs.len();
    for round in 0..race_rounds {
        let fresh = compile_all(&m, &eng)?;
        let barrier = std::sync::Barrier::new(16);
        let bad: std::sync::Mutex<Option<(usize, usize, u8)>> = std::sync::Mutex::new(None);
        let _permit = acquire_cores(16);
        std::thread::scope(|s| {
            for tid in 0..16usize {
                let fresh = &fresh;
                let eng = &eng;
                let base = &base;
                let barrier = &barrier;
                let bad = &bad;
                s.spawn(move || {
                    barrier.wait();
                    for k in 0..nf {
                        let f = (k + tid * 3 + round) % nf;
                        for j in 0..2 {
                            let c = (tid + j * 5 + round) % nctx;
                            let (code, _) = exec(&fresh[f], &eng.ecs[c]);
                            if code != base[f * nctx + c] {
                                let mut b = bad.lock().unwrap();
                                if b.is_none() {
                                    *b = Some((f, c, code));
                                }
                            }
                        }
                    }
                });
            }
        });
        st.evals_n((16 * nf * 2) as u64);
        st.class_n("first-executions-raced", (16 * nf * 2) as u64);
        if let Some((f, c, code)) = *bad.lock().unwrap() {
            return Err(Fail::new(
                "first-execution-race-differs",
                format!(
                    "filter #{f} {:?} freshly compiled and first executed by 16 threads at once returned {} on context #{c}, the sequential result is {}",
                    m.texts[f],
                    code_name(code),
                    code_name(base[f * nctx + c])
                ),
                m.show(Some(&[f]), Some(&[c])),
            ));
        }
    }
    // measurement
    let sf = m.set_feat();
    for n in sf.names() {
        st.class(&format!("set-with-{n}"));
    }
    for f in &m.feats {
        for n in f.names() {
            st.class(&format!("filter-with-{n}"));
        }
    }
    let both = base.chunks(eng.ecs.len()).filter(|r| r.contains(&TRUE) && r.contains(&FALSE)).count();
    st.class_n("filter-with-both-outcomes", both as u64);
    st.class_n("filters", nf as u64);
    // peak simultaneous executions of one shared filter, over the phases with >= 4 threads
    let mut peak = vec![0usize; nf];
    for (o, t) in outs.iter().zip(THREADS) {
        if t >= 4 {
            for f in 0..nf {
                peak[f] = peak[f].max(o.peak[f]);
            }
        }
    }
    let top = peak.iter().copied().max().unwrap_or(0);
    st.class(match top {
        0 | 1 => "peak-in-flight-1",
        2..=3 => "peak-in-flight-2..3",
        4..=7 => "peak-in-flight-4..7",
        8..=15 => "peak-in-flight-8..15",
        _ => "peak-in-flight-16+",
    });
    let over = |pred: &dyn Fn(&Feat) -> bool| (0..nf).any(|f| pred(&m.feats[f]) && peak[f] >= 2);
    if over(&|f| f.regex) {
        st.class("regex-filter-overlapped");
    }
    if over(&|f| f.simd_contains) {
        st.class("simd-contains-filter-overlapped");
    }
    if over(&|f| f.in_list) {
        st.class("list-filter-overlapped");
    }
    if over(&|f| f.mapped_call) {
        st.class("mapped-call-filter-overlapped");
    }
    let simd_active = wirefilter::verif::simd_contains_active();
    if top >= 2 && sf.regex && sf.simd_contains && simd_active {
        st.nontrivial(&(&m.texts, &m.ctxs));
        st.sample("set", || {
            json!({
                "filters": m.texts,
                "contexts": m.ctxs.len(),
                "peak_in_flight_per_filter": peak,
                "threads": THREADS,
                "rounds": THREADS.map(|t| rounds_for(p.rounds, t)),
            })
        });
    } else {
        st.class("set-without-measured-overlap");
    }
    Ok(())
}

// ---------------------------------------------------------------------------
// Fresh processes racing the first use of the lazily initialised state

/// Order in which a child thread walks the filters: a SIMD `contains` first,
/// then a regex, then the rest.
fn child_order(m: &SetModel) -> Vec<usize> {
    let nf = m.texts.len();
    let mut order = Vec::new();
    if let Some(i) = (0..nf).find(|i| m.feats[*i].simd_contains && !m.feats[*i].regex) {
        order.push(i);
    }
    if let Some(i) = (0..nf).find(|i| m.feats[*i].regex && !order.contains(i)) {
        order.push(i);
    }
    for i in 0..nf {
        if !order.contains(&i) {
            order.push(i);
        }
    }
    order
}

fn parse_raw(s: &str) -> Vec<u32> {
    s.split_whitespace().filter_map(|t| t.parse().ok()).collect()
}

/// Release as simultaneously as possible: a blocking barrier to get every
/// thread running, then a short spin on a counter (the futex wake-ups of
/// `Barrier` alone are tens of microseconds apart).
struct Gate {
    barrier: Barrier,
    arrived: AtomicUsize,
    n: usize,
}

impl Gate {
    fn new(n: usize) -> Self {
        Gate { barrier: Barrier::new(n), arrived: AtomicUsize::new(0), n }
    }
    fn wait(&self) {
        self.barrier.wait();
        self.arrived.fetch_add(1, Ordering::AcqRel);
        let mut spins = 0u32;
        while self.arrived.load(Ordering::Acquire) < self.n {
            spins += 1;
            if spins % 2048 == 0 {
                std::thread::yield_now();
            } else {
                std::hint::spin_loop();
            }
        }
    }
}

/// `wfcheck --child c18 race` (called with the arguments after `c18`): choice vector on stdin, JSON on stdout.
pub fn child(args: &[String]) -> i32 {
    if args.first().map(|s| s.as_str()) != Some("race") {
        eprintln!("c18 child: unknown mode");
        return 2;
    }
    crate::engine::quiet_panics();
    std::thread::spawn(|| {
        std::thread::sleep(std::time::Duration::from_secs(300));
        eprintln!("c18 child: no progress for 300 s");
        std::process::exit(3);
    });
    let mut input = String::new();
    if std::io::Read::read_to_string(&mut std::io::stdin(), &mut input).is_err() {
        return 2;
    }
    let raw = parse_raw(&input);
    let mut ch = Choices::new(&raw);
    let m = build_set(&mut ch, FRESH);
    // parsing builds the regexes but neither reads the SIMD latch (read when a
    // `contains` is compiled) nor touches a regex cache pool (first execution)
    let eng = match parse_all(&m) {
        Ok(e) => e,
        Err(f) => {
            println!("{}", json!({"fatal": format!("[{}] {}", f.sig, f.msg)}));
            return 0;
        }
    };
    let order = child_order(&m);
    let nf = m.texts.len();
    let nctx = eng.ecs.len();
    // phase A: every thread compiles its own copies (the first compilation of a
    // multi-byte `contains` initialises the latch) and executes them
    let barrier = Gate::new(CHILD_THREADS);
    let res_a: Mutex<Vec<(usize, Vec<u8>, Vec<String>)>> = Mutex::new(Vec::new());
    std::thread::scope(|s| {
        for tid in 0..CHILD_THREADS {
            let (barrier, res_a, eng, order) = (&barrier, &res_a, &eng, &order);
            std::thread::Builder::new()
                .stack_size(16 << 20)
                .spawn_scoped(s, move || {
                    let mut codes = vec![PANIC; nf * nctx];
                    let mut msgs = Vec::new();
                    // own copies of the ASTs, made before the release: the first thing a thread
                    // does afterwards is to compile a multi-byte `contains`
                    let mut mine: Vec<Option<FilterAst>> = eng.asts.iter().map(|a| Some(a.clone())).collect();
                    barrier.wait();
                    for &f in order {
                        let ast = mine[f].take().unwrap();
                        match catch(move || ast.compile()) {
                            Ok(filt) => {
                                for c in 0..nctx {
                                    let (code, msg) = exec(&filt, &eng.ecs[c]);
                                    codes[f * nctx + c] = code;
                                    if let Some(m) = msg {
                                        msgs.push(format!("A thread {tid} filter #{f} context #{c}: {m}"));
                                    }
                                }
                            }
                            Err(p) => msgs.push(format!("A thread {tid} compiling filter #{f}: {p}")),
                        }
                    }
                    res_a.lock().unwrap().push((tid, codes, msgs));
                })
                .expect("spawn");
        }
    });
    // phase B: filters compiled once (their regexes have never been executed:
    // fresh cache pools), first executions raced on the shared filters
    let shared: Vec<Option<Filter>> = eng.asts.iter().map(|a| catch(|| a.clone().compile()).ok()).collect();
    // regex filters first
    let mut order_b: Vec<usize> = (0..nf).filter(|f| m.feats[*f].regex).collect();
    order_b.extend((0..nf).filter(|f| !m.feats[*f].regex));
    let barrier = Gate::new(CHILD_THREADS);
    let res_b: Mutex<Vec<(usize, Vec<u8>, Vec<String>)>> = Mutex::new(Vec::new());
    std::thread::scope(|s| {
        for tid in 0..CHILD_THREADS {
            let (barrier, res_b, eng, order, shared) = (&barrier, &res_b, &eng, &order_b, &shared);
            std::thread::Builder::new()
                .stack_size(16 << 20)
                .spawn_scoped(s, move || {
                    let mut codes = vec![PANIC; nf * nctx];
                    let mut msgs = Vec::new();
                    barrier.wait();
                    for &f in order {
                        if let Some(filt) = &shared[f] {
                            for c in 0..nctx {
                                let (code, msg) = exec(filt, &eng.ecs[c]);
                                codes[f * nctx + c] = code;
                                if let Some(m) = msg {
                                    msgs.push(format!("B thread {tid} filter #{f} context #{c}: {m}"));
                                }
                            }
                        } else {
                            msgs.push(format!("B filter #{f} did not compile"));
                        }
                    }
                    res_b.lock().unwrap().push((tid, codes, msgs));
                })
                .expect("spawn");
        }
    });
    let mut a = res_a.into_inner().unwrap();
    let mut b = res_b.into_inner().unwrap();
    a.sort_by_key(|x| x.0);
    b.sort_by_key(|x| x.0);
    let msgs: Vec<String> = a.iter().chain(b.iter()).flat_map(|x| x.2.iter().cloned()).take(8).collect();
    println!(
        "{}",
        json!({
            "simd": wirefilter::verif::simd_contains_active(),
            "a": a.iter().map(|x| digits(&x.1)).collect::<Vec<_>>(),
            "b": b.iter().map(|x| digits(&x.1)).collect::<Vec<_>>(),
            "messages": msgs,
        })
    );
    0
}

fn fresh_case(ch: &mut Choices<'_>, st: &mut Stats) -> CaseResult {
    let raw = drain(ch);
    let mut inner = Choices::new(&raw);
    let m = build_set(&mut inner, FRESH);
    let eng = parse_all(&m)?;
    let filters = compile_all(&m, &eng)?;
    let base = baseline(&m, &eng, &filters, st)?;
    let want = digits(&base);
    let nctx = eng.ecs.len();
    let stdin: String = raw.iter().map(|x| x.to_string()).collect::<Vec<_>>().join(" ");
    let sf = m.set_feat();
    for (k, envs) in CHILD_ENVS.iter().enumerate() {
        let (code, signal, out, err) = {
            let _permit = acquire_cores(2);
            spawn_child(&["c18", "race"], envs, Some(stdin.as_bytes()))
        };
        let err_tail = || {
            let e = String::from_utf8_lossy(&err);
            e.chars().rev().take(600).collect::<String>().chars().rev().collect::<String>()
        };
        if code != Some(0) {
            return Err(Fail::new(
                if code == Some(3) { "fresh-process-hung" } else { "fresh-process-crashed" },
                format!("child #{k} (env {envs:?}) ended with exit code {code:?}, signal {signal:?}; stderr: {}", err_tail()),
                m.show(None, None),
            ));
        }
        let text = String::from_utf8_lossy(&out);
        let v: Value = serde_json::from_str(text.trim()).map_err(|e| {
            Fail::new("fresh-process-output", format!("child #{k} printed no JSON ({e}): {text:?}; stderr: {}", err_tail()), m.show(None, None))
        })?;
        if let Some(f) = v.get("fatal") {
            return Err(Fail::new("fresh-process-output", format!("child #{k}: {f}"), m.show(None, None)));
        }
        let simd = v["simd"].as_bool().unwrap_or(false);
        st.class(if simd { "child-with-simd-contains" } else { "child-without-simd-contains" });
        for phase in ["a", "b"] {
            let rows = v[phase].as_array().cloned().unwrap_or_default();
            if rows.len() != CHILD_THREADS {
                return Err(Fail::new("fresh-process-output", format!("child #{k} phase {phase}: {} of {CHILD_THREADS} threads reported", rows.len()), m.show(None, None)));
            }
            for (tid, row) in rows.iter().enumerate() {
                let got = row.as_str().unwrap_or("");
                st.evals_n(got.len() as u64);
                if got != want {
                    let pos = got.bytes().zip(want.bytes()).position(|(a, b)| a != b).unwrap_or(0);
                    let (f, c) = (pos / nctx, pos % nctx);
                    return Err(Fail::new(
                        "fresh-process-digest-differs",
                        format!(
                            "child #{k} (env {envs:?}, simd {simd}), phase {} thread {tid}: filter #{f} {:?} on context #{c} returned {} where the parent's sequential result is {}\n child: {got}\nparent: {want}\nmessages: {}",
                            if phase == "a" { "A (racing the first compilation / SIMD latch with per-thread filters)" } else { "B (racing the first execution of shared filters)" },
                            m.texts[f],
                            got.as_bytes().get(pos).map(|b| code_name(b - b'0')).unwrap_or("?"),
                            want.as_bytes().get(pos).map(|b| code_name(b - b'0')).unwrap_or("?"),
                            v["messages"]
                        ),
                        m.show(Some(&[f]), Some(&[c])),
                    ));
                }
            }
        }
        st.class("fresh-process");
        if sf.regex && sf.simd_contains {
            st.nontrivial(&(&m.texts, &m.ctxs, k));
        }
    }
    st.sample("fresh-workload", || json!({"filters": m.texts, "contexts": m.ctxs.len(), "children": CHILD_ENVS.len(), "threads_per_child": CHILD_THREADS, "digest": want}));
    Ok(())
}

// ---------------------------------------------------------------------------
// sub-check "lifetimes": filters compiled, executed and dropped in rotation.
// A compiled filter owns what it matches with: which other filters exist, existed
// before or are compiled next to it must not show in its results.  Families of
// patterns of equal length (16..96 bytes) under every byte-string operator, so
// that equal-size allocations are recycled and equal patterns meet under
// different operators.

const LIFE_LENGTHS: [usize; 8] = [5, 16, 24, 31, 32, 33, 48, 96];
const LIFE_OPS: [&str; 6] = ["matches", "wildcard", "strict wildcard", "contains", "==", "!="];

fn life_pattern(len: usize, variant: usize) -> String {
    // lower-case letters only: the same text is a literal under every operator
    let mut s: String = (0..len).map(|i| (b'a' + ((i * 7 + len) % 26) as u8) as char).collect();
    if variant > 0 {
        let at = (variant * 5) % len;
        s.replace_range(at..at + 1, ["q", "z", "k"][variant % 3]);
    }
    s
}

fn life_expected(op: &str, pattern: &[u8], value: &[u8]) -> bool {
    match op {
        "matches" | "contains" => eval::naive_contains(value, pattern),
        "wildcard" => value.eq_ignore_ascii_case(pattern),
        "strict wildcard" | "==" => value == pattern,
        _ => value != pattern,
    }
}

fn lifetimes_case(ch: &mut Choices<'_>, st: &mut Stats) -> CaseResult {
    // the key is a vector of raw words (see `key_of`), read proportionally
    let raw = drain(ch);
    let ch = &mut Choices::new(&raw);
    let len = *ch.pick(&LIFE_LENGTHS);
    let nvar = ch.range(2, 4);
    let threads = *ch.pick(&[1usize, 1, 2, 4, 8]);
    let nops = ch.range(60, 240);
    let patterns: Vec<String> = (0..nvar).map(|v| life_pattern(len, v)).collect();
    // values: each pattern, its upper-case form, embedded, and a near miss
    let mut values: Vec<Vec<u8>> = Vec::new();
    for p in &patterns {
        values.push(p.as_bytes().to_vec());
        values.push(p.to_uppercase().into_bytes());
        values.push(format!("xx{p}yy").into_bytes());
        let mut near = p.as_bytes().to_vec();
        near[len / 2] = b'_';
        values.push(near);
    }
    let mut texts: Vec<(String, &'static str, usize)> = Vec::new();
    for (pi, p) in patterns.iter().enumerate() {
        for op in LIFE_OPS {
            texts.push((format!("s {op} \"{p}\""), op, pi));
        }
    }
    let recipe = Recipe { fields: vec![FieldSpec { name: "s".into(), ty: MType::Bytes, optional: false }], nil_ne: true, funcs: vec![], concat: false, lists: vec![] };
    let scheme = recipe.build();
    let ecs: Vec<ExecutionContext<'static>> =
        values.iter().map(|v| recipe.make_ctx(&scheme, &MCtx { vals: vec![Some(MVal::Bytes(v.clone()))] }, &ListState::new())).collect();
    // per-thread op scripts: (kind, slot, text, value)
    let scripts: Vec<Vec<(u8, usize, usize, usize)>> = (0..threads)
        .map(|_| (0..nops).map(|_| (ch.weighted(&[3, 5, 2]) as u8, ch.draw(6), ch.draw(texts.len()), ch.draw(values.len()))).collect())
        .collect();
    let show = |extra: Value| {
        json!({
            "scheme": "s: Bytes", "pattern_length": len, "patterns": patterns, "threads": threads,
            "operations_per_thread": nops, "what": "slots of compiled filters; op = compile into slot (dropping its filter) / execute slot / drop slot",
            "failure": extra,
        })
    };
    let barrier = Barrier::new(threads);
    let failure: Mutex<Option<Value>> = Mutex::new(None);
    let evals = AtomicUsize::new(0);
    let recycled = AtomicUsize::new(0);
    let _permit = acquire_cores(threads);
    std::thread::scope(|sc| {
        for (t, script) in scripts.iter().enumerate() {
            let (scheme, texts, values, patterns, ecs, barrier, failure, evals, recycled) = (&scheme, &texts, &values, &patterns, &ecs, &barrier, &failure, &evals, &recycled);
            sc.spawn(move || {
                crate::engine::quiet_panics();
                let mut slots: Vec<Option<(Filter, usize)>> = (0..6).map(|_| None).collect();
                let mut history: Vec<String> = Vec::new();
                barrier.wait();
                for (kind, slot, ti, vi) in script {
                    match kind {
                        0 => {
                            let (text, _, _) = &texts[*ti];
                            let compiled = catch(|| scheme.parse(text).map(|a| a.compile()).map_err(|e| e.to_string()));
                            match compiled {
                                Ok(Ok(f)) => {
                                    if slots[*slot].is_some() {
                                        recycled.fetch_add(1, Ordering::Relaxed);
                                    }
                                    history.push(format!("slot {slot} := compile({text})"));
                                    slots[*slot] = Some((f, *ti));
                                }
                                other => {
                                    *failure.lock().unwrap() = Some(json!({"sig": "compile-failed", "thread": t, "filter": text, "outcome": format!("{other:?}")}));
                                    return;
                                }
                            }
                        }
                        1 => {
                            if let Some((f, ti)) = &slots[*slot] {
                                let (text, op, pi) = &texts[*ti];
                                let want = life_expected(op, patterns[*pi].as_bytes(), &values[*vi]);
                                let (code, detail) = exec(f, &ecs[*vi]);
                                evals.fetch_add(1, Ordering::Relaxed);
                                if code != want as u8 {
                                    let tail: Vec<&String> = history.iter().rev().take(12).collect();
                                    *failure.lock().unwrap() = Some(json!({
                                        "sig": "result-depends-on-other-filters", "thread": t, "filter": text, "value": show_bytes(&values[*vi]),
                                        "engine": code_name(code), "detail": detail, "reference": want, "this_thread_before_(latest_first)": tail,
                                    }));
                                    return;
                                }
                            }
                        }
                        _ => {
                            if slots[*slot].take().is_some() {
                                history.push(format!("drop slot {slot}"));
                            }
                        }
                    }
                    if failure.lock().unwrap().is_some() {
                        return;
                    }
                }
            });
        }
    });
    st.evals_n(evals.load(Ordering::Relaxed) as u64);
    if let Some(f) = failure.into_inner().unwrap() {
        let sig = f["sig"].as_str().unwrap_or("lifetimes").to_string();
        return Err(Fail::new(sig, "a filter's result differs from the reference while other filters are compiled / dropped around it".to_string(), show(f)));
    }
    st.class(&format!("lifetimes:threads-{threads}"));
    st.class(&format!("lifetimes:pattern-length-{len}"));
    if recycled.load(Ordering::Relaxed) >= 10 {
        st.nontrivial(&(len, nvar, threads, &scripts));
    }
    st.sample("lifetimes", || show(Value::Null));
    Ok(())
}

// ---------------------------------------------------------------------------


// ---------------------------------------------------------------------------
// faults: an execution that panics (a user-supplied function panics on one particular argument value) must leave
// the shared compiled filter as it was: every later execution, on any thread, still returns the sequential result.

fn trap_impl<'a>(args: wirefilter::FunctionArgs<'_, 'a>) -> Option<wirefilter::LhsValue<'a>> {
    let a = args.next()?;
    match a {
        Ok(wirefilter::LhsValue::Bytes(b)) => {
            if b.starts_with(b"!trap") {
                panic!("trap sprung");
            }
            Some(wirefilter::LhsValue::Bytes(b))
        }
        _ => None,
    }
}

fn faults_scheme() -> Scheme {
    use wirefilter::{SimpleFunctionArgKind, SimpleFunctionDefinition, SimpleFunctionImpl, SimpleFunctionParam, Type};
    let mut b = wirefilter::SchemeBuilder::new();
    b.add_field("a", Type::Bytes).unwrap();
    b.add_field("b", Type::Bytes).unwrap();
    b.add_field("n", Type::Int).unwrap();
    b.add_field("arr", Type::Array(Type::Bytes.into())).unwrap();
    b.add_function("concat", wirefilter::ConcatFunction::new()).unwrap();
    b.add_function(
        "trap",
        SimpleFunctionDefinition {
            params: vec![SimpleFunctionParam { arg_kind: SimpleFunctionArgKind::Field, val_type: Type::Bytes }],
            opt_params: vec![],
            return_type: Type::Bytes,
            implementation: SimpleFunctionImpl::new(trap_impl),
        },
    )
    .unwrap();
    b.build()
}

/// (filter text, reference) - the reference is written directly from the documented meaning of each operator;
/// `trap(x)` is the identity on values that do not spring it.
fn faults_filters() -> Vec<(&'static str, fn(&[u8], &[u8], i64, &[Vec<u8>]) -> bool)> {
    fn cat(parts: &[&[u8]]) -> Vec<u8> {
        parts.concat()
    }
    vec![
        ("concat(a, trap(b)) == \"hello.world\"", |a, b, _, _| cat(&[a, b]) == b"hello.world"),
        ("concat(a, \"-\", trap(b)) contains \"o-w\"", |a, b, _, _| cat(&[a, b"-", b]).windows(3).any(|w| w == b"o-w")),
        ("concat(trap(a), b, trap(b)) matches \"^hello\\.\\.world\"", |a, b, _, _| cat(&[a, b, b]).starts_with(b"hello..world")),
        ("concat(a, concat(a, trap(b))) == \"hello.hello..world\"", |a, b, _, _| cat(&[a, a, b]) == b"hello.hello..world"),
        ("any(concat(arr[*], trap(b))[*] == \"x.world\")", |_, b, _, arr| arr.iter().any(|e| cat(&[e, b]) == b"x.world")),
        ("trap(b) in {\".world\" \"zz\"} and n > 3", |_, b, n, _| (b == b".world" || b == b"zz") && n > 3),
        ("a == \"hello.\" and trap(b) wildcard \"*WORLD\"", |a, b, _, _| a == b"hello." && b.to_ascii_lowercase().ends_with(b"world")),
        ("not (trap(a) contains \"ell\") or concat(trap(b), a) == \".worldhello.\"", |a, b, _, _| !a.windows(3).any(|w| w == b"ell") || cat(&[b, a]) == b".worldhello."),
        ("all(trap(arr[*])[*] != \"q\") xor concat(a, trap(b), a) == \"hello..worldhello.\"", |a, b, _, arr| arr.iter().all(|e| e != b"q") ^ (cat(&[a, b, a]) == b"hello..worldhello.")),
    ]
}

fn faults_case(ch: &mut Choices<'_>, st: &mut Stats) -> CaseResult {
    let raw = drain(ch);
    let ch = &mut Choices::new(&raw);
    let scheme = faults_scheme();
    let threads = *ch.pick(&[1usize, 1, 2, 4]);
    let nops = ch.range(40, 160);
    // contexts: (a, b, n, arr); the last ones spring the trap through b, a or an element of arr
    let vals: Vec<(Vec<u8>, Vec<u8>, i64, Vec<Vec<u8>>)> = vec![
        (b"hello.".to_vec(), b".world".to_vec(), 5, vec![b"x".to_vec(), b"q".to_vec()]),
        (b"hello.".to_vec(), b"World".to_vec(), 1, vec![]),
        (b"".to_vec(), b".world".to_vec(), 4, vec![b"x".to_vec()]),
        (b"hello".to_vec(), b".WORLD".to_vec(), 9, vec![b"y".to_vec(), b"x".to_vec(), b"z".to_vec()]),
        (b"hello.".to_vec(), b"!trap-b".to_vec(), 5, vec![b"x".to_vec()]),
        (b"!trap-a".to_vec(), b".world".to_vec(), 5, vec![b"x".to_vec()]),
        (b"hello.".to_vec(), b".world".to_vec(), 5, vec![b"x".to_vec(), b"!trap-e".to_vec()]),
    ];
    let springs = |text: &str, v: &(Vec<u8>, Vec<u8>, i64, Vec<Vec<u8>>)| -> bool {
        (text.contains("trap(a)") && v.0.starts_with(b"!trap")) || (text.contains("trap(b)") && v.1.starts_with(b"!trap")) || (text.contains("trap(arr[*])") && v.3.iter().any(|e| e.starts_with(b"!trap")))
    };
    let ecs: Vec<ExecutionContext<'static>> = vals
        .iter()
        .map(|(a, b, n, arr)| {
            let mut ec = ExecutionContext::new(&scheme);
            ec.set_field_value(scheme.get_field("a").unwrap(), a.clone()).unwrap();
            ec.set_field_value(scheme.get_field("b").unwrap(), b.clone()).unwrap();
            ec.set_field_value(scheme.get_field("n").unwrap(), *n).unwrap();
            let av = wirefilter::Array::try_from_iter(wirefilter::Type::Bytes, arr.iter().map(|e| wirefilter::LhsValue::Bytes(e.clone().into()))).unwrap();
            ec.set_field_value(scheme.get_field("arr").unwrap(), av).unwrap();
            // the contexts live as long as the scheme (both are dropped at the end of the case)
            unsafe { std::mem::transmute::<ExecutionContext<'_>, ExecutionContext<'static>>(ec) }
        })
        .collect();
    let specs = faults_filters();
    let mut filters: Vec<Arc<Filter>> = Vec::new();
    for (text, _) in &specs {
        match catch(|| scheme.parse(text).map(|a| a.compile()).map_err(|e| e.to_string())) {
            Ok(Ok(f)) => filters.push(Arc::new(f)),
            other => return Err(Fail::new("compile-failed", format!("{text}: {other:?}"), json!({"filter": text}))),
        }
    }
    // per-thread scripts of (filter, context); a third of the steps go to a context that may spring the trap
    let scripts: Vec<Vec<(usize, usize)>> = (0..threads)
        .map(|_| (0..nops).map(|_| (ch.draw(specs.len()), if ch.chance(1, 3) { 4 + ch.draw(3) } else { ch.draw(4) })).collect())
        .collect();
    let barrier = Barrier::new(threads);
    let failure: Mutex<Option<Value>> = Mutex::new(None);
    let evals = AtomicUsize::new(0);
    let sprung = AtomicUsize::new(0);
    let after = AtomicUsize::new(0);
    let _permit = acquire_cores(threads);
    std::thread::scope(|sc| {
        for (t, script) in scripts.iter().enumerate() {
            let (specs, vals, ecs, filters, barrier, failure, evals, sprung, after, springs) = (&specs, &vals, &ecs, &filters, &barrier, &failure, &evals, &sprung, &after, &springs);
            sc.spawn(move || {
                crate::engine::quiet_panics();
                let mut history: Vec<String> = Vec::new();
                let mut faulted = false;
                barrier.wait();
                for (fi, vi) in script {
                    let (text, reference) = &specs[*fi];
                    let v = &vals[*vi];
                    let (code, detail) = exec(&filters[*fi], &ecs[*vi]);
                    evals.fetch_add(1, Ordering::Relaxed);
                    if springs(text, v) {
                        // the user function may or may not be reached (short-circuit evaluation is the engine's
                        // choice); when it is, the panic must come out as a panic
                        if code == PANIC {
                            sprung.fetch_add(1, Ordering::Relaxed);
                            faulted = true;
                            history.push(format!("PANIC in {text} on context #{vi}"));
                        } else {
                            history.push(format!("{text} on context #{vi} (trap not reached)"));
                        }
                        continue;
                    }
                    let want = reference(&v.0, &v.1, v.2, &v.3);
                    if faulted {
                        after.fetch_add(1, Ordering::Relaxed);
                    }
                    if code != want as u8 {
                        let tail: Vec<&String> = history.iter().rev().take(10).collect();
                        *failure.lock().unwrap() = Some(json!({
                            "sig": if faulted || sprung.load(Ordering::Relaxed) > 0 { "result-differs-after-a-panicking-execution" } else { "result-differs" },
                            "thread": t, "filter": text, "context": {"a": show_bytes(&v.0), "b": show_bytes(&v.1), "n": v.2, "arr": v.3.iter().map(|e| show_bytes(e)).collect::<Vec<_>>()},
                            "engine": code_name(code), "detail": detail, "reference": want, "this_thread_before_(latest_first)": tail,
                        }));
                        return;
                    }
                    history.push(format!("{text} on context #{vi} = {want}"));
                    if failure.lock().unwrap().is_some() {
                        return;
                    }
                }
            });
        }
    });
    st.evals_n(evals.load(Ordering::Relaxed) as u64);
    drop(filters);
    drop(ecs);
    if let Some(f) = failure.into_inner().unwrap() {
        let sig = f["sig"].as_str().unwrap_or("faults").to_string();
        return Err(Fail::new(sig, "a shared compiled filter returns another result than the reference (executions that panic inside a user-supplied function happen in between)".to_string(), json!({"scheme": "a, b: Bytes; n: Int; arr: Array(Bytes); concat; trap(Bytes)->Bytes panics on values starting with !trap", "threads": threads, "failure": f})));
    }
    st.class(&format!("faults:threads-{threads}"));
    if sprung.load(Ordering::Relaxed) > 0 && after.load(Ordering::Relaxed) > 0 {
        st.nontrivial(&(threads, &scripts));
    }
    st.sample("faults", || json!({"threads": threads, "steps_per_thread": nops, "panicking_executions": sprung.load(Ordering::Relaxed), "checked_executions_after_a_panic": after.load(Ordering::Relaxed), "filters": specs.iter().map(|s| s.0).collect::<Vec<_>>()}));
    Ok(())
}

fn splitmix(s: &mut u64) -> u64 {
    *s = s.wrapping_add(0x9E37_79B9_7F4A_7C15);
    let mut z = *s;
    z = (z ^ (z >> 30)).wrapping_mul(0xBF58_476D_1CE4_E5B9);
    z = (z ^ (z >> 27)).wrapping_mul(0x94D0_49BB_1331_11EB);
    z ^ (z >> 31)
}

/// The choice vector of case `i` of a sub-check: a fixed function of (seed, sub, i).
fn key_of(seed: u64, tag: u64, i: u64, len: usize) -> Vec<u32> {
    let mut s = seed.wrapping_mul(0xD6E8_FEB8_6659_FD93) ^ tag.wrapping_mul(0xA076_1D64_78BD_642F) ^ i.wrapping_mul(0xE703_7ED1_A0B4_28DB);
    (0..len).map(|_| (splitmix(&mut s) >> 32) as u32).collect()
}

pub fn subs() -> Vec<Sub> {
    vec![
        Sub { name: "sets", f: Box::new(|ch, st| set_case(QUICK, ch, st)) },
        Sub { name: "sets-deep", f: Box::new(|ch, st| set_case(DEEP, ch, st)) },
        Sub { name: "fresh", f: Box::new(fresh_case) },
        Sub { name: "lifetimes", f: Box::new(lifetimes_case) },
        Sub { name: "faults", f: Box::new(faults_case) },
    ]
}

pub fn run(run: &Run) {
    run.rule(
        "sets: one generated scheme with 19 template filters (2 regex, 2 multi-byte contains, in {..} over Int/Ip/Bytes incl. two sets sharing a field, 2 in $list, wildcard, 3 map-each, plain and mapped function calls, 2 xor chains re-using those comparisons) + generator-made compositions (GenCfg::full, depth 3) x generated contexts and list contents; \
         sequential baseline per (filter, context) checked against the reference evaluator, re-executed twice in two orders and once on a recompilation; then T = 2, 4, 16, 64 threads released by a Barrier, each executing every pair `rounds` times (a quarter of that with 64 threads; half as walks over all filters in a per-thread rotated order = different filters in flight together; half as bursts handed out by a shared ticket counter that gives the same filter to the T threads asking next = the same filter in flight in several threads; bursts of filters without regex / function call repeat the contexts 8 times more often) - 3 of 4 threads on the shared Arc<Filter>, every 4th on its own recompilation made after the release, every 4th on its own clone_with(()) copies of the contexts, the others on the shared &ExecutionContext; every result must equal the baseline; \
         fresh: a smaller set handed (as its choice vector) to 3 fresh child processes (one with WIREFILTER_USE_AVX2=0) in which 16 threads released by a barrier first compile+execute their own copies (racing the first read of the SIMD latch and the first regex executions of the process), then race the first executions of freshly compiled shared filters; every thread's result vector must equal the parent's sequential digest; \
         lifetimes: on 1/2/4/8 threads, 60..240 steps each over 6 slots - compile one of (2..4 equal-length patterns of 5..96 bytes) x (matches, wildcard, strict wildcard, contains, ==, !=) into a slot (dropping its filter), execute a slot on one of the patterns / their upper-case forms / embeddings / near misses, drop a slot - every result compared with the reference (the same text under different operators, equal-size allocations recycled, lifetimes overlapping across threads); \
         faults: 9 filters over concat / a user function trap(Bytes) that panics on values starting with !trap, shared by 1/2/4 threads, 40..160 steps each; a third of the steps execute on a context that springs the trap (the panic is caught by the caller, as the C API does), every other execution - before and after - must return the reference result (a compiled filter keeps nothing from an execution that did not finish); non-trivial (faults) = at least one execution panicked and a later one on the same thread was checked; \
         non-trivial (sets) = in a phase with >= 4 threads the in-flight counter of some shared filter reached >= 2, the set contains >= 1 regex and >= 1 multi-byte contains and the SIMD implementation is active in this process; (fresh) = a child process whose set contains both; distinct by (filter texts, contexts)",
    );
    run.assume("generated search cannot choose thread schedules: this is stress exploration of the schedules that happen to occur on this machine (barrier-released threads, rotated walks and same-filter bursts, phases of concurrently running cases share the cores so that a phase's threads really run in parallel), not a proof over all interleavings; a one-in-10^9 interleaving will not be found");
    run.assume("no ThreadSanitizer build is used (needs -Zbuild-std); data races that do not change a result, crash or hang are invisible to this check");
    run.assume("the choice vectors are a fixed function of (VERIF_SEED, sub-check, case index) and are run without shrinking, because a schedule-dependent failure does not shrink; a replay re-runs the same workload, it cannot force the same schedule");
    run.assume("harness functions and the list matcher are pure (they log calls only on threads that started logging); mandatory fields are always set");
    run.exhaustive_all.store(false, Ordering::Relaxed);
    let subs = subs();
    run_regressions(run, &subs);
    run.note("simd_contains_active_in_parent", json!(wirefilter::verif::simd_contains_active()));
    run.note("thread_counts", json!(THREADS));
    let seed = run.seed;
    match run.tier {
        Tier::Quick => {
            run.note("rounds_per_thread_count", json!(QUICK.rounds));
            run.enumerate("sets", 24, &move |i| key_of(seed, 1, i, 6000), &*find_sub(&subs, "sets").unwrap().f);
            run.note("wall_sets_s", json!(run.started.elapsed().as_secs_f64()));
            run.enumerate("fresh", 20, &move |i| key_of(seed, 3, i, 4000), &*find_sub(&subs, "fresh").unwrap().f);
            run.enumerate("lifetimes", 1500, &move |i| key_of(seed, 4, i, 8000), &*find_sub(&subs, "lifetimes").unwrap().f);
            run.enumerate("faults", 1500, &move |i| key_of(seed, 5, i, 2000), &*find_sub(&subs, "faults").unwrap().f);
        }
        Tier::Thorough => {
            run.note("rounds_per_thread_count", json!(DEEP.rounds));
            run.enumerate("sets", 64, &move |i| key_of(seed, 1, i, 6000), &*find_sub(&subs, "sets").unwrap().f);
            run.enumerate("sets-deep", 128, &move |i| key_of(seed, 2, i, 9000), &*find_sub(&subs, "sets-deep").unwrap().f);
            run.enumerate("fresh", 200, &move |i| key_of(seed, 3, i, 4000), &*find_sub(&subs, "fresh").unwrap().f);
            run.enumerate("lifetimes", 20_000, &move |i| key_of(seed, 4, i, 8000), &*find_sub(&subs, "lifetimes").unwrap().f);
            run.enumerate("faults", 20_000, &move |i| key_of(seed, 5, i, 2000), &*find_sub(&subs, "faults").unwrap().f);
        }
    }
}

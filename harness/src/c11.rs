//! C11 - regex and wildcard operators match with the documented semantics.
//!
//! Reference: `rx::Rx::is_match` (position-set matcher over the generator's
//! own regex AST: unanchored, byte-oriented, `.` != `\n`, case-sensitive) and
//! `rx::wild_parse` / `rx::wild_match` (wildcard rules written from the
//! property text: `*` any byte sequence, `\*` `\\` literal, `?` ordinary,
//! whole value, ASCII case folding unless strict).

use crate::ast::{BytesForm, BytesLit, RegexForm, quote_bytes};
use crate::choices::Choices;
use crate::engine::catch;
use crate::model::*;
use crate::runner::*;
use crate::rx::{self, Rx, WTok};
use crate::scheme::{ListState, Recipe};
use serde_json::{Value, json};
use std::collections::BTreeSet;
use std::sync::LazyLock;
use wirefilter::{Filter, FilterAst, FilterParser, Scheme};

fn recipe() -> Recipe {
    Recipe {
        fields: vec![FieldSpec { name: "s".into(), ty: MType::Bytes, optional: false }],
        nil_ne: true,
        funcs: vec![],
        concat: false,
        lists: vec![],
    }
}

static RECIPE: LazyLock<Recipe> = LazyLock::new(recipe);
static SCHEME: LazyLock<Scheme> = LazyLock::new(|| RECIPE.build());

fn exec_on(filter: &Filter, v: &[u8]) -> Result<bool, String> {
    let scheme: &Scheme = &SCHEME;
    let ec = RECIPE.make_ctx(scheme, &MCtx { vals: vec![Some(MVal::Bytes(v.to_vec()))] }, &ListState::new());
    match catch(|| filter.execute(&ec)) {
        Err(p) => Err(format!("execution panicked: {p}")),
        Ok(Err(e)) => Err(format!("execution error: {e}")),
        Ok(Ok(b)) => Ok(b),
    }
}

/// Parse; Ok(Ok(ast)) accepted, Ok(Err(text)) rejected, Err(fail) panicked.
fn parse_with(parser: &FilterParser<'_>, text: &str, show: &dyn Fn() -> Value) -> Result<Result<FilterAst, String>, Fail> {
    match catch(|| parser.parse(text).map_err(|e| e.to_string())) {
        Ok(r) => Ok(r),
        Err(p) => Err(Fail::new("parse-panic", format!("parser panicked: {p}"), show())),
    }
}

/// The comparison's `op` and `rhs` in the AST JSON.
fn op_rhs(ast: &FilterAst, show: &dyn Fn() -> Value) -> Result<(Value, Value), Fail> {
    let j = catch(|| serde_json::to_value(ast)).map_err(|p| Fail::new("serialize-panic", p, show()))?;
    let j = j.map_err(|e| Fail::new("serialize-error", e.to_string(), show()))?;
    // walk through `not` and `or` wrappers (parentheses are transparent in the JSON)
    let mut j = &j;
    loop {
        if j.get("arg").is_some() {
            j = &j["arg"];
        } else if let Some(items) = j.get("items").and_then(|i| i.as_array()) {
            j = items.last().unwrap();
        } else {
            break;
        }
    }
    Ok((j["op"].clone(), j["rhs"].clone()))
}

/// The comparison in a position with the same truth value: bare, or nested in
/// parentheses / double negation (nested parsers must enforce the same limits
/// and hand over the same pattern as the top-level one).
const PLACEMENTS: usize = 6;
fn place(k: usize, cmp: &str) -> String {
    match k % PLACEMENTS {
        0 => cmp.to_string(),
        1 => format!("({cmp})"),
        2 => format!("not not {cmp}"),
        3 => format!("( ({cmp}) )"),
        4 => format!("not (not {cmp})"),
        _ => format!("(s < \"\") or ({cmp})"),
    }
}

// ---------------------------------------------------------------------------
// (a) regexes

/// Same pattern with the in-class `\"` written as a bare `"` (both are legal
/// inside a class and denote the same set).  None when there is none.
fn bare_class_quotes(p: &str) -> Option<String> {
    let mut out = String::new();
    let mut in_class = false;
    let mut changed = false;
    let mut it = p.chars();
    while let Some(c) = it.next() {
        match c {
            '\\' => {
                let n = it.next();
                if in_class && n == Some('"') {
                    out.push('"');
                    changed = true;
                } else {
                    out.push('\\');
                    if let Some(n) = n {
                        out.push(n);
                    }
                }
            }
            '[' if !in_class => {
                in_class = true;
                out.push(c);
            }
            ']' if in_class => {
                in_class = false;
                out.push(c);
            }
            c => out.push(c),
        }
    }
    if changed { Some(out) } else { None }
}

fn swapcase(v: &[u8]) -> Vec<u8> {
    v.iter().map(|b| if b.is_ascii_alphabetic() { b ^ 0x20 } else { *b }).collect()
}

fn regex_form(ch: &mut Choices<'_>) -> RegexForm {
    match ch.draw(4) {
        0 | 1 => RegexForm::Quoted,
        2 => RegexForm::Raw(0),
        _ => RegexForm::Raw(2),
    }
}

fn regex_values(rx: &Rx, ch: &mut Choices<'_>, n_samples: usize) -> Vec<Vec<u8>> {
    let mut vals: Vec<Vec<u8>> = (0..n_samples).map(|_| rx::gen_sample(rx, ch)).collect();
    let base = vals[0].clone();
    vals.push(Vec::new());
    vals.push(b"\n".to_vec());
    vals.push(swapcase(&base));
    let mut v = vec![0xffu8, 0xc3];
    v.extend(&base);
    vals.push(v);
    let mut v = base.clone();
    v.push(b'\n');
    vals.push(v);
    // `.` must not match a line feed
    if !base.is_empty() {
        let mut v = base.clone();
        let i = ch.draw(v.len());
        v[i] = b'\n';
        vals.push(v);
    }
    vals
}

fn regex_case_n(n_samples: usize, ch: &mut Choices<'_>, st: &mut Stats) -> CaseResult {
    let rx = rx::gen_rx(ch, 2);
    let mut p = rx.pattern();
    if ch.boolean() {
        if let Some(b) = bare_class_quotes(&p) {
            p = b;
            st.class("regex-bare-quote-in-class");
        }
    }
    let form = regex_form(ch);
    let lit = rx::regex_literal(&p, &form);
    let op = ["matches", "~"][ch.draw(2)];
    let text = place(ch.weighted(&[3, 1, 1, 1, 1, 1]), &format!("s {op} {lit}"));
    let vals = regex_values(&rx, ch, n_samples);
    let show = || json!({"scheme": "s: Bytes", "filter": text, "pattern_for_the_regex_engine": p, "form": format!("{form:?}")});
    let scheme: &Scheme = &SCHEME;
    let parser = FilterParser::new(scheme);
    let ast = match parse_with(&parser, &text, &show)? {
        Ok(a) => a,
        Err(e) => return Err(Fail::new("valid-regex-rejected", format!("a regex of the subset was rejected:\n{e}"), show())),
    };
    let (jop, jrhs) = op_rhs(&ast, &show)?;
    if jop != json!("Matches") || jrhs != json!(p) {
        return Err(Fail::new(
            "regex-pattern-altered",
            format!("the AST holds op {jop} rhs {jrhs}; the pattern that must reach the regex engine is {}", json!(p)),
            show(),
        ));
    }
    let filter = catch(|| ast.compile()).map_err(|e| Fail::new("compile-panic", e, show()))?;
    let (mut hit, mut miss) = (false, false);
    for v in &vals {
        st.eval();
        let want = rx.is_match(v);
        let got = exec_on(&filter, v).map_err(|e| Fail::new("execute-failed", e, show()))?;
        if got != want {
            let mut c = show();
            c["value"] = json!(show_bytes(v));
            return Err(Fail::new(
                "regex-match-mismatch",
                format!("value {:?}: engine says {got}, reference matcher (unanchored, bytes, case-sensitive) says {want}", show_bytes(v)),
                c,
            ));
        }
        if want {
            hit = true
        } else {
            miss = true
        }
    }
    st.class(match form {
        RegexForm::Quoted => "regex-quoted",
        RegexForm::Raw(_) => "regex-raw",
    });
    if p.contains('"') {
        st.class("regex-with-quote");
    }
    if p.contains("\\x") {
        st.class("regex-with-hex-escape");
    }
    for (needle, class) in [("\\b", "regex-with-word-boundary"), ("\\B", "regex-with-word-boundary"), ("\\<", "regex-with-word-start-end"), ("\\>", "regex-with-word-start-end"), ("(?", "regex-with-flag-group"), ("{", "regex-with-counted-repeat"), ("\\w", "regex-with-perl-class"), ("\\d", "regex-with-perl-class"), ("\\s", "regex-with-perl-class")] {
        if p.contains(needle) && hit && miss {
            st.class(class);
        }
    }
    if !rx.has_class_or_repeat() && (p.contains("\\<") || p.contains("\\>")) && hit && miss {
        st.class("regex-literal-with-word-start-end");
    }
    if vals.iter().any(|v| std::str::from_utf8(v).is_err() && rx.is_match(v)) {
        st.class("regex-matching-non-utf8-value");
    }
    if rx.has_class_or_repeat() && hit && miss {
        st.nontrivial(&(&text, &vals));
        st.class("regex-nontrivial");
        st.sample("regex", || json!({"filter": text, "values": vals.iter().map(|v| json!([show_bytes(v), rx.is_match(v)])).collect::<Vec<_>>()}));
    }
    Ok(())
}

fn regex_case(ch: &mut Choices<'_>, st: &mut Stats) -> CaseResult {
    regex_case_n(7, ch, st)
}

fn regex_case_thorough(ch: &mut Choices<'_>, st: &mut Stats) -> CaseResult {
    regex_case_n(19, ch, st)
}

/// Invalid regexes must be parse errors, never panics.
fn invalid_regex_case(ch: &mut Choices<'_>, st: &mut Stats) -> CaseResult {
    const FIXED: &[&str] = &[
        "(", ")", "a)", "(a", "*", "*a", "+a", "?a", "[a", "[z-a]", "a{2,1}", "\\", "(?P<n>a)(?P<n>b)", "\\8", "(?=a)", "[[:alpha:]", "[[:foo:]",
        "(?i", "a|*", "(*)", "\\pX", "[]", "a{", "x{4,", "(?P<>a)", "[a-\\d]",
    ];
    let kind = ch.draw(6);
    let p: String = match kind {
        0 => FIXED[ch.draw(FIXED.len())].to_string(),
        k => {
            let base = rx::gen_rx(ch, 1).pattern();
            match k {
                1 => format!("({base}"),
                2 => format!("{base})"),
                3 => format!("*{base}"),
                4 => format!("{base}[z-a]"),
                _ => format!("{base}|(?=a)"),
            }
        }
    };
    let form = regex_form(ch);
    let lit = rx::regex_literal(&p, &form);
    let text = place(ch.weighted(&[3, 1, 1, 1, 1, 1]), &format!("s matches {lit}"));
    let show = || json!({"scheme": "s: Bytes", "filter": text, "invalid_pattern": p});
    let scheme: &Scheme = &SCHEME;
    let parser = FilterParser::new(scheme);
    st.eval();
    match parse_with(&parser, &text, &show)? {
        Err(_) => {
            st.class("invalid-regex-rejected");
            st.nontrivial(&text);
            Ok(())
        }
        Ok(_) => Err(Fail::new("invalid-regex-accepted", "a filter with an invalid regular expression was accepted", show())),
    }
}

/// Idioms: every combination of an anchor prefix, a "match anything"-like body, an anchor
/// suffix and a flag group, on values with and without line breaks (exhaustive).
fn idiom(k: usize) -> Rx {
    use rx::Node::*;
    let (pre, body, suf, flags) = (k % 3, (k / 3) % 10, (k / 30) % 3, (k / 90) % 4);
    let mut seq: Vec<rx::Node> = Vec::new();
    match pre {
        1 => seq.push(Start),
        2 => seq.push(Assert(4)),
        _ => {}
    }
    match body {
        0 => {}
        1 => seq.push(Any),
        2 => seq.push(Repeat(Box::new(Any), 1)),
        3 => seq.push(Repeat(Box::new(Any), 2)),
        4 => seq.push(Repeat(Box::new(Any), 0)),
        5 => seq.push(Repeat(Box::new(Any), 4)),
        6 => seq.push(Group(vec![vec![Repeat(Box::new(Any), 1)]])),
        7 => seq.push(Repeat(Box::new(Class { neg: true, items: vec![rx::ClassItem::One(b'a')] }), 1)),
        8 => seq.push(Repeat(Box::new(Lit(b'a')), 1)),
        _ => seq.push(Repeat(Box::new(Perl(2, true)), 1)),
    }
    match suf {
        1 => seq.push(End),
        2 => seq.push(Assert(5)),
        _ => {}
    }
    let alts = vec![seq];
    match flags {
        0 => Rx { alts },
        1 => Rx { alts: vec![vec![Flags { ci: false, dotall: true, multi: false, alts }]] },
        2 => Rx { alts: vec![vec![Flags { ci: false, dotall: false, multi: true, alts }]] },
        _ => Rx { alts: vec![vec![Flags { ci: true, dotall: true, multi: true, alts }]] },
    }
}

const IDIOMS: usize = 3 * 10 * 3 * 4;
const IDIOM_VALUES: [&[u8]; 12] = [b"", b"a", b"b", b"\n", b"a\nb", b"first\nsecond", b"aaa\n", b"\naaa", b"\r\n", b"x\ry", b"\xff\xfe", b"ab c"];

fn idiom_case(ch: &mut Choices<'_>, st: &mut Stats) -> CaseResult {
    let k = ch.draw(IDIOMS);
    let raw = ch.draw(2) == 1;
    let rx = idiom(k);
    let p = rx.pattern();
    let lit = rx::regex_literal(&p, &if raw { RegexForm::Raw(1) } else { RegexForm::Quoted });
    let text = place(k / 7, &format!("s matches {lit}"));
    let show = || json!({"scheme": "s: Bytes", "filter": text, "pattern_for_the_regex_engine": p});
    let scheme: &Scheme = &SCHEME;
    let parser = FilterParser::new(scheme);
    let ast = match parse_with(&parser, &text, &show)? {
        Ok(a) => a,
        Err(e) => return Err(Fail::new("valid-regex-rejected", format!("a regex idiom was rejected:\n{e}"), show())),
    };
    let filter = catch(|| ast.compile()).map_err(|e| Fail::new("compile-panic", e, show()))?;
    for v in IDIOM_VALUES {
        st.eval();
        let want = rx.is_match(v);
        let got = exec_on(&filter, v).map_err(|e| Fail::new("execute-failed", e, show()))?;
        if got != want {
            let mut c = show();
            c["value"] = json!(show_bytes(v));
            return Err(Fail::new("regex-match-mismatch", format!("value {:?}: engine says {got}, reference matcher says {want}", show_bytes(v)), c));
        }
    }
    st.class("regex-idiom");
    st.nontrivial(&text);
    Ok(())
}

// ---------------------------------------------------------------------------
// (b) wildcards

const WILD_ALPHABET: [u8; 5] = [b'a', b'B', b'*', b'\\', b'?'];
const MAX_WILD_LEN: usize = 8;
/// usize::MAX stands for "no limit configured" (the default parser).
const STAR_LIMITS: [usize; 6] = [usize::MAX, 0, 1, 2, 3, 4];

fn expand(t: &[WTok], fill: &[u8]) -> Vec<u8> {
    let mut out = Vec::new();
    for tok in t {
        match tok {
            WTok::Star => out.extend_from_slice(fill),
            WTok::Byte(b) => out.push(*b),
        }
    }
    out
}

fn wild_values(t: &[WTok], pattern: &[u8]) -> Vec<Vec<u8>> {
    let mut s: BTreeSet<Vec<u8>> = BTreeSet::new();
    let v0 = expand(t, b"");
    let v1 = expand(t, b"Ab");
    let v2 = expand(t, b"*");
    s.insert(swapcase(&v0));
    s.insert(v1.to_ascii_uppercase());
    s.insert(v1.to_ascii_lowercase());
    let mut x = v0.clone();
    x.push(b'a');
    s.insert(x);
    let mut x = vec![b'B'];
    x.extend(&v0);
    s.insert(x);
    if !v0.is_empty() {
        s.insert(v0[..v0.len() - 1].to_vec());
        s.insert(v0[1..].to_vec());
        // `?` is an ordinary character, not "any one byte"
        s.insert(v0.iter().map(|b| if *b == b'?' { b'b' } else { *b }).collect());
        // only ASCII letters fold
        s.insert(v0.iter().map(|b| b ^ 0x20).collect());
    }
    if v1.len() > 1 {
        s.insert(v1[1..].to_vec());
    }
    // long values: a star stands for 253..255 / 510 filler bytes, so that the literal parts
    // straddle offsets 256 and 512; in both cases and with the cases swapped
    if t.iter().any(|x| *x == WTok::Star) {
        for n in [253usize, 254, 255, 510] {
            let long = expand(t, &vec![b'x'; n]);
            s.insert(long.to_ascii_uppercase());
            s.insert(swapcase(&long));
            s.insert(long);
        }
    }
    s.insert(pattern.to_vec());
    s.insert(v0);
    s.insert(v1);
    s.insert(v2);
    for f in [&b""[..], b"a", b"A", b"b", b"B", b"*", b"\\", b"?", b"aB", b"Ab", b"a?", b"aa", b"\\*"] {
        s.insert(f.to_vec());
    }
    s.into_iter().collect()
}

struct WildStats {
    accepted: bool,
    ci_only: bool,
}

/// One pattern, one literal rendering, both operators, the given star limits.
fn wild_check(pattern: &[u8], lit: &str, form: &str, limits: &[usize], run_values: bool, st: &mut Stats) -> Result<WildStats, Fail> {
    let tokens = rx::wild_parse(pattern);
    let scheme: &Scheme = &SCHEME;
    let mut out = WildStats { accepted: false, ci_only: false };
    for (strict, opname, jopname) in [(false, "wildcard", "Wildcard"), (true, "strict wildcard", "Strict Wildcard")] {
        for (li, &limit) in limits.iter().enumerate() {
            let text = place(pattern.len() + pattern.iter().map(|b| *b as usize).sum::<usize>() + li + strict as usize, &format!("s {opname} {lit}"));
            let show = || {
                json!({
                    "scheme": "s: Bytes", "filter": text, "pattern_bytes": show_bytes(pattern), "literal_form": form,
                    "wildcard_star_limit": if limit == usize::MAX { json!("default (unlimited)") } else { json!(limit) },
                })
            };
            let mut parser = FilterParser::new(scheme);
            if limit != usize::MAX {
                parser.wildcard_set_star_limit(limit);
            }
            let why_invalid: Option<&str> = match &tokens {
                Err(()) => Some("invalid escape or trailing backslash"),
                Ok(t) if rx::wild_double_star(t) => Some("double star"),
                Ok(t) if rx::wild_stars(t) > limit => Some("more stars than the limit"),
                Ok(_) => None,
            };
            st.eval();
            let parsed = parse_with(&parser, &text, &show)?;
            let ast = match (parsed, why_invalid) {
                (Err(_), Some(_)) => {
                    st.class("wildcard-rejected");
                    continue;
                }
                (Ok(_), Some(why)) => {
                    return Err(Fail::new("invalid-wildcard-accepted", format!("accepted although the pattern has: {why}"), show()));
                }
                (Err(e), None) => {
                    return Err(Fail::new("valid-wildcard-rejected", format!("a valid wildcard pattern within the star limit was rejected:\n{e}"), show()));
                }
                (Ok(ast), None) => ast,
            };
            out.accepted = true;
            st.class("wildcard-accepted");
            let (jop, jrhs) = op_rhs(&ast, &show)?;
            if jop != json!(jopname) || jrhs != bytes_json(pattern) {
                return Err(Fail::new(
                    "wildcard-pattern-altered",
                    format!("the AST holds op {jop} rhs {jrhs}; expected {} with pattern {}", json!(jopname), bytes_json(pattern)),
                    show(),
                ));
            }
            if !run_values || limit != limits[0] {
                continue;
            }
            let t = tokens.as_ref().unwrap();
            let filter = catch(|| ast.compile()).map_err(|e| Fail::new("compile-panic", e, show()))?;
            for v in wild_values(t, pattern) {
                st.eval();
                let want = rx::wild_match(t, &v, strict);
                let got = exec_on(&filter, &v).map_err(|e| Fail::new("execute-failed", e, show()))?;
                if got != want {
                    let mut c = show();
                    c["value"] = json!(show_bytes(&v));
                    return Err(Fail::new(
                        if strict { "strict-wildcard-match-mismatch" } else { "wildcard-match-mismatch" },
                        format!("value {:?}: engine says {got}, reference says {want}", show_bytes(&v)),
                        c,
                    ));
                }
                if !strict && want && !rx::wild_match(t, &v, true) {
                    out.ci_only = true;
                }
            }
        }
    }
    Ok(out)
}

fn wild_case(ch: &mut Choices<'_>, st: &mut Stats) -> CaseResult {
    let n = ch.draw(MAX_WILD_LEN + 1);
    let pattern: Vec<u8> = (0..n).map(|_| WILD_ALPHABET[ch.draw(WILD_ALPHABET.len())]).collect();
    // quoted: `\` must be written `\\`; the hex / octal spellings denote the same bytes
    let extra_policy = 1 + (n as u8 + pattern.first().copied().unwrap_or(0)) % 2;
    let forms: [(String, &str); 4] = [
        (quote_bytes(&pattern, 0), "quoted"),
        (quote_bytes(&pattern, extra_policy), "quoted, every byte escaped"),
        (BytesLit { v: pattern.clone(), form: BytesForm::Raw(0) }.text(), "raw"),
        (BytesLit { v: pattern.clone(), form: BytesForm::Raw(2) }.text(), "raw ##"),
    ];
    let mut any_ci = false;
    let mut accepted = false;
    for (i, (lit, form)) in forms.iter().enumerate() {
        // all star limits for the plain quoted and raw forms
        let limits: &[usize] = if i % 2 == 0 { &STAR_LIMITS } else { &STAR_LIMITS[..1] };
        let r = wild_check(&pattern, lit, form, limits, true, st)?;
        any_ci |= r.ci_only;
        accepted |= r.accepted;
    }
    let stars = rx::wild_parse(&pattern).map(|t| rx::wild_stars(&t)).unwrap_or(0);
    match rx::wild_parse(&pattern) {
        Err(()) => st.class("wildcard-pattern-invalid-escape"),
        Ok(t) if rx::wild_double_star(&t) => st.class("wildcard-pattern-double-star"),
        Ok(_) => st.class(&format!("wildcard-pattern-valid-stars-{stars}")),
    }
    if accepted && stars >= 1 && any_ci {
        st.nontrivial(&pattern);
        st.sample("wildcard", || json!({"pattern": show_bytes(&pattern), "forms": forms.iter().map(|f| f.0.clone()).collect::<Vec<_>>()}));
    }
    Ok(())
}

fn wild_total(max_len: usize) -> u64 {
    (0..=max_len).map(|k| 5u64.pow(k as u32)).sum()
}

fn wild_key(mut i: u64) -> Vec<u32> {
    let mut n = 0usize;
    while i >= 5u64.pow(n as u32) {
        i -= 5u64.pow(n as u32);
        n += 1;
    }
    let mut k = vec![n as u32];
    for _ in 0..n {
        k.push((i % 5) as u32);
        i /= 5;
    }
    k
}

/// Longer patterns over a wider byte alphabet (non-UTF-8, quotes, non-ASCII
/// "letters" that must not fold), one random star limit.
fn wild_random_case(ch: &mut Choices<'_>, st: &mut Stats) -> CaseResult {
    const ALPHA: &[u8] = b"azAZ*\\?*\\ \"#0\xff\xc3\xa9\x89\xe9\xc9\n";
    let n = ch.range(1, 16);
    let pattern: Vec<u8> = (0..n).map(|_| ALPHA[ch.draw(ALPHA.len())]).collect();
    let form = match ch.draw(4) {
        0 => BytesForm::Quoted(0),
        1 => BytesForm::Quoted(1 + ch.draw(2) as u8),
        2 => BytesForm::Raw(0),
        _ => BytesForm::Raw(1 + ch.draw(3) as u8),
    };
    let lit = BytesLit { v: pattern.clone(), form };
    let limit = STAR_LIMITS[ch.draw(STAR_LIMITS.len())];
    let form_name = format!("{:?}", lit.effective());
    let r = wild_check(&pattern, &lit.text(), &form_name, &[limit], true, st)?;
    if std::str::from_utf8(&pattern).is_err() {
        st.class("wildcard-random-non-utf8-pattern");
    }
    let stars = rx::wild_parse(&pattern).map(|t| rx::wild_stars(&t)).unwrap_or(0);
    if r.accepted && stars >= 1 && r.ci_only {
        st.nontrivial(&(&pattern, limit));
        st.class("wildcard-random-nontrivial");
    }
    Ok(())
}

// ---------------------------------------------------------------------------
// (c) regex compiled-size limit

const SIZE_LIMITS: [usize; 10] = [0, 64, 1 << 10, 1 << 12, 1 << 14, 1 << 16, 1 << 18, 1 << 20, 1 << 22, usize::MAX];
const REPS: [usize; 7] = [1, 8, 64, 512, 2048, 8192, 20000];

fn size_case(ch: &mut Choices<'_>, st: &mut Stats) -> CaseResult {
    let family = ch.draw(3);
    let n = REPS[ch.draw(REPS.len())];
    let raw = ch.draw(2) == 1;
    let (p, unit): (String, &[u8]) = match family {
        0 => (format!("x{{{n}}}"), b"x"),
        1 => (format!("[a-z]{{{n}}}"), b"q"),
        _ => (format!("(ab|cd){{{n}}}"), b"cd"),
    };
    let lit = rx::regex_literal(&p, &if raw { RegexForm::Raw(1) } else { RegexForm::Quoted });
    let text = place(ch.weighted(&[3, 1, 1, 1, 1, 1]), &format!("s matches {lit}"));
    let scheme: &Scheme = &SCHEME;
    // outcome per limit, ascending; usize::MAX = default parser
    let mut outcomes: Vec<(usize, bool)> = Vec::new();
    for &limit in &SIZE_LIMITS {
        let show = || json!({"scheme": "s: Bytes", "filter": text, "regex_compiled_size_limit": if limit == usize::MAX { json!("default") } else { json!(limit) }});
        let mut parser = FilterParser::new(scheme);
        if limit != usize::MAX {
            parser.regex_set_compiled_size_limit(limit);
        }
        st.eval();
        match parse_with(&parser, &text, &show)? {
            Ok(ast) => {
                outcomes.push((limit, true));
                st.class("size-limit-accepted");
                // thresholds are not asserted, except where no accounting could fit:
                // >= 2048 mandatory repetitions need >= 2048 states, a limit of <= 1 KiB cannot hold them
                if limit <= 1024 && n >= 2048 {
                    return Err(Fail::new(
                        "size-limit-not-enforced",
                        format!("{n} mandatory repetitions were accepted under regex_compiled_size_limit = {limit} bytes"),
                        show(),
                    ));
                }
                // an accepted one still means what it says
                let filter = catch(|| ast.compile()).map_err(|e| Fail::new("compile-panic", e, show()))?;
                let full: Vec<u8> = unit.iter().cycle().take(unit.len() * n).cloned().collect();
                let mut padded = vec![b'-'];
                padded.extend(&full);
                for (v, want) in [(&padded, true), (&full[unit.len()..].to_vec(), false)] {
                    let got = exec_on(&filter, v).map_err(|e| Fail::new("execute-failed", e, show()))?;
                    if got != want {
                        return Err(Fail::new("regex-match-mismatch", format!("{n} repetitions: engine says {got} on a value of length {}, expected {want}", v.len()), show()));
                    }
                }
            }
            Err(e) => {
                outcomes.push((limit, false));
                st.class("size-limit-rejected");
                if limit == usize::MAX {
                    return Err(Fail::new("rejected-at-default-size-limit", format!("rejected with the default settings:\n{e}"), show()));
                }
                // wording is not part of the property: recorded only
                if e.to_ascii_lowercase().contains("size limit") {
                    st.class("size-rejection-names-the-limit");
                }
            }
        }
    }
    // the verdict is a function of (pattern, limit): asking again in descending order of the
    // limits - after the pattern has been built under every larger limit on this thread - and
    // through the settings route must give the same answers
    for &(limit, ok) in outcomes.iter().rev() {
        let show = || json!({"scheme": "s: Bytes", "filter": text, "regex_compiled_size_limit": if limit == usize::MAX { json!("default") } else { json!(limit) }, "asked": "again, after larger limits, through ParserSettings"});
        let settings = if limit == usize::MAX { wirefilter::ParserSettings::default() } else { wirefilter::ParserSettings { regex_compiled_size_limit: limit, ..Default::default() } };
        let parser = FilterParser::with_settings(scheme, settings);
        st.eval();
        let again = parse_with(&parser, &text, &show)?.is_ok();
        if again != ok {
            return Err(Fail::new(
                "size-limit-verdict-depends-on-history",
                format!("under regex_compiled_size_limit = {limit} the filter was {} when asked first (ascending limits) and {} when asked again after larger limits", if ok { "accepted" } else { "rejected" }, if again { "accepted" } else { "rejected" }),
                show(),
            ));
        }
    }
    // rejected at L  =>  rejected at every smaller L'
    let mut seen_accept = false;
    for (limit, ok) in &outcomes {
        if *ok {
            seen_accept = true;
        } else if seen_accept {
            return Err(Fail::new(
                "size-limit-not-monotone",
                format!("rejected at limit {limit} although accepted at a smaller limit: {outcomes:?}"),
                json!({"filter": text, "outcomes": format!("{outcomes:?}")}),
            ));
        }
    }
    if outcomes.iter().any(|o| o.1) && outcomes.iter().any(|o| !o.1) {
        st.nontrivial(&text);
        st.class("size-limit-both-outcomes");
        st.sample("size-limit", || json!({"filter": text, "accepted_from_limit": outcomes.iter().find(|o| o.1).map(|o| o.0)}));
    }
    Ok(())
}

fn size_key(i: u64) -> Vec<u32> {
    let fam = i % 3;
    let n = (i / 3) % REPS.len() as u64;
    let raw = i / (3 * REPS.len() as u64);
    vec![fam as u32, n as u32, raw as u32]
}

// ---------------------------------------------------------------------------

pub fn subs() -> Vec<Sub> {
    vec![
        Sub { name: "regex", f: Box::new(regex_case) },
        Sub { name: "regex-idioms", f: Box::new(idiom_case) },
        Sub { name: "regex-more-values", f: Box::new(regex_case_thorough) },
        Sub { name: "regex-invalid", f: Box::new(invalid_regex_case) },
        Sub { name: "wildcards", f: Box::new(wild_case) },
        Sub { name: "wildcards-random", f: Box::new(wild_random_case) },
        Sub { name: "regex-size-limit", f: Box::new(size_case) },
    ]
}

pub fn run(run: &Run) {
    run.rule(
        "regex: patterns from the generator's AST (literals incl. escaped metacharacters and \\xHH, ., classes with ranges/negation/quotes/brackets, ? * +, \
         alternation, groups, ^ $) written as `s matches|~ <quoted | raw literal>`, 13 (thorough 25) values each (expansions, surrounded, perturbed, case-flipped, \
         shortened, empty, \\n, non-UTF-8 prefix): AST rhs == pattern and match == reference matcher; \
         regex-invalid: fixed and derived invalid patterns must be Err, never a panic; \
         wildcards: EVERY pattern over {a, B, *, \\, ?} up to length 6 (quick) / 8 (thorough) x {quoted, quoted-all-escaped, raw, raw##} x {wildcard, strict wildcard} \
         x star limits {default, 0..4}: Err exactly for invalid escape / trailing backslash / ** / stars > limit, AST rhs == pattern bytes, accepted ones run on ~25 values \
         against the reference; wildcards-random: longer patterns over a wider byte alphabet; regex-size-limit: x{n}, [a-z]{n}, (ab|cd){n} x 10 limits (monotone, default accepts); \
         non-trivial = regex with a class or repetition whose value set has a match and a non-match | wildcard with >= 1 star and a value matching only case-insensitively | size pattern with both outcomes",
    );
    run.assume("nested character classes and a leading ] in a class are not generated (the quoted scanner's treatment is unspecified)");
    run.assume("regex size thresholds and error wording are not asserted, only monotonicity and acceptance at the default limit");
    let subs = subs();
    run_regressions(run, &subs);
    let f = |n: &str| find_sub(&subs, n).unwrap();
    match run.tier {
        Tier::Quick => run.random("regex", 20_000, 160, &*f("regex").f),
        Tier::Thorough => run.random("regex-more-values", 1_500_000, 260, &*f("regex-more-values").f),
    }
    run.enumerate("regex-idioms", (IDIOMS * 2) as u64, &|i| vec![(i / 2) as u32, (i % 2) as u32], &*f("regex-idioms").f);
    run.random("regex-invalid", run.tier.pick(4_000, 100_000), 60, &*f("regex-invalid").f);
    let l = run.tier.pick(6, MAX_WILD_LEN);
    run.enumerate("wildcards", wild_total(l), &wild_key, &*f("wildcards").f);
    run.random("wildcards-random", run.tier.pick(20_000, 2_000_000), 40, &*f("wildcards-random").f);
    let total = 3 * REPS.len() as u64 * 2;
    run.enumerate("regex-size-limit", total, &size_key, &*f("regex-size-limit").f);
}

//! C04 - parsing accepts exactly the well-typed filters; accepted ones never
//! fail later.

use crate::ast::*;
use crate::choices::Choices;
use crate::engine::*;
use crate::eval::{self, Env, Pres};
use crate::funcs::{self, Kind};
use crate::genr::{self as g, Gen, GenCfg};
use crate::lists::ListKind;
use crate::model::*;
use crate::runner::*;
use crate::scheme::{ListState, Recipe};
use crate::typeck;
use serde_json::{Value, json};
use std::sync::OnceLock;

// ---------------------------------------------------------------------------
// The fixed rich scheme of the matrices

fn fs(name: &str, ty: MType) -> FieldSpec {
    FieldSpec { name: name.into(), ty, optional: true }
}

pub fn matrix_recipe() -> Recipe {
    use MType::*;
    let a = |t: MType| MType::array(t);
    let m = |t: MType| MType::map(t);
    Recipe {
        fields: vec![
            fs("n", Int),
            fs("s", Bytes),
            fs("ip", Ip),
            fs("t", Bool),
            fs("arr_n", a(Int)),
            fs("arr_s", a(Bytes)),
            fs("arr_ip", a(Ip)),
            fs("arr_b", a(Bool)),
            fs("map_n", m(Int)),
            fs("map_s", m(Bytes)),
            fs("map_ip", m(Ip)),
            fs("map_b", m(Bool)),
            fs("aab", a(a(Bool))),
            fs("aan", a(a(Int))),
            fs("man", m(a(Int))),
            fs("amn", a(m(Int))),
            fs("n2", Int),
            fs("s2", Bytes),
            fs("t2", Bool),
            fs("arr_s2", a(Bytes)),
        ],
        nil_ne: true,
        funcs: funcs::sigs().iter().map(|s| s.name.to_string()).chain(std::iter::once("ctxfn".to_string())).collect(),
        concat: true,
        lists: vec![(Int, ListKind::Always), (Ip, ListKind::Never)],
    }
}

fn matrix_ctxs(r: &Recipe) -> Vec<MCtx> {
    let mut out = vec![MCtx { vals: vec![None; r.fields.len()] }];
    for seed in 1u32..=3 {
        let data: Vec<u32> = (0..600u32).map(|i| (i.wrapping_mul(2654435761).wrapping_add(seed.wrapping_mul(40503))) ^ (i << 7).wrapping_mul(seed + 977)).collect();
        let mut ch = Choices::new(&data);
        let mut c = g::gen_ctx(&mut ch, r, &g::Hints::default());
        // make sure containers are non-empty in at least one context
        if seed == 1 {
            for (f, v) in r.fields.iter().zip(c.vals.iter_mut()) {
                *v = Some(sample_value(&f.ty));
            }
        }
        out.push(c);
    }
    out
}

fn sample_value(t: &MType) -> MVal {
    match t {
        MType::Bool => MVal::Bool(true),
        MType::Int => MVal::Int(3),
        MType::Bytes => MVal::Bytes(b"ab".to_vec()),
        MType::Ip => MVal::Ip(v4(10, 1, 2, 3)),
        MType::Array(e) => MVal::Array((**e).clone(), vec![sample_value(e), sample_value(e)]),
        MType::Map(e) => MVal::Map((**e).clone(), [(b"k".to_vec(), sample_value(e)), (b"z".to_vec(), sample_value(e))].into_iter().collect()),
    }
}

#[derive(Clone, Debug)]
struct TextCase {
    class: &'static str,
    text: String,
    /// Some(expected acceptance) or None for the undocumented grey zone
    expect: Option<bool>,
    value_expr: bool,
}

// literal kinds
#[derive(Clone, Copy, PartialEq, Eq, Debug)]
enum LK {
    IntScalar,
    IntRange,
    BytesText,
    BytesHex,
    IpAddr,
    IpNet,
    SetInt,
    SetBytes,
    SetIp,
    SetEmpty,
    List,
    None,
}

fn literal_tokens() -> Vec<(LK, &'static str)> {
    vec![
        (LK::IntScalar, "10"),
        (LK::IntScalar, "-5"),
        (LK::IntScalar, "0x1F"),
        (LK::IntScalar, "017"),
        (LK::IntRange, "1..5"),
        (LK::BytesText, "\"ab\""),
        (LK::BytesText, "r#\"ab\"#"),
        (LK::BytesHex, "1a:2b:3c"),
        (LK::IpAddr, "10.1.2.3"),
        (LK::IpAddr, "2001:db8::1"),
        (LK::IpNet, "10.1.0.0/16"),
        (LK::IpNet, "2001:db8::/32"),
        (LK::IpNet, "10.1.2.3..10.1.2.9"),
        (LK::SetInt, "{10 0x1F}"),
        (LK::SetInt, "{1..5 7 -3..-1}"),
        (LK::SetBytes, "{\"ab\" r\"c\"}"),
        (LK::SetBytes, "{1a:2b 3c-4d}"),
        (LK::SetIp, "{10.1.2.3 2001:db8::1}"),
        (LK::SetIp, "{10.1.0.0/16 10.1.2.3..10.1.2.9 ::/0}"),
        (LK::SetEmpty, "{}"),
        (LK::SetEmpty, "{ }"),
        (LK::List, "$nm"),
        (LK::List, "$a.b_1"),
        (LK::None, ""),
    ]
}

const OPS: &[&str] = &[
    "==", "!=", "<", "<=", ">", ">=", "eq", "ne", "lt", "le", "gt", "ge", "&", "bitwise_and", "contains", "matches", "~",
    "wildcard", "strict wildcard", "in", "",
];

fn op_accepts(ty: &MType, op: &str, lk: LK) -> bool {
    let ordering = matches!(op, "==" | "!=" | "<" | "<=" | ">" | ">=" | "eq" | "ne" | "lt" | "le" | "gt" | "ge");
    match ty {
        MType::Bool => op.is_empty() && lk == LK::None,
        MType::Int => {
            ((ordering || op == "&" || op == "bitwise_and") && lk == LK::IntScalar)
                || (op == "in" && matches!(lk, LK::SetInt | LK::SetEmpty | LK::List))
        }
        MType::Bytes => {
            ((ordering || op == "contains") && matches!(lk, LK::BytesText | LK::BytesHex))
                || (matches!(op, "matches" | "~" | "wildcard" | "strict wildcard") && lk == LK::BytesText)
                || (op == "in" && matches!(lk, LK::SetBytes | LK::SetEmpty))
        }
        MType::Ip => (ordering && lk == LK::IpAddr) || (op == "in" && matches!(lk, LK::SetIp | LK::SetEmpty | LK::List)),
        _ => false,
    }
}

fn text_cases() -> &'static Vec<TextCase> {
    static CASES: OnceLock<Vec<TextCase>> = OnceLock::new();
    CASES.get_or_init(|| {
        let r = matrix_recipe();
        let mut out = Vec::new();
        // (left type x operator x literal kind)
        for f in r.fields.iter().take(16) {
            for op in OPS {
                for (lk, tok) in literal_tokens() {
                    if op.is_empty() != (lk == LK::None) {
                        // an operator needs a right-hand side and vice versa; the
                        // dangling forms are covered as rejected too
                        let text = format!("{} {} {}", f.name, op, tok);
                        out.push(TextCase { class: "matrix-type-op-literal", text, expect: Some(false), value_expr: false });
                        continue;
                    }
                    let text = format!("{} {} {}", f.name, op, tok);
                    let expect = op_accepts(&f.ty, op, lk);
                    out.push(TextCase { class: "matrix-type-op-literal", text, expect: Some(expect), value_expr: false });
                }
            }
        }
        // (container type x index kind)
        let idx: Vec<(&str, u8)> = vec![
            // (text, kind) kind: 0 array index ok, 1 map key ok, 2 each, 9 malformed
            ("[0]", 0),
            ("[1]", 0),
            ("[ 0 ]", 0),
            ("[0x1]", 0),
            ("[017]", 0),
            ("[4294967295]", 0),
            ("[\"k\"]", 1),
            ("[ \"\" ]", 1),
            ("[\"\\x6b\\153\"]", 1),
            ("[*]", 2),
            ("[-1]", 9),
            ("[4294967296]", 9),
            ("[r\"k\"]", 9),
            ("[6b:6b]", 9),
            ("[\"\\xff\"]", 9),
            ("[]", 9),
            ("[0", 9),
            ("[*", 9),
            ("[ * ]", 9),
            ("[0..1]", 9),
        ];
        let finish = |elem: &MType, starred: bool, lhs: &str| -> Option<String> {
            let cmp = match elem {
                MType::Int => format!("{lhs} == 3"),
                MType::Bytes => format!("{lhs} == \"ab\""),
                MType::Ip => format!("{lhs} == 10.1.2.3"),
                MType::Bool => lhs.to_string(),
                MType::Array(e) if **e == MType::Bool && !starred => return Some(format!("any({lhs})")),
                MType::Array(e) | MType::Map(e) if !starred => {
                    let inner = match &**e {
                        MType::Int => format!("{lhs}[*] == 3"),
                        MType::Bool => format!("{lhs}[*]"),
                        _ => return None,
                    };
                    return Some(format!("any({inner})"));
                }
                _ => return None,
            };
            Some(if starred {
                // a bare boolean index expression with [*] is only a logical
                // expression when parenthesised
                if *elem == MType::Bool { format!("any(({cmp}))") } else { format!("any({cmp})") }
            } else {
                cmp
            })
        };
        for f in r.fields.iter().take(16) {
            for (it, k) in &idx {
                let lhs = format!("{}{}", f.name, it);
                let (ok, elem) = match (&f.ty, k) {
                    (MType::Array(e), 0) | (MType::Map(e), 1) | (MType::Array(e), 2) | (MType::Map(e), 2) => (true, (**e).clone()),
                    _ => (false, MType::Int),
                };
                if ok {
                    if let Some(text) = finish(&elem, *k == 2, &lhs) {
                        out.push(TextCase { class: "matrix-container-index", text, expect: Some(true), value_expr: false });
                    }
                    // as a value expression: accepted iff free of [*]
                    out.push(TextCase { class: "matrix-value-expr", text: lhs.clone(), expect: Some(*k != 2), value_expr: true });
                } else {
                    for suffix in ["", " == 3", " == \"ab\"", "[*] == 3"] {
                        out.push(TextCase { class: "matrix-container-index", text: format!("{lhs}{suffix}"), expect: Some(false), value_expr: false });
                    }
                    out.push(TextCase { class: "matrix-value-expr", text: lhs.clone(), expect: Some(false), value_expr: true });
                }
            }
            // two-level paths
            for (it1, k1) in idx.iter().take(10) {
                for (it2, k2) in idx.iter().take(10) {
                    let lhs = format!("{}{}{}", f.name, it1, it2);
                    let step = |t: &MType, k: u8| -> Option<MType> {
                        match (t, k) {
                            (MType::Array(e), 0) | (MType::Map(e), 1) | (MType::Array(e), 2) | (MType::Map(e), 2) => Some((**e).clone()),
                            _ => None,
                        }
                    };
                    let t2 = step(&f.ty, *k1).and_then(|t| step(&t, *k2));
                    let starred = *k1 == 2 || *k2 == 2;
                    match t2 {
                        Some(elem) => {
                            if let Some(text) = finish(&elem, starred, &lhs) {
                                out.push(TextCase { class: "matrix-container-index-2", text, expect: Some(true), value_expr: false });
                            }
                            out.push(TextCase { class: "matrix-value-expr", text: lhs, expect: Some(!starred), value_expr: true });
                        }
                        None => {
                            out.push(TextCase { class: "matrix-container-index-2", text: format!("any({lhs} == 3)"), expect: Some(false), value_expr: false });
                            out.push(TextCase { class: "matrix-value-expr", text: lhs, expect: Some(false), value_expr: true });
                        }
                    }
                }
            }
        }
        // (operand type pairs x logical operator), plain / parenthesised / negated
        #[derive(Clone, Copy, PartialEq)]
        enum K {
            B,
            A,
            Grey,
            Bad,
        }
        let operands: Vec<(&str, K)> = vec![
            ("t", K::B),
            ("n == 3", K::B),
            ("(t2)", K::B),
            ("not t", K::B),
            ("!(n in {1 2})", K::B),
            ("any(arr_b)", K::B),
            ("all(arr_n[*] == 3)", K::B),
            ("isodd(n)", K::B),
            ("arr_b", K::A),
            ("arr_n[*] == 3", K::A),
            ("(arr_b)", K::A),
            ("not arr_b", K::A),
            ("isodd(arr_n[*])", K::A),
            ("map_n[*] & 1", K::A),
            ("aab[0]", K::A),
            ("aan[*][*] < 3", K::A),
            ("map_b", K::Grey),
            ("not map_b", K::Grey),
            ("n", K::Bad),
            ("arr_n", K::Bad),
            ("s", K::Bad),
            ("aab", K::Bad),
        ];
        for (x, kx) in &operands {
            for (y, ky) in &operands {
                for op in ["and", "&&", "or", "||", "xor", "^^"] {
                    let kind = match (kx, ky) {
                        (K::Bad, _) | (_, K::Bad) => Some(K::Bad),
                        (K::Grey, _) | (_, K::Grey) => None,
                        (K::B, K::B) => Some(K::B),
                        (K::A, K::A) => Some(K::A),
                        _ => Some(K::Bad),
                    };
                    let top = format!("{x} {op} {y}");
                    let quant = format!("any(({x} {op} {y}))");
                    let nested = format!("not ({x} {op} {y}) {op} {x}");
                    out.push(TextCase { class: "matrix-logical-operands", text: top, expect: kind.map(|k| k == K::B), value_expr: false });
                    out.push(TextCase { class: "matrix-logical-operands", text: quant, expect: kind.map(|k| k == K::A), value_expr: false });
                    out.push(TextCase {
                        class: "matrix-logical-operands",
                        text: nested,
                        expect: match (kind, kx) {
                            (Some(K::B), K::B) => Some(true),
                            (None, _) => None,
                            _ => Some(false),
                        },
                        value_expr: false,
                    });
                }
            }
        }
        // quantifier x argument shape
        let qargs: Vec<(&str, Option<bool>)> = vec![
            ("arr_b", Some(true)),
            ("aab[0]", Some(true)),
            ("aab[1]", Some(true)),
            ("(arr_b)", Some(true)),
            ("not arr_b", Some(true)),
            ("arr_n[*] == 3", Some(true)),
            ("arr_s[*] contains \"a\"", Some(true)),
            ("map_n[*] in {1 2}", Some(true)),
            ("(arr_n[*] == 3 and arr_b)", Some(true)),
            ("not arr_b and arr_b", Some(true)),
            ("isodd(arr_n[*])", Some(true)),
            ("isodd(arr_n[*])[*]", Some(false)),
            ("aan[*][*] == 3", Some(true)),
            ("b2a(t)", Some(true)),
            ("a2a(arr_b)", Some(true)),
            ("arr_b[*]", Some(false)),
            ("aab[*]", Some(false)),
            ("aab", Some(false)),
            ("t", Some(false)),
            ("(t)", Some(false)),
            ("n == 3", Some(false)),
            ("n", Some(false)),
            ("arr_n", Some(false)),
            ("arr_n[*]", Some(false)),
            ("3", Some(false)),
            ("\"ab\"", Some(false)),
            ("10.1.2.3", Some(false)),
            ("", Some(false)),
            ("arr_b, arr_b", Some(false)),
            ("any(arr_b)", Some(false)),
            ("map_b", Some(false)),
            ("map_b[*]", Some(false)),
            ("(map_b)", None),
            ("arr_n[*] == 3 and arr_b", Some(false)),
        ];
        for q in ["any", "all"] {
            for (a, e) in &qargs {
                for (pre, post) in [("", ""), ("not ", ""), ("(", ")"), ("t and ", "")] {
                    out.push(TextCase { class: "matrix-quantifier-argument", text: format!("{pre}{q}({a}){post}"), expect: *e, value_expr: false });
                }
                out.push(TextCase { class: "matrix-quantifier-argument", text: format!("{q} ( {a} )"), expect: *e, value_expr: false });
            }
        }
        // top level must be a plain boolean; value expressions free of [*]
        for (t, e) in [("arr_b", false), ("not arr_b", false), ("arr_n[*] == 3", false), ("(arr_b)", false), ("isodd(arr_n[*])", false), ("t", true), ("(t)", true)] {
            out.push(TextCase { class: "matrix-top-level", text: t.into(), expect: Some(e), value_expr: false });
        }
        for (t, e) in [
            ("n", true),
            ("arr_n", true),
            ("arr_n[0]", true),
            ("map_b", true),
            ("aab[0]", true),
            ("len(s)", true),
            ("len(arr_s[0])", true),
            ("len(arr_s[*])", true),
            ("len(arr_s[*])[0]", true),
            ("arr_n[*]", false),
            ("len(arr_s[*])[*]", false),
            ("aan[*][0]", false),
            ("aan[0][*]", false),
            ("n == 3", false),
            ("3", false),
            ("(n)", false),
            ("unknown", false),
        ] {
            out.push(TextCase { class: "matrix-value-expr", text: t.into(), expect: Some(e), value_expr: true });
        }
        out
    })
}

fn run_accepted_filter(text: &str, scheme: &wirefilter::Scheme, ast: wirefilter::FilterAst, recipe: &Recipe, ctxs: &[MCtx], show: &Value) -> CaseResult {
    let _ = catch(|| serde_json::to_string(&ast)).map_err(|p| Fail::new("serialize-panic", p, show.clone()))?;
    let filter = catch(|| ast.compile()).map_err(|p| Fail::new("compile-panic", format!("{text}: {p}"), show.clone()))?;
    let lists = ListState::new();
    for (ci, c) in ctxs.iter().enumerate() {
        let ec = recipe.make_ctx(scheme, c, &lists);
        match catch(|| filter.execute(&ec)) {
            Err(p) => {
                return Err(Fail::new(
                    "execute-panic",
                    format!("accepted filter {text:?} panicked on context #{ci}: {p}"),
                    json!({"filter": text, "context": c.show(&recipe.fields)}),
                ));
            }
            Ok(Err(e)) => return Err(Fail::new("execute-error", e.to_string(), show.clone())),
            Ok(Ok(_)) => {}
        }
    }
    Ok(())
}

fn run_accepted_value(text: &str, scheme: &wirefilter::Scheme, ast: wirefilter::FilterValueAst, recipe: &Recipe, ctxs: &[MCtx], show: &Value) -> CaseResult {
    use wirefilter::GetType;
    let static_t = MType::from_engine(ast.get_type());
    let fv = catch(|| ast.compile()).map_err(|p| Fail::new("compile-panic", format!("{text}: {p}"), show.clone()))?;
    let lists = ListState::new();
    for (ci, c) in ctxs.iter().enumerate() {
        let ec = recipe.make_ctx(scheme, c, &lists);
        let r = catch(|| fv.execute(&ec).map(|r| r.map(|v| (MVal::from_lhs(&v), MVal::lhs_deep_well_typed(&v))).map_err(MType::from_engine)));
        let case = || json!({"value_expr": text, "context": c.show(&recipe.fields)});
        match r {
            Err(p) => return Err(Fail::new("execute-panic", format!("accepted value expression {text:?} panicked on context #{ci}: {p}"), case())),
            Ok(Err(e)) => return Err(Fail::new("execute-error", e.to_string(), case())),
            Ok(Ok(Ok((v, deep)))) => {
                if v.ty() != static_t || !deep {
                    return Err(Fail::new("value-type-contract", format!("{text:?} yields a value of type {} (deep-consistent: {deep}) for static type {}", v.ty().show(), static_t.show()), case()));
                }
            }
            Ok(Ok(Err(t))) => {
                if t != static_t {
                    return Err(Fail::new("value-type-contract", format!("{text:?} yields an absence tagged {} for static type {}", t.show(), static_t.show()), case()));
                }
            }
        }
    }
    Ok(())
}

struct Fixture {
    recipe: Recipe,
    ctxs: Vec<MCtx>,
}

fn fixture() -> &'static Fixture {
    static F: OnceLock<Fixture> = OnceLock::new();
    F.get_or_init(|| {
        let recipe = matrix_recipe();
        let ctxs = matrix_ctxs(&recipe);
        Fixture { recipe, ctxs }
    })
}

fn check_text(tc: &TextCase, st: &mut Stats) -> CaseResult {
    let fx = fixture();
    let scheme = fx.recipe.build();
    let show = json!({"scheme": "matrix scheme (c04::matrix_recipe)", "input": tc.text, "value_expr": tc.value_expr, "expected_accept": tc.expect});
    st.eval();
    if tc.value_expr {
        let res = catch(|| scheme.parse_value(&tc.text).map_err(|e| e.to_string()));
        let res = res.map_err(|p| Fail::new("parse-panic", p, show.clone()))?;
        match (res, tc.expect) {
            (Ok(_), Some(false)) => return Err(Fail::new("ill-typed-accepted", format!("value expression {:?} must be rejected", tc.text), show)),
            (Err(e), Some(true)) => return Err(Fail::new("well-typed-rejected", format!("value expression {:?} must be accepted:\n{e}", tc.text), show)),
            (Ok(ast), _) => {
                st.class("accepted-and-executed");
                run_accepted_value(&tc.text, &scheme, ast, &fx.recipe, &fx.ctxs, &show)?;
            }
            (Err(e), _) => {
                st.class("rejected");
                error_wellformed(&tc.text, &e).map_err(|m| Fail::new("malformed-parse-error", format!("{m}\n{e}"), show.clone()))?;
            }
        }
    } else {
        let res = catch(|| scheme.parse(&tc.text).map_err(|e| e.to_string()));
        let res = res.map_err(|p| Fail::new("parse-panic", p, show.clone()))?;
        match (res, tc.expect) {
            (Ok(_), Some(false)) => return Err(Fail::new("ill-typed-accepted", format!("filter {:?} must be rejected", tc.text), show)),
            (Err(e), Some(true)) => return Err(Fail::new("well-typed-rejected", format!("filter {:?} must be accepted:\n{e}", tc.text), show)),
            (Ok(ast), _) => {
                st.class("accepted-and-executed");
                run_accepted_filter(&tc.text, &scheme, ast, &fx.recipe, &fx.ctxs, &show)?;
            }
            (Err(e), _) => {
                st.class("rejected");
                error_wellformed(&tc.text, &e).map_err(|m| Fail::new("malformed-parse-error", format!("{m}\n{e}"), show.clone()))?;
            }
        }
    }
    st.class(tc.class);
    if tc.expect.is_none() {
        st.class("grey-zone-input");
    }
    st.nontrivial(&tc.text);
    Ok(())
}

fn matrix_case(ch: &mut Choices<'_>, st: &mut Stats) -> CaseResult {
    let cases = text_cases();
    let i = ch.draw(cases.len());
    let tc = &cases[i];
    let r = check_text(tc, st);
    if i % 997 == 0 {
        st.sample(tc.class, || json!({"input": tc.text, "expected_accept": tc.expect}));
    }
    r
}

// ---------------------------------------------------------------------------
// (function signature x argument shape), built as model expressions; the
// reference type checker is the oracle

fn good_arg(k: Kind, t: &MType, alt: bool) -> MArg {
    let lit = |t: &MType| match t {
        MType::Int => MLit::Int(IntLit::dec(7)),
        MType::Bytes => MLit::Bytes(BytesLit::quoted(b"ab")),
        MType::Ip => MLit::Ip(v4(10, 1, 2, 3)),
        _ => unreachable!(),
    };
    if k == Kind::Literal || (k == Kind::Both && alt && matches!(t, MType::Int | MType::Bytes | MType::Ip)) {
        return MArg::Lit(lit(t));
    }
    MArg::Index(field_of_type(t, alt))
}

fn field_of_type(t: &MType, alt: bool) -> MIndex {
    let r = &fixture().recipe;
    let mut names: Vec<&FieldSpec> = r.fields.iter().filter(|f| f.ty == *t).collect();
    if alt {
        names.reverse();
    }
    if let Some(f) = names.first() {
        return MIndex::field(&f.name);
    }
    // reach the type through an index
    for f in &r.fields {
        if let MType::Array(e) = &f.ty {
            if **e == *t {
                return MIndex { base: MBase::Field(f.name.clone()), path: vec![MIdx::Idx(0, IntForm::Dec)] };
            }
        }
    }
    panic!("matrix scheme has no field of type {t:?}");
}

fn call_cases() -> &'static Vec<(String, MExpr)> {
    static CASES: OnceLock<Vec<(String, MExpr)>> = OnceLock::new();
    CASES.get_or_init(|| {
        let mut out: Vec<(String, MExpr)> = Vec::new();
        let wrap = |func: &str, args: Vec<MArg>, ret: &MType, mapped: bool| -> MExpr {
            let lhs = MIndex { base: MBase::Call { func: func.to_string(), args }, path: vec![] };
            let ret = if mapped { MType::array(ret.clone()) } else { ret.clone() };
            match &ret {
                MType::Int => MExpr::Cmp { lhs, op: MOp::Ord(OrdOp::Ge, MLit::Int(IntLit::dec(0))) },
                MType::Bytes => MExpr::Cmp { lhs, op: MOp::Ord(OrdOp::Ne, MLit::Bytes(BytesLit::quoted(b"q"))) },
                MType::Ip => MExpr::Cmp { lhs, op: MOp::Ord(OrdOp::Ne, MLit::Ip(v4(1, 1, 1, 1))) },
                MType::Bool => MExpr::Cmp { lhs, op: MOp::IsTrue },
                MType::Array(e) => {
                    let mut l2 = lhs.clone();
                    if **e == MType::Bool {
                        MExpr::Quant { any: true, arg: Box::new(MQArg::Index(lhs)) }
                    } else {
                        l2.path.push(MIdx::Each);
                        let op = match &**e {
                            MType::Int => MOp::Ord(OrdOp::Ge, MLit::Int(IntLit::dec(0))),
                            MType::Bytes => MOp::Ord(OrdOp::Ne, MLit::Bytes(BytesLit::quoted(b"q"))),
                            _ => MOp::Ord(OrdOp::Ne, MLit::Ip(v4(1, 1, 1, 1))),
                        };
                        MExpr::Quant { any: true, arg: Box::new(MQArg::Logical(MExpr::Cmp { lhs: l2, op })) }
                    }
                }
                MType::Map(_) => MExpr::Cmp { lhs, op: MOp::IsTrue },
            }
        };
        for s in funcs::sigs() {
            let total = s.params.len() + s.opts.len();
            let kinds: Vec<(Kind, MType)> = s.params.iter().cloned().chain(s.opts.iter().map(|(k, v)| (*k, v.ty()))).collect();
            for nargs in 0..=total + 1 {
                let base: Vec<MArg> = (0..nargs)
                    .map(|i| if i < total { good_arg(kinds[i].0, &kinds[i].1, false) } else { MArg::Lit(MLit::Int(IntLit::dec(1))) })
                    .collect();
                out.push((format!("{}: {} args", s.name, nargs), wrap(s.name, base.clone(), &s.ret, false)));
                for pos in 0..nargs.min(total) {
                    let (_, t) = &kinds[pos];
                    let mut variants: Vec<(&str, MArg)> = Vec::new();
                    // wrong-type field
                    let wrong = if *t == MType::Int { MType::Bytes } else { MType::Int };
                    variants.push(("wrong-type field", MArg::Index(field_of_type(&wrong, false))));
                    // literal of the right / wrong type
                    variants.push(("int literal", MArg::Lit(MLit::Int(IntLit::dec(5)))));
                    variants.push(("bytes literal", MArg::Lit(MLit::Bytes(BytesLit::quoted(b"x")))));
                    variants.push(("ip literal", MArg::Lit(MLit::Ip(v4(10, 1, 2, 3)))));
                    // field of the right type (also where a literal is required)
                    variants.push(("right-type field", MArg::Index(field_of_type(t, true))));
                    // logical expressions
                    variants.push(("bool logical", MArg::Logical(MExpr::Paren(Box::new(MExpr::Cmp { lhs: MIndex::field("t"), op: MOp::IsTrue })))));
                    variants.push((
                        "comparison logical",
                        MArg::Logical(MExpr::Cmp { lhs: MIndex::field("n"), op: MOp::Ord(OrdOp::Eq, MLit::Int(IntLit::dec(3))) }),
                    ));
                    variants.push((
                        "bool-array logical",
                        MArg::Logical(MExpr::Cmp {
                            lhs: MIndex { base: MBase::Field("arr_n".into()), path: vec![MIdx::Each] },
                            op: MOp::Ord(OrdOp::Eq, MLit::Int(IntLit::dec(3))),
                        }),
                    ));
                    // bare boolean containers in logical position
                    for (what, f, neg) in [
                        ("(map_b)", "map_b", false),
                        ("not map_b", "map_b", true),
                        ("(arr_b)", "arr_b", false),
                        ("not arr_b", "arr_b", true),
                    ] {
                        let c = MExpr::Cmp { lhs: MIndex::field(f), op: MOp::IsTrue };
                        let e = if neg { MExpr::Not(Box::new(c)) } else { MExpr::Paren(Box::new(c)) };
                        variants.push((what, MArg::Logical(e)));
                    }
                    // [*] in this position over an array / a map of the parameter type
                    if t.depth() <= 1 {
                        if let Some(f) = fixture().recipe.fields.iter().find(|f| f.ty == MType::array(t.clone())) {
                            variants.push(("[*] over array", MArg::Index(MIndex { base: MBase::Field(f.name.clone()), path: vec![MIdx::Each] })));
                        }
                        if let Some(f) = fixture().recipe.fields.iter().find(|f| f.ty == MType::map(t.clone())) {
                            variants.push(("[*] over map", MArg::Index(MIndex { base: MBase::Field(f.name.clone()), path: vec![MIdx::Each] })));
                        }
                    }
                    for (what, v) in variants {
                        let mut args = base.clone();
                        args[pos] = v;
                        let mapped = matches!(args.first(), Some(MArg::Index(ix)) if ix.stars() > 0);
                        out.push((format!("{}: {} args, #{} = {}", s.name, nargs, pos, what), wrap(s.name, args, &s.ret, mapped)));
                    }
                }
            }
        }
        // concat
        let bytes_f = |n: &str| MArg::Index(MIndex::field(n));
        let concat = |args: Vec<MArg>, ret: MType, mapped: bool| wrap("concat", args, &ret, mapped);
        out.push(("concat: 0 args".into(), concat(vec![], MType::Bytes, false)));
        out.push(("concat: 1 arg".into(), concat(vec![bytes_f("s")], MType::Bytes, false)));
        out.push(("concat: 2 bytes".into(), concat(vec![bytes_f("s"), bytes_f("s2")], MType::Bytes, false)));
        out.push(("concat: bytes + literal".into(), concat(vec![bytes_f("s"), MArg::Lit(MLit::Bytes(BytesLit::quoted(b"x")))], MType::Bytes, false)));
        out.push(("concat: literal first".into(), concat(vec![MArg::Lit(MLit::Bytes(BytesLit::quoted(b"x"))), bytes_f("s")], MType::Bytes, false)));
        out.push(("concat: 5 bytes".into(), concat(vec![bytes_f("s"), bytes_f("s2"), bytes_f("s"), bytes_f("s2"), bytes_f("s")], MType::Bytes, false)));
        out.push(("concat: bytes + int".into(), concat(vec![bytes_f("s"), bytes_f("n")], MType::Bytes, false)));
        out.push(("concat: int + int".into(), concat(vec![bytes_f("n"), bytes_f("n2")], MType::Int, false)));
        out.push(("concat: arrays".into(), concat(vec![bytes_f("arr_s"), bytes_f("arr_s2")], MType::array(MType::Bytes), false)));
        out.push(("concat: array + bytes".into(), concat(vec![bytes_f("arr_s"), bytes_f("s")], MType::array(MType::Bytes), false)));
        out.push(("concat: arrays of different types".into(), concat(vec![bytes_f("arr_s"), bytes_f("arr_n")], MType::array(MType::Bytes), false)));
        out.push(("concat: maps".into(), concat(vec![bytes_f("map_s"), bytes_f("map_s")], MType::map(MType::Bytes), false)));
        out.push((
            "concat: [*] first".into(),
            concat(vec![MArg::Index(MIndex { base: MBase::Field("arr_s".into()), path: vec![MIdx::Each] }), bytes_f("s")], MType::Bytes, true),
        ));
        out.push((
            "concat: [*] second".into(),
            concat(vec![bytes_f("s"), MArg::Index(MIndex { base: MBase::Field("arr_s".into()), path: vec![MIdx::Each] })], MType::Bytes, false),
        ));
        out
    })
}

fn call_case(ch: &mut Choices<'_>, st: &mut Stats) -> CaseResult {
    let cases = call_cases();
    let i = ch.draw(cases.len());
    let (what, expr) = &cases[i];
    let fx = fixture();
    let r = check_expr(&fx.recipe, expr, &fx.ctxs, &ListState::new(), st, "matrix-function-argument");
    if i % 97 == 0 {
        st.sample("matrix-function-argument", || json!({"what": what, "input": print_expr(expr, &Style::plain())}));
    }
    r
}

/// Oracle for a model expression: parse succeeds exactly when the reference
/// type checker accepts; accepted ones execute without panicking and agree
/// with the reference evaluator.
fn check_expr(recipe: &Recipe, expr: &MExpr, ctxs: &[MCtx], lists: &ListState, st: &mut Stats, class: &str) -> CaseResult {
    let text = print_expr(expr, &Style::plain());
    let verdict = typeck::filter_ok(recipe, expr);
    let grey = typeck::grey_zone(recipe, expr);
    let scheme = recipe.build();
    let case = Case { recipe, expr, text: &text, ctxs, lists };
    st.eval();
    let res = catch(|| scheme.parse(&text).map_err(|e| e.to_string())).map_err(|p| Fail::new("parse-panic", p, case.show()))?;
    match (&res, &verdict) {
        (Ok(_), Err(why)) if !grey => {
            return Err(Fail::new("ill-typed-accepted", format!("{text:?} was accepted although: {why}"), case.show()));
        }
        (Err(e), Ok(())) if !grey => {
            return Err(Fail::new("well-typed-rejected", format!("{text:?} is well-typed but was rejected:\n{e}"), case.show()));
        }
        _ => {}
    }
    st.class(class);
    st.nontrivial(&text);
    match res {
        Err(e) => {
            st.class("rejected");
            error_wellformed(&text, &e).map_err(|m| Fail::new("malformed-parse-error", format!("{m}\n{e}"), case.show()))?;
        }
        Ok(ast) => {
            st.class("accepted-and-executed");
            if grey {
                st.class("grey-zone-input");
            }
            let filter = compile_checked(ast, &case)?;
            for (ci, c) in ctxs.iter().enumerate() {
                let ec = recipe.make_ctx(&scheme, c, lists);
                if verdict.is_ok() {
                    exec_checked(&filter, &ec, &case, ci)?;
                } else {
                    // accepted in the grey zone: it must at least not panic
                    if let Err(p) = catch(|| filter.execute(&ec)) {
                        return Err(Fail::new("execute-panic", format!("accepted filter {text:?} panicked on context #{ci}: {p}"), case.show()));
                    }
                }
            }
        }
    }
    Ok(())
}

// ---------------------------------------------------------------------------
// Random compositions with type-breaking mutations

fn unambiguous_lit(ch: &mut Choices<'_>, t: &MType) -> MLit {
    match t {
        MType::Int => MLit::Int(IntLit { v: *ch.pick(&[0i64, 1, 7, 10, 255, -3, 1000]), form: IntForm::Dec }),
        MType::Bytes => MLit::Bytes(BytesLit::quoted(*ch.pick(&[&b"ab"[..], b"", b"x y"]))),
        _ => MLit::Ip(*ch.pick(&[v4(10, 1, 2, 3), v4(1, 2, 3, 4), v6(1), v6(0x2001_0db8_0000_0000_0000_0000_0000_0001)])),
    }
}

struct Mutator<'a, 'c, 'd> {
    ch: &'a mut Choices<'d>,
    r: &'a mut Recipe,
    /// which mutation to apply at which site (counted down)
    target: usize,
    applied: Option<&'static str>,
    _p: std::marker::PhantomData<&'c ()>,
}

impl Mutator<'_, '_, '_> {
    fn other_field(&mut self, avoid: &MType) -> Option<String> {
        let c: Vec<String> = self.r.fields.iter().filter(|f| f.ty != *avoid).map(|f| f.name.clone()).collect();
        if c.is_empty() { None } else { Some(self.ch.pick(&c).clone()) }
    }

    fn hit(&mut self) -> bool {
        if self.applied.is_some() {
            return false;
        }
        if self.target == 0 {
            true
        } else {
            self.target -= 1;
            false
        }
    }

    fn index(&mut self, ix: &mut MIndex, arg_pos: Option<usize>) {
        if self.hit() {
            match self.ch.draw(5) {
                0 => {
                    // swap the field for one of another type
                    if let MBase::Field(n) = &ix.base {
                        let t = self.r.field(n).map(|(_, f)| f.ty.clone());
                        if let Some(t) = t {
                            if let Some(o) = self.other_field(&t) {
                                ix.base = MBase::Field(o);
                                self.applied = Some("field-of-another-type");
                                return;
                            }
                        }
                    }
                }
                1 => {
                    // change an index kind
                    if !ix.path.is_empty() {
                        let i = self.ch.draw(ix.path.len());
                        ix.path[i] = match &ix.path[i] {
                            MIdx::Idx(..) => MIdx::Key("k".into(), 0),
                            MIdx::Key(..) => MIdx::Idx(0, IntForm::Dec),
                            MIdx::Each => {
                                if self.ch.boolean() { MIdx::Idx(0, IntForm::Dec) } else { MIdx::Key("k".into(), 0) }
                            }
                        };
                        self.applied = Some("index-kind-changed");
                        return;
                    }
                }
                2 => {
                    // add a step
                    ix.path.push(match self.ch.draw(3) {
                        0 => MIdx::Each,
                        1 => MIdx::Idx(0, IntForm::Dec),
                        _ => MIdx::Key("k".into(), 0),
                    });
                    self.applied = Some("index-step-added");
                    return;
                }
                3 => {
                    if !ix.path.is_empty() {
                        let i = self.ch.draw(ix.path.len());
                        ix.path.remove(i);
                        self.applied = Some("index-step-removed");
                        return;
                    }
                }
                _ => {
                    // [*] in a later argument
                    if let (Some(p), MBase::Field(n)) = (arg_pos, &ix.base) {
                        if p > 0 {
                            if let Some((_, f)) = self.r.field(n) {
                                let t = f.ty.clone();
                                let mut k = self.r.fields.len();
                                let name = loop {
                                    let cand = format!("w{k}");
                                    if self.r.field(&cand).is_none() {
                                        break cand;
                                    }
                                    k += 1;
                                };
                                self.r.fields.push(FieldSpec { name: name.clone(), ty: MType::array(t), optional: true });
                                ix.base = MBase::Field(name);
                                ix.path.insert(0, MIdx::Each);
                                self.applied = Some("star-in-later-argument");
                                return;
                            }
                        }
                    }
                }
            }
        }
        if let MBase::Call { args, .. } = &mut ix.base {
            if self.hit() && !args.is_empty() {
                let i = self.ch.draw(args.len());
                if self.ch.boolean() {
                    args.remove(i);
                    self.applied = Some("argument-dropped");
                } else {
                    let a = args[i].clone();
                    args.insert(i, a);
                    self.applied = Some("argument-duplicated");
                }
                return;
            }
            for (i, a) in args.iter_mut().enumerate() {
                match a {
                    MArg::Index(ix) => self.index(ix, Some(i)),
                    MArg::Lit(l) => {
                        if self.hit() {
                            let t = l.ty();
                            let nt = match t {
                                MType::Int => MType::Bytes,
                                MType::Bytes => MType::Ip,
                                _ => MType::Int,
                            };
                            *l = unambiguous_lit(self.ch, &nt);
                            self.applied = Some("argument-literal-of-another-type");
                        }
                    }
                    MArg::Logical(e) => self.expr(e, false),
                }
            }
        }
    }

    fn expr(&mut self, e: &mut MExpr, top: bool) {
        match e {
            MExpr::Cmp { lhs, op } => {
                if self.hit() {
                    // literal / operator of another type
                    let new = match op {
                        MOp::Ord(o, l) => {
                            let nt = match l.ty() {
                                MType::Int => MType::Bytes,
                                MType::Bytes => MType::Ip,
                                _ => MType::Int,
                            };
                            Some(MOp::Ord(*o, unambiguous_lit(self.ch, &nt)))
                        }
                        MOp::IsTrue => Some(MOp::Ord(OrdOp::Eq, unambiguous_lit(self.ch, &MType::Int))),
                        MOp::BitAnd(_) => Some(MOp::Contains(BytesLit::quoted(b"a"))),
                        MOp::Contains(_) | MOp::Matches(..) | MOp::Wildcard { .. } => Some(MOp::BitAnd(IntLit::dec(1))),
                        MOp::In(_) => Some(MOp::In(vec![SetItem::Bytes(BytesLit::quoted(b"a")), SetItem::Int(IntLit::dec(1))])),
                        MOp::InList(_) => None,
                    };
                    if let Some(n) = new {
                        *op = n;
                        self.applied = Some("operator-or-literal-of-another-type");
                        return;
                    }
                }
                self.index(lhs, None);
            }
            MExpr::Not(a) | MExpr::Paren(a) => self.expr(a, false),
            MExpr::Comb { items, .. } => {
                if self.hit() {
                    // replace one operand by a bare field (kind mismatch between operands)
                    let i = self.ch.draw(items.len());
                    let c: Vec<String> = self.r.fields.iter().map(|f| f.name.clone()).collect();
                    if !c.is_empty() {
                        items[i] = MExpr::Cmp { lhs: MIndex::field(self.ch.pick(&c).as_str()), op: MOp::IsTrue };
                        self.applied = Some("operand-replaced-by-bare-field");
                        return;
                    }
                }
                for it in items.iter_mut() {
                    self.expr(it, false);
                }
            }
            MExpr::Quant { arg, .. } => {
                if self.hit() {
                    let c: Vec<String> = self.r.fields.iter().map(|f| f.name.clone()).collect();
                    if !c.is_empty() {
                        **arg = MQArg::Index(MIndex::field(self.ch.pick(&c).as_str()));
                        self.applied = Some("quantifier-argument-replaced-by-field");
                        return;
                    }
                }
                match &mut **arg {
                    MQArg::Index(ix) => self.index(ix, None),
                    MQArg::Logical(e) => self.expr(e, false),
                }
            }
        }
        let _ = top;
    }
}

/// After a type-breaking mutation a literal may sit next to a field of another
/// type.  If its *text* could also be read as a literal of that type (`255` or
/// `10/8` as a short IPv4 form inside a set - the CIDR parser accepts those -,
/// `12.34.56.78` as hex pairs, eight two-digit groups as IPv6, ...), what the
/// parser must do is not fixed by the documented rules: such cases are skipped.
fn ambiguous_literal(r: &Recipe, e: &MExpr) -> bool {
    fn could_be(text: &str, t: &MType, in_set: bool) -> bool {
        let hexish = |s: &str| !s.is_empty() && s.chars().all(|c| c.is_ascii_hexdigit() || ":./-".contains(c));
        match t {
            MType::Bytes => {
                // HH (sep HH)+
                let b = text.as_bytes();
                b.len() >= 5 && b.len() % 3 == 2 && b.chunks(3).all(|c| c[0].is_ascii_hexdigit() && c[1].is_ascii_hexdigit() && (c.len() == 2 || b":.-".contains(&c[2])))
            }
            MType::Ip => text.parse::<std::net::IpAddr>().is_ok() || (in_set && hexish(text)),
            MType::Int => {
                let t = text.strip_prefix('-').unwrap_or(text);
                (!t.is_empty() && t.chars().all(|c| c.is_ascii_digit()))
                    || (t.starts_with("0x") && t[2..].chars().all(|c| c.is_ascii_hexdigit()))
                    // inside a set, `61-61-61` (hex pairs joined by dashes, all decimal digits) reads as 61 -61 -61
                    || (in_set && t.chars().any(|c| c.is_ascii_digit()) && t.chars().all(|c| c.is_ascii_digit() || c == '-'))
            }
            _ => false,
        }
    }
    fn index(r: &Recipe, ix: &MIndex) -> bool {
        match &ix.base {
            MBase::Field(_) => false,
            MBase::Call { args, .. } => args.iter().any(|a| match a {
                MArg::Index(i) => index(r, i),
                MArg::Lit(_) => false,
                MArg::Logical(e) => ambiguous_literal(r, e),
            }),
        }
    }
    match e {
        MExpr::Cmp { lhs, op } => {
            if index(r, lhs) {
                return true;
            }
            let Ok(t) = typeck::index_type(r, lhs) else { return false };
            match op {
                MOp::Ord(_, l) => l.ty() != t && could_be(&l.text(), &t, false),
                MOp::BitAnd(l) => t != MType::Int && could_be(&l.text(), &t, false),
                MOp::Contains(b) => t != MType::Bytes && could_be(&b.text(), &t, false),
                MOp::In(items) => items.iter().any(|i| {
                    let it = match i {
                        SetItem::Int(_) | SetItem::IntRange(..) => MType::Int,
                        SetItem::Bytes(_) => MType::Bytes,
                        _ => MType::Ip,
                    };
                    it != t && could_be(&i.text(), &t, true)
                }),
                _ => false,
            }
        }
        MExpr::Not(a) | MExpr::Paren(a) => ambiguous_literal(r, a),
        MExpr::Comb { items, .. } => items.iter().any(|i| ambiguous_literal(r, i)),
        MExpr::Quant { arg, .. } => match &**arg {
            MQArg::Index(ix) => index(r, ix),
            MQArg::Logical(e) => ambiguous_literal(r, e),
        },
    }
}

fn random_case(ch: &mut Choices<'_>, st: &mut Stats) -> CaseResult {
    let cfg = GenCfg { max_depth: 4, ..GenCfg::full() };
    let mut gen_ = Gen::new(ch, cfg);
    let top_array = gen_.ch.chance(1, 12);
    let mut expr = if top_array { gen_.gen_arr(2) } else { gen_.gen_bool(4) };
    gen_.finish_scheme();
    let mut recipe = gen_.r.clone();
    let hints = gen_.hints.clone();
    let nmut = gen_.ch.weighted(&[2, 5, 2]);
    let mut applied: Vec<&'static str> = Vec::new();
    if top_array {
        applied.push("top-level-array");
    }
    for _ in 0..nmut {
        let target = gen_.ch.draw(12);
        let mut m = Mutator { ch: gen_.ch, r: &mut recipe, target, applied: None, _p: std::marker::PhantomData };
        m.expr(&mut expr, true);
        if let Some(a) = m.applied {
            applied.push(a);
        }
    }
    g::normalize_args(&mut expr);
    let lists = g::gen_lists(gen_.ch, &recipe, &hints);
    let ctxs: Vec<MCtx> = (0..4).map(|_| g::gen_ctx(gen_.ch, &recipe, &hints)).collect();
    let well = typeck::filter_ok(&recipe, &expr).is_ok();
    if !well && ambiguous_literal(&recipe, &expr) {
        st.excluded();
        st.class("excluded-literal-text-ambiguous-after-mutation");
        return Ok(());
    }
    let r = check_expr(&recipe, &expr, &ctxs, &lists, st, if well { "random-well-typed" } else { "random-ill-typed" });
    for a in &applied {
        st.class(&format!("mutation-{a}"));
    }
    if !well && applied.len() == 1 {
        st.class("ill-typed-by-exactly-one-mutation");
        st.sample("ill-typed-single-mutation", || json!({"filter": print_expr(&expr, &Style::plain()), "mutation": applied[0], "why": typeck::filter_ok(&recipe, &expr).err()}));
    }
    r
}

fn random_value_case(ch: &mut Choices<'_>, st: &mut Stats) -> CaseResult {
    // value expressions, possibly with a [*] somewhere (must be rejected)
    let mut gen_ = Gen::new(ch, GenCfg::calls());
    let target = match gen_.ch.draw(6) {
        0 => MType::Int,
        1 => MType::Bytes,
        2 => MType::Ip,
        3 => MType::Bool,
        4 => MType::array(MType::Bytes),
        _ => MType::array(MType::Bool),
    };
    let stars = gen_.ch.weighted(&[3, 1]);
    let ix = gen_.gen_index(&target, stars, 0);
    gen_.finish_scheme();
    let recipe = gen_.r.clone();
    let hints = gen_.hints.clone();
    let ctxs: Vec<MCtx> = (0..4).map(|_| g::gen_ctx(gen_.ch, &recipe, &hints)).collect();
    let text = print_index(&ix, &Style::plain());
    let scheme = recipe.build();
    let show = json!({"scheme": recipe.show(), "value_expr": text});
    let expect = typeck::value_expr_ok(&recipe, &ix).is_ok();
    let grey = typeck::grey_index(&recipe, &ix);
    st.eval();
    let res = catch(|| scheme.parse_value(&text).map_err(|e| e.to_string())).map_err(|p| Fail::new("parse-panic", p, show.clone()))?;
    match (res, expect) {
        (Ok(_), false) if !grey => Err(Fail::new("ill-typed-accepted", format!("value expression {text:?} with [*] was accepted"), show)),
        (Err(e), true) if !grey => Err(Fail::new("well-typed-rejected", format!("value expression {text:?} rejected:\n{e}"), show)),
        (Ok(ast), _) => {
            st.class("random-value-accepted");
            st.nontrivial(&text);
            run_accepted_value(&text, &scheme, ast, &recipe, &ctxs, &show)?;
            // and against the reference
            let lists = ListState::new();
            for c in &ctxs {
                let env = Env::new(&recipe, c, &lists);
                let _ = eval::eval_index_value(&env, &ix).map(|p| matches!(p, Pres::Absent));
            }
            Ok(())
        }
        (Err(e), _) => {
            st.class("random-value-rejected");
            st.nontrivial(&text);
            error_wellformed(&text, &e).map(|_| ()).map_err(|m| Fail::new("malformed-parse-error", format!("{m}\n{e}"), show))
        }
    }
}

pub fn subs() -> Vec<Sub> {
    vec![
        Sub { name: "matrix", f: Box::new(matrix_case) },
        Sub { name: "calls", f: Box::new(call_case) },
        Sub { name: "random", f: Box::new(random_case) },
        Sub { name: "random-values", f: Box::new(random_value_case) },
    ]
}

pub fn run(run: &Run) {
    run.rule(
        "matrix: complete (left type x operator incl. aliases x literal kind), (container type x index kind, 1 and 2 steps), (operand kind pairs x logical operator, plain / in any() / negated), (quantifier x argument shape), top-level and value-expression tables over a fixed 20-field scheme - every cell parsed, expected acceptance from the documented rules, accepted cells executed on 4 contexts; \
         calls: every harness function x arity -1..+1 x each position x 10 argument shapes; \
         random: well-typed compositions (depth<=4) with 0-2 type-breaking mutations, oracle = reference type checker, accepted ones executed on 4 contexts and compared with the reference evaluator; \
         non-trivial = each distinct input text (every cell / mutated filter counts once)",
    );
    run.assume("the undocumented typings (bare Map(Bool) as a logical operand) are only required to be safe when accepted, not to be accepted or rejected");
    run.assume("mutated literals come from pools whose text is not a valid literal of another kind; a mutated filter in which an existing literal's text could also be read as a literal of the new field type (short IPv4 forms such as `255` or `10/8` inside a set, `12.34.56.78` as hex pairs, ...) is skipped and counted as excluded");
    let subs = subs();
    run_regressions(run, &subs);
    let n = text_cases().len() as u64;
    run.enumerate("matrix", n, &|i| vec![i as u32], &*find_sub(&subs, "matrix").unwrap().f);
    let n = call_cases().len() as u64;
    run.enumerate("calls", n, &|i| vec![i as u32], &*find_sub(&subs, "calls").unwrap().f);
    run.note("matrix_cells", json!(text_cases().len() + call_cases().len()));
    let n = run.tier.pick(300_000, 5_000_000);
    run.random("random", n, 300, &*find_sub(&subs, "random").unwrap().f);
    let n = run.tier.pick(100_000, 1_000_000);
    run.random("random-values", n, 120, &*find_sub(&subs, "random-values").unwrap().f);
    if run.tier == Tier::Thorough {
        fuzz_campaign_sub(run, "choices", Some(("random", &*find_sub(&subs, "random").unwrap().f)), 8, 150_000, 1200, None);
    }
}

/// A filter from the typed generator after 0-3 type-breaking structural mutations (wrong index kind, field of another
/// type, `[*]` added / removed / moved, literal of another kind, operand kinds mixed, argument dropped / duplicated ...):
/// grammatical text that is usually ill-typed.  Used by C05 (every such input must be answered by Ok or a well-formed error).
pub fn mutated_typed_text(ch: &mut Choices<'_>) -> (Recipe, String, usize) {
    let cfg = GenCfg { max_depth: 3, ..GenCfg::full() };
    let mut gen_ = Gen::new(ch, cfg);
    let mut expr = if gen_.ch.chance(1, 10) { gen_.gen_arr(2) } else { gen_.gen_bool(3) };
    gen_.finish_scheme();
    let mut recipe = gen_.r.clone();
    let nmut = gen_.ch.weighted(&[1, 5, 3, 1]);
    let mut applied = 0;
    for _ in 0..nmut {
        for _attempt in 0..4 {
            let target = gen_.ch.draw(12);
            let mut m = Mutator { ch: gen_.ch, r: &mut recipe, target, applied: None, _p: std::marker::PhantomData };
            m.expr(&mut expr, true);
            if m.applied.is_some() {
                applied += 1;
                break;
            }
        }
    }
    g::normalize_args(&mut expr);
    let alias: Vec<u8> = (0..8).map(|_| gen_.ch.draw(2) as u8).collect();
    let space: Vec<u8> = (0..8).map(|_| gen_.ch.weighted(&[3, 6, 1, 1, 1, 1]) as u8).collect();
    (recipe, print_expr(&expr, &Style { alias, space }), applied)
}

/// Every text of the typing matrices (accepted or not) with the matrix scheme.
pub fn matrix_texts() -> (Recipe, Vec<String>) {
    (matrix_recipe(), text_cases().iter().map(|t| t.text.clone()).collect())
}

/// Inputs of the matrices that the documented rules accept (seed corpus for fuzzing).
pub fn accepted_texts() -> Vec<String> {
    let mut v: Vec<String> = text_cases().iter().filter(|t| t.expect == Some(true)).map(|t| t.text.clone()).collect();
    let fx = fixture();
    for (_, e) in call_cases() {
        if typeck::filter_ok(&fx.recipe, e).is_ok() {
            v.push(print_expr(e, &Style::plain()));
        }
    }
    v
}

//! C16 - a scheme is a consistent registry of uniquely named fields, functions and lists.
//!
//! Oracle: an abstract registry (ordered list of fields, ordered list of
//! functions, ordered list of list types; a name is held by at most one field
//! or function).  Every registration history is replayed on the engine's
//! builder and on the registry; outcomes, the built scheme, identifier
//! resolution through the API and through the parser, and scheme identity are
//! compared.

use crate::choices::Choices;
use crate::engine::catch;
use crate::runner::*;
use serde_json::{Value, json};
use std::net::{IpAddr, Ipv4Addr};
use wirefilter::{
    AlwaysList, ExecutionContext, FunctionArgs, GetType, IdentifierRedefinitionError, LhsValue, NeverList, Scheme,
    SchemeBuilder, SetFieldValueError, SimpleFunctionDefinition, SimpleFunctionImpl, Type,
};

/// The pool of colliding names.
const NAMES: [&str; 6] = ["x", "x.y", "x.y.z", "X", "xy", "x_y"];
/// names of the reduced alphabet (indices into NAMES): a name, a dotted extension of it, its case variant
const REDUCED_NAMES: [usize; 3] = [0, 1, 3];

/// Names looked up after the build: the pool, proper prefixes, extensions, case variants, neighbours.
const PROBES: [&str; 30] = [
    "x", "x.y", "x.y.z", "X", "xy", "x_y", // the pool
    "y", "z", "y.z", "x.z", // suffixes / partial paths
    "x.y.z.w", "x.x", "xy.z", "x_y.z", "x.y.zz", "x.yy", "xx", "xyz", "x_y_z", "x_", "_x", // extensions
    "X.y", "x.Y", "X.Y", "x.y.Z", "X.Y.Z", "XY", "xY", "x_Y", "X_Y", // case variants
];

const PRIM_NAMES: [&str; 4] = ["Bool", "Bytes", "Int", "Ip"];
/// types a list can be registered for: the primitives and some containers
const LIST_TYPE_NAMES: [&str; 7] = ["Bool", "Bytes", "Int", "Ip", "Array(Int)", "Map(Bytes)", "Array(Array(Bool))"];

fn prim(t: usize) -> Type {
    [Type::Bool, Type::Bytes, Type::Int, Type::Ip][t]
}

fn list_type(t: usize) -> Type {
    match t {
        0..=3 => prim(t),
        4 => Type::Array(Type::Int.into()),
        5 => Type::Map(Type::Bytes.into()),
        _ => Type::Array(Type::Array(Type::Bool.into()).into()),
    }
}

#[derive(Clone, Copy, PartialEq, Eq, Hash, Debug)]
enum Op {
    Field { name: usize, ty: usize, optional: bool },
    Function { name: usize },
    List { ty: usize },
}

impl Op {
    fn show(&self) -> String {
        match self {
            Op::Field { name, ty, optional: false } => format!("add_field({:?}, {})", NAMES[*name], PRIM_NAMES[*ty]),
            Op::Field { name, ty, optional: true } => format!("add_optional_field({:?}, {})", NAMES[*name], PRIM_NAMES[*ty]),
            Op::Function { name } => format!("add_function({:?}, ..)", NAMES[*name]),
            Op::List { ty } => format!("add_list({}, ..)", LIST_TYPE_NAMES[*ty]),
        }
    }
}

#[derive(Clone, Copy, PartialEq, Eq, Debug)]
enum Outcome {
    Accepted,
    HeldByField,
    HeldByFunction,
    ListTaken,
}

#[derive(Clone, Copy, PartialEq, Eq, Debug)]
enum Holder {
    Field(usize),
    Function(usize),
}

/// The abstract registry.
#[derive(Clone, Default, Debug)]
struct Registry {
    fields: Vec<(usize, usize, bool)>,
    functions: Vec<usize>,
    lists: Vec<usize>,
}

impl Registry {
    fn holder(&self, name: usize) -> Option<Holder> {
        if let Some(i) = self.fields.iter().position(|f| f.0 == name) {
            return Some(Holder::Field(i));
        }
        self.functions.iter().position(|f| *f == name).map(Holder::Function)
    }

    fn holder_of_text(&self, text: &str) -> Option<Holder> {
        NAMES.iter().position(|n| *n == text).and_then(|n| self.holder(n))
    }

    fn apply(&mut self, op: Op) -> Outcome {
        match op {
            Op::Field { name, ty, optional } => match self.holder(name) {
                Some(Holder::Field(_)) => Outcome::HeldByField,
                Some(Holder::Function(_)) => Outcome::HeldByFunction,
                None => {
                    self.fields.push((name, ty, optional));
                    Outcome::Accepted
                }
            },
            Op::Function { name } => match self.holder(name) {
                Some(Holder::Field(_)) => Outcome::HeldByField,
                Some(Holder::Function(_)) => Outcome::HeldByFunction,
                None => {
                    self.functions.push(name);
                    Outcome::Accepted
                }
            },
            Op::List { ty } => {
                if self.lists.contains(&ty) {
                    Outcome::ListTaken
                } else {
                    self.lists.push(ty);
                    Outcome::Accepted
                }
            }
        }
    }
}

// one trivial function per pool name; function #i returns the integer 100 + i
macro_rules! const_fns {
    ($($id:ident => $v:expr),*) => {
        $(fn $id<'a>(_: FunctionArgs<'_, 'a>) -> Option<LhsValue<'a>> { Some(LhsValue::Int($v)) })*
        const FN_IMPLS: [for<'i, 'a> fn(FunctionArgs<'i, 'a>) -> Option<LhsValue<'a>>; 6] = [$($id),*];
    };
}
const_fns!(fn0 => 100, fn1 => 101, fn2 => 102, fn3 => 103, fn4 => 104, fn5 => 105);

fn function_def(name: usize) -> SimpleFunctionDefinition {
    SimpleFunctionDefinition {
        params: vec![],
        opt_params: vec![],
        return_type: Type::Int,
        implementation: SimpleFunctionImpl::new(FN_IMPLS[name]),
    }
}

fn ident_outcome(r: Result<(), IdentifierRedefinitionError>) -> Outcome {
    match r {
        Ok(()) => Outcome::Accepted,
        Err(IdentifierRedefinitionError::Field(_)) => Outcome::HeldByField,
        Err(IdentifierRedefinitionError::Function(_)) => Outcome::HeldByFunction,
    }
}

fn apply_engine(b: &mut SchemeBuilder, op: Op) -> Outcome {
    match op {
        Op::Field { name, ty, optional: false } => ident_outcome(b.add_field(NAMES[name], prim(ty))),
        Op::Field { name, ty, optional: true } => ident_outcome(b.add_optional_field(NAMES[name], prim(ty))),
        Op::Function { name } => ident_outcome(b.add_function(NAMES[name], function_def(name))),
        Op::List { ty } => {
            let r = if ty % 2 == 0 { b.add_list(list_type(ty), AlwaysList {}) } else { b.add_list(list_type(ty), NeverList {}) };
            match r {
                Ok(()) => Outcome::Accepted,
                Err(_) => Outcome::ListTaken,
            }
        }
    }
}

fn show_case(ops: &[Op]) -> Value {
    json!({"history": ops.iter().map(|o| o.show()).collect::<Vec<_>>()})
}

/// Replays `ops` on a fresh builder; compares each outcome with the registry.
fn replay(ops: &[Op], check: bool) -> Result<(Scheme, Registry, Vec<Outcome>), Fail> {
    let mut reg = Registry::default();
    let mut b = SchemeBuilder::new();
    let mut outs = Vec::new();
    for (i, op) in ops.iter().enumerate() {
        let want = reg.apply(*op);
        let got = catch(|| apply_engine(&mut b, *op))
            .map_err(|p| Fail::new("builder-panic", format!("step {i} {} panicked: {p}", op.show()), show_case(ops)))?;
        if check && got != want {
            let sig = match (want, got) {
                (Outcome::Accepted, _) => "free-name-refused",
                (_, Outcome::Accepted) => "taken-name-accepted",
                _ => "wrong-holder-kind",
            };
            return Err(Fail::new(
                sig,
                format!("step {i} {}: engine says {got:?}, the registry says {want:?}", op.show()),
                show_case(ops),
            ));
        }
        outs.push(want);
    }
    let scheme = catch(|| b.build()).map_err(|p| Fail::new("builder-panic", format!("build() panicked: {p}"), show_case(ops)))?;
    Ok((scheme, reg, outs))
}

/// Counts, order, indexes, types, optionality, lookups of every pool name and list type.
fn check_state(s: &Scheme, reg: &Registry) -> Result<(), String> {
    if s.field_count() != reg.fields.len() {
        return Err(format!("field_count() = {}, registry has {}", s.field_count(), reg.fields.len()));
    }
    if s.function_count() != reg.functions.len() {
        return Err(format!("function_count() = {}, registry has {}", s.function_count(), reg.functions.len()));
    }
    if s.list_count() != reg.lists.len() {
        return Err(format!("list_count() = {}, registry has {}", s.list_count(), reg.lists.len()));
    }
    let fields: Vec<_> = s.fields().collect();
    if fields.len() != reg.fields.len() || s.fields().len() != reg.fields.len() {
        return Err(format!("fields() yields {} items, registry has {}", fields.len(), reg.fields.len()));
    }
    for (i, (f, (name, ty, opt))) in fields.iter().zip(&reg.fields).enumerate() {
        if f.name() != NAMES[*name] || f.index() != i || f.get_type() != prim(*ty) || f.optional() != *opt {
            return Err(format!(
                "fields()[{i}] = ({:?}, index {}, {:?}, optional {}), registry has ({:?}, {}, optional {})",
                f.name(),
                f.index(),
                f.get_type(),
                f.optional(),
                NAMES[*name],
                PRIM_NAMES[*ty],
                opt
            ));
        }
    }
    let functions: Vec<_> = s.functions().collect();
    if functions.len() != reg.functions.len() {
        return Err(format!("functions() yields {} items, registry has {}", functions.len(), reg.functions.len()));
    }
    for (i, (f, name)) in functions.iter().zip(&reg.functions).enumerate() {
        if f.name() != NAMES[*name] || f.index() != i {
            return Err(format!("functions()[{i}] = ({:?}, index {}), registry has {:?}", f.name(), f.index(), NAMES[*name]));
        }
    }
    let lists: Vec<_> = s.lists().collect();
    if lists.len() != reg.lists.len() {
        return Err(format!("lists() yields {} items, registry has {}", lists.len(), reg.lists.len()));
    }
    for (i, (l, ty)) in lists.iter().zip(&reg.lists).enumerate() {
        if l.get_type() != list_type(*ty) {
            return Err(format!("lists()[{i}] is for {:?}, registry has {}", l.get_type(), LIST_TYPE_NAMES[*ty]));
        }
    }
    for t in 0..LIST_TYPE_NAMES.len() {
        let got = s.get_list(&list_type(t));
        match (got, reg.lists.iter().position(|l| *l == t)) {
            (None, None) => {}
            (Some(l), Some(i)) if l == lists[i] && l.get_type() == list_type(t) => {}
            (got, want) => {
                return Err(format!("get_list({}) = {:?}, registry position {:?}", LIST_TYPE_NAMES[t], got.map(|l| l.get_type()), want));
            }
        }
    }
    for (n, name) in NAMES.iter().enumerate() {
        let holder = reg.holder(n);
        let gf = s.get_field(name);
        let gfn = s.get_function(name);
        let ok_field = match (holder, &gf) {
            (Some(Holder::Field(i)), Ok(f)) => {
                f.index() == i && f.name() == *name && f.get_type() == prim(reg.fields[i].1) && f.optional() == reg.fields[i].2 && *f == fields[i]
            }
            (Some(Holder::Field(_)), Err(_)) => false,
            (_, Ok(_)) => false,
            (_, Err(_)) => true,
        };
        if !ok_field {
            return Err(format!("get_field({name:?}) = {:?}, registry holder {holder:?}", gf.map(|f| (f.name(), f.index()))));
        }
        let ok_fn = match (holder, &gfn) {
            (Some(Holder::Function(i)), Ok(f)) => f.index() == i && f.name() == *name && *f == functions[i],
            (Some(Holder::Function(_)), Err(_)) => false,
            (_, Ok(_)) => false,
            (_, Err(_)) => true,
        };
        if !ok_fn {
            return Err(format!("get_function({name:?}) = {:?}, registry holder {holder:?}", gfn.map(|f| (f.name(), f.index()))));
        }
    }
    Ok(())
}

fn hit(t: usize) -> LhsValue<'static> {
    match t {
        0 => LhsValue::Bool(true),
        1 => LhsValue::Bytes(b"a".to_vec().into()),
        2 => LhsValue::Int(1),
        _ => LhsValue::Ip(IpAddr::V4(Ipv4Addr::new(1, 2, 3, 4))),
    }
}

fn miss(t: usize) -> LhsValue<'static> {
    match t {
        0 => LhsValue::Bool(false),
        1 => LhsValue::Bytes(b"b".to_vec().into()),
        2 => LhsValue::Int(0),
        _ => LhsValue::Ip(IpAddr::V4(Ipv4Addr::new(5, 6, 7, 8))),
    }
}

/// the filter text that tests field `name` of primitive type `t` against its "hit" value
fn field_filter(name: &str, t: usize) -> String {
    match t {
        0 => name.to_string(),
        1 => format!("{name} == \"a\""),
        2 => format!("{name} == 1"),
        _ => format!("{name} == 1.2.3.4"),
    }
}

/// A context in which field #target holds its hit value and every other field its miss value
/// (`invert`: the other way round).
fn context(s: &Scheme, reg: &Registry, target: Option<usize>, invert: bool) -> Result<ExecutionContext<'static>, String> {
    let mut ec: ExecutionContext<'static> = ExecutionContext::new(s);
    for (i, (name, ty, _)) in reg.fields.iter().enumerate() {
        let is_hit = (Some(i) == target) != invert;
        let f = s.get_field(NAMES[*name]).map_err(|e| format!("get_field({:?}): {e}", NAMES[*name]))?;
        ec.set_field_value(f, if is_hit { hit(*ty) } else { miss(*ty) })
            .map_err(|e| format!("set_field_value({:?}): {e}", NAMES[*name]))?;
    }
    Ok(ec)
}

fn parse_ok(s: &Scheme, text: &str) -> Result<Result<wirefilter::Filter, String>, String> {
    catch(|| s.parse(text).map(|ast| ast.compile()).map_err(|e| e.to_string()))
}

fn run_filter(f: &wirefilter::Filter, ec: &ExecutionContext<'static>) -> Result<bool, String> {
    match catch(|| f.execute(ec)) {
        Err(p) => Err(format!("execution panicked: {p}")),
        Ok(Err(e)) => Err(format!("execution refused: {e}")),
        Ok(Ok(b)) => Ok(b),
    }
}

/// Resolution of every probe name through the API and through the parser.
fn check_resolution(s: &Scheme, reg: &Registry, st: &mut Stats) -> Result<(), (String, String)> {
    let err = |sig: &str, m: String| Err((sig.to_string(), m));
    for probe in PROBES {
        let holder = reg.holder_of_text(probe);
        // API
        let gf = s.get_field(probe).ok().map(|f| f.index());
        let gfn = s.get_function(probe).ok().map(|f| f.index());
        let want_f = if let Some(Holder::Field(i)) = holder { Some(i) } else { None };
        let want_fn = if let Some(Holder::Function(i)) = holder { Some(i) } else { None };
        if gf != want_f || gfn != want_fn {
            return err(
                "api-resolution",
                format!("get_field({probe:?}) = {gf:?}, get_function({probe:?}) = {gfn:?}; the registry holds {holder:?}"),
            );
        }
        // parser
        let call = format!("{probe}()");
        match holder {
            Some(Holder::Field(i)) => {
                let t = reg.fields[i].1;
                let text = field_filter(probe, t);
                let f = match parse_ok(s, &text) {
                    Err(p) => return err("parse-panic", format!("parsing {text:?} panicked: {p}")),
                    Ok(Err(e)) => return err("registered-name-unresolved", format!("{text:?} does not parse although {probe:?} is a {} field:\n{e}", PRIM_NAMES[t])),
                    Ok(Ok(f)) => f,
                };
                for invert in [false, true] {
                    let ec = context(s, reg, Some(i), invert).map_err(|m| ("context".to_string(), m))?;
                    match run_filter(&f, &ec) {
                        Ok(b) if b != invert => {}
                        other => {
                            return err(
                                "resolved-to-other-field",
                                format!(
                                    "{text:?} with field {probe:?} = {} value and every other field = {} value gives {other:?}",
                                    if invert { "miss" } else { "hit" },
                                    if invert { "hit" } else { "miss" }
                                ),
                            );
                        }
                    }
                }
                // a field is not callable, and only a Bool field is a filter on its own
                for (wrong, why) in [(call.clone(), "a field was accepted as a function call"), (format!("{probe}() == 100"), "a field was accepted as a function call")] {
                    match parse_ok(s, &wrong) {
                        Err(p) => return err("parse-panic", format!("parsing {wrong:?} panicked: {p}")),
                        Ok(Ok(_)) => return err("field-function-interchanged", format!("{wrong:?} parses: {why}")),
                        Ok(Err(_)) => {}
                    }
                }
                st.class("probe-resolves-to-field");
            }
            Some(Holder::Function(i)) => {
                let name = reg.functions[i];
                for (k, want) in [(100 + name as i64, true), (100 + ((name as i64 + 1) % 6), false)] {
                    let text = format!("{probe}() == {k}");
                    let f = match parse_ok(s, &text) {
                        Err(p) => return err("parse-panic", format!("parsing {text:?} panicked: {p}")),
                        Ok(Err(e)) => return err("registered-name-unresolved", format!("{text:?} does not parse although {probe:?} is a function:\n{e}")),
                        Ok(Ok(f)) => f,
                    };
                    let ec = context(s, reg, None, false).map_err(|m| ("context".to_string(), m))?;
                    match run_filter(&f, &ec) {
                        Ok(b) if b == want => {}
                        other => return err("resolved-to-other-function", format!("{text:?} gives {other:?}, function {probe:?} returns {}", 100 + name)),
                    }
                }
                for wrong in [probe.to_string(), format!("{probe} == 100"), format!("{probe} == \"a\"")] {
                    match parse_ok(s, &wrong) {
                        Err(p) => return err("parse-panic", format!("parsing {wrong:?} panicked: {p}")),
                        Ok(Ok(_)) => return err("field-function-interchanged", format!("{wrong:?} parses although {probe:?} is a function")),
                        Ok(Err(_)) => {}
                    }
                }
                st.class("probe-resolves-to-function");
            }
            None => {
                for t in 0..4 {
                    let text = field_filter(probe, t);
                    match catch(|| s.parse(&text).map(|_| ()).map_err(|e| e.to_string())) {
                        Err(p) => return err("parse-panic", format!("parsing {text:?} panicked: {p}")),
                        Ok(Ok(())) => {
                            return err("unregistered-name-resolved", format!("{text:?} parses although nothing named {probe:?} is registered"));
                        }
                        Ok(Err(e)) => {
                            // the whole dotted name is the unknown identifier
                            let carets = e.lines().nth(2).map(|l| l.matches('^').count()).unwrap_or(0);
                            let at_start = e.lines().nth(2).map(|l| l.starts_with('^')).unwrap_or(false);
                            if !(e.trim_end().ends_with("unknown identifier") && at_start && carets == probe.len()) {
                                return err(
                                    "unknown-name-error-shape",
                                    format!("{text:?}: expected `unknown identifier` spanning the complete name {probe:?}, got\n{e}"),
                                );
                            }
                        }
                    }
                }
                for text in [call.clone(), format!("{probe}() == 100")] {
                    match catch(|| s.parse(&text).map(|_| ()).map_err(|e| e.to_string())) {
                        Err(p) => return err("parse-panic", format!("parsing {text:?} panicked: {p}")),
                        Ok(Ok(())) => {
                            return err("unregistered-name-resolved", format!("{text:?} parses although nothing named {probe:?} is registered"));
                        }
                        Ok(Err(_)) => {}
                    }
                }
                if NAMES.iter().any(|n| reg.holder_of_text(n).is_some() && (n.starts_with(probe) || probe.starts_with(n) || n.eq_ignore_ascii_case(probe))) {
                    st.class("probe-unregistered-neighbour-of-registered");
                } else {
                    st.class("probe-unregistered");
                }
            }
        }
    }
    Ok(())
}

/// A clone is the same scheme; an identically re-built scheme is a different one.
fn check_identity(ops: &[Op], s: &Scheme, reg: &Registry, st: &mut Stats) -> Result<(), (String, String)> {
    let err = |sig: &str, m: String| Err((sig.to_string(), m));
    let clone = s.clone();
    let (rebuilt, _, _) = replay(ops, false).map_err(|f| (f.sig, f.msg))?;
    if !(*s == clone && clone == *s) {
        return err("clone-not-interchangeable", "scheme != its clone".into());
    }
    if *s == rebuilt || rebuilt == *s {
        return err("rebuilt-interchangeable", "a scheme compares equal to an identically re-built scheme".into());
    }
    for (i, (name, ty, _)) in reg.fields.iter().enumerate() {
        let name = NAMES[*name];
        let f_orig = s.get_field(name).map_err(|e| ("api-resolution".to_string(), e.to_string()))?;
        let f_clone = clone.get_field(name).map_err(|e| ("api-resolution".to_string(), e.to_string()))?;
        let f_re = rebuilt.get_field(name).map_err(|e| ("api-resolution".to_string(), e.to_string()))?;
        if f_orig != f_clone {
            return err("clone-not-interchangeable", format!("field {name:?} of the clone != field of the original"));
        }
        if f_orig == f_re {
            return err("rebuilt-interchangeable", format!("field {name:?} of a re-built scheme == field of the original"));
        }
        if catch(|| f_orig.reborrow(&clone).index()).ok() != Some(i) {
            return err("clone-not-interchangeable", format!("field {name:?} cannot be reborrowed relative to the clone"));
        }
        // contexts
        let mut ec_clone: ExecutionContext<'static> = ExecutionContext::new(&clone);
        let mut ec_orig: ExecutionContext<'static> = ExecutionContext::new(s);
        let mut ec_re: ExecutionContext<'static> = ExecutionContext::new(&rebuilt);
        if let Err(e) = ec_clone.set_field_value(f_orig, hit(*ty)) {
            return err("clone-not-interchangeable", format!("context of the clone refuses field {name:?} of the original: {e}"));
        }
        if let Err(e) = ec_orig.set_field_value(f_clone, hit(*ty)) {
            return err("clone-not-interchangeable", format!("context of the original refuses field {name:?} of the clone: {e}"));
        }
        match ec_re.set_field_value(f_orig, hit(*ty)) {
            Err(SetFieldValueError::SchemeMismatch(_)) => {}
            other => {
                return err(
                    "rebuilt-interchangeable",
                    format!("context of a re-built scheme given field {name:?} of the original: {other:?}, expected SchemeMismatch"),
                );
            }
        }
        match ec_orig.set_field_value(f_re, hit(*ty)) {
            Err(SetFieldValueError::SchemeMismatch(_)) => {}
            other => {
                return err(
                    "rebuilt-interchangeable",
                    format!("context of the original given field {name:?} of a re-built scheme: {other:?}, expected SchemeMismatch"),
                );
            }
        }
        if ec_clone.get_field_value(f_orig) != Some(&hit(*ty)) || ec_clone.get_field_value(f_clone) != Some(&hit(*ty)) {
            return err("clone-not-interchangeable", format!("value of {name:?} set through the original's field is not read back"));
        }
    }
    // filters: parsed with one, executed on a context of the other
    let text = if let Some((name, ty, _)) = reg.fields.first() {
        Some((field_filter(NAMES[*name], *ty), Some(0)))
    } else {
        reg.functions.first().map(|n| (format!("{}() == {}", NAMES[*n], 100 + n), None))
    };
    if let Some((text, target)) = text {
        let parse = |sch: &Scheme| parse_ok(sch, &text).map_err(|p| ("parse-panic".to_string(), p))?.map_err(|e| ("registered-name-unresolved".to_string(), format!("{text:?}: {e}")));
        let f_clone = parse(&clone)?;
        let f_orig = parse(s)?;
        let f_re = parse(&rebuilt)?;
        let ctx = |sch: &Scheme| context(sch, reg, target, false).map_err(|m| ("context".to_string(), m));
        let (c_orig, c_clone, c_re) = (ctx(s)?, ctx(&clone)?, ctx(&rebuilt)?);
        for (what, f, c) in [("filter of the clone on a context of the original", &f_clone, &c_orig), ("filter of the original on a context of the clone", &f_orig, &c_clone)] {
            match catch(|| f.execute(c)) {
                Ok(Ok(true)) => {}
                other => return err("clone-not-interchangeable", format!("{what} ({text:?}): {other:?}, expected Ok(true)")),
            }
        }
        for (what, f, c) in [
            ("filter of a re-built scheme on a context of the original", &f_re, &c_orig),
            ("filter of the original on a context of a re-built scheme", &f_orig, &c_re),
            ("filter of the clone on a context of a re-built scheme", &f_clone, &c_re),
        ] {
            match catch(|| f.execute(c)) {
                Ok(Err(_)) => {}
                other => return err("rebuilt-interchangeable", format!("{what} ({text:?}): {other:?}, expected a scheme mismatch error")),
            }
        }
        match catch(|| f_re.execute(&c_re)) {
            Ok(Ok(true)) => {}
            other => return err("context", format!("filter and context of the re-built scheme: {other:?}")),
        }
        st.class("identity-checked-with-filter");
    } else {
        st.class("identity-checked-without-identifiers");
    }
    Ok(())
}

fn history_checks(ops: &[Op], every_prefix: bool, st: &mut Stats) -> CaseResult {
    let (scheme, reg, outs) = replay(ops, true)?;
    let wrap = |sig: String, m: String| Fail::new(sig, m, show_case(ops));
    if every_prefix {
        for k in 0..ops.len() {
            let (s, r, _) = replay(&ops[..k], true)?;
            catch(|| check_state(&s, &r))
                .unwrap_or_else(|p| Err(format!("panic: {p}")))
                .map_err(|m| wrap("state-differs".into(), format!("after {k} steps: {m}")))?;
        }
    }
    catch(|| check_state(&scheme, &reg))
        .unwrap_or_else(|p| Err(format!("panic: {p}")))
        .map_err(|m| wrap("state-differs".into(), format!("after all {} steps: {m}", ops.len())))?;
    catch(|| check_resolution(&scheme, &reg, st))
        .unwrap_or_else(|p| Err(("oracle-panic".into(), p)))
        .map_err(|(s, m)| wrap(s, m))?;
    catch(|| check_identity(ops, &scheme, &reg, st))
        .unwrap_or_else(|p| Err(("oracle-panic".into(), p)))
        .map_err(|(s, m)| wrap(s, m))?;
    st.eval();
    st.class(&format!("history-length-{:02}", ops.len()));
    let rejected = outs.iter().filter(|o| **o != Outcome::Accepted).count();
    st.class(match rejected {
        0 => "rejections-0",
        1 => "rejections-1",
        2..=3 => "rejections-2..3",
        _ => "rejections-4+",
    });
    if outs.contains(&Outcome::HeldByField) {
        st.class("rejected-held-by-field");
    }
    if outs.contains(&Outcome::HeldByFunction) {
        st.class("rejected-held-by-function");
    }
    if outs.contains(&Outcome::ListTaken) {
        st.class("rejected-list-taken");
    }
    // cross-kind collisions
    for (op, o) in ops.iter().zip(&outs) {
        match (op, o) {
            (Op::Field { .. }, Outcome::HeldByFunction) => st.class("field-onto-function"),
            (Op::Function { .. }, Outcome::HeldByField) => st.class("function-onto-field"),
            _ => {}
        }
    }
    let first_rej = outs.iter().position(|o| *o != Outcome::Accepted);
    if let Some(p) = first_rej {
        if outs[p + 1..].contains(&Outcome::Accepted) {
            st.nontrivial(ops);
            st.sample("rejected-then-accepted", || {
                json!({"history": ops.iter().zip(&outs).map(|(o, r)| format!("{} -> {:?}", o.show(), r)).collect::<Vec<_>>()})
            });
        }
    }
    Ok(())
}

// reduced alphabet: 3 names x {Int field, optional Bytes field, function} + lists for Int and Bytes
const REDUCED: usize = 11;

fn reduced_op(i: usize) -> Op {
    match i {
        0..=8 => {
            let name = REDUCED_NAMES[i / 3];
            match i % 3 {
                0 => Op::Field { name, ty: 2, optional: false },
                1 => Op::Field { name, ty: 1, optional: true },
                _ => Op::Function { name },
            }
        }
        9 => Op::List { ty: 2 },
        _ => Op::List { ty: 1 },
    }
}

fn reduced_total(max_len: usize) -> u64 {
    (0..=max_len).map(|k| (REDUCED as u64).pow(k as u32)).sum()
}

/// [len, op, op, ...]
fn reduced_key(mut i: u64) -> Vec<u32> {
    let mut len = 0usize;
    loop {
        let n = (REDUCED as u64).pow(len as u32);
        if i < n {
            break;
        }
        i -= n;
        len += 1;
    }
    let mut k = vec![len as u32];
    for _ in 0..len {
        k.push((i % REDUCED as u64) as u32);
        i /= REDUCED as u64;
    }
    k
}

fn reduced_case(ch: &mut Choices<'_>, st: &mut Stats) -> CaseResult {
    let len = ch.draw(7);
    let ops: Vec<Op> = (0..len).map(|_| reduced_op(ch.draw(REDUCED))).collect();
    // every prefix of an enumerated history is itself an enumerated history
    history_checks(&ops, false, st)
}

fn random_case(ch: &mut Choices<'_>, st: &mut Stats) -> CaseResult {
    let len = ch.draw(13);
    let mut ops = Vec::new();
    for _ in 0..len {
        let op = match ch.weighted(&[5, 4, 3, 2]) {
            0 => Op::Field { name: ch.draw(6), ty: ch.draw(4), optional: false },
            1 => Op::Field { name: ch.draw(6), ty: ch.draw(4), optional: true },
            2 => Op::Function { name: ch.draw(6) },
            _ => Op::List { ty: ch.draw(LIST_TYPE_NAMES.len()) },
        };
        ops.push(op);
    }
    history_checks(&ops, true, st)
}

pub fn subs() -> Vec<Sub> {
    vec![
        Sub { name: "reduced-exhaustive", f: Box::new(reduced_case) },
        Sub { name: "random-histories", f: Box::new(random_case) },
    ]
}

pub fn run(run: &Run) {
    let max_len = run.tier.pick(4, 6);
    run.rule(&format!(
        "reduced-exhaustive: every sequence of length 0..={max_len} over 11 operations (names x, x.y, X x {{add_field Int, add_optional_field Bytes, add_function}}, add_list Int, add_list Bytes), \
         each replayed against an abstract registry: outcome and holder kind of every call, then counts, order, indexes, types, optionality, get_field/get_function/get_list of the built scheme, \
         resolution of 30 probe names (pool, prefixes, extensions, case variants) through the API and through parsing `name`, `name == literal`, `name()`, with execution on hit/miss contexts, \
         and identity (clone interchangeable, identical re-build not); random-histories: sequences of length 0..=12 over 6 names x 4 types x (field, optional field, function) and lists for 7 types, state compared after every prefix; \
         non-trivial = the history contains a rejected registration followed by an accepted one (distinct histories counted)"
    ));
    run.assume("no generated name begins with an operator keyword (not, any, all) - outside the property's pool");
    run.assume("mandatory fields are always set before a filter is executed");
    let subs = subs();
    run_regressions(run, &subs);
    let sub = |n: &str| &*find_sub(&subs, n).unwrap().f;
    run.enumerate("reduced-exhaustive", reduced_total(max_len), &reduced_key, sub("reduced-exhaustive"));
    run.random("random-histories", run.tier.pick(100_000, 600_000), 60, sub("random-histories"));
    run.note("exhaustive_subchecks", json!([format!("reduced-exhaustive (length <= {max_len})")]));
}

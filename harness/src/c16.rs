//! C16 - a scheme is a consistent registry of uniquely named fields, functions and lists.
//!
//! Oracle: an abstract registry (ordered list of fields, ordered list of
//! functions, ordered list of list types; a name is held by at most one field
//! or function).  Every registration history is replayed on the engine's
//! builder and on the registry; outcomes, the built scheme, identifier
//! resolution through the API and through the parser, and scheme identity are
//! compared.

use crate::choices::Choices;
use crate::engine::catch;
use crate::runner::*;
use serde_json::{Value, json};
use std::net::{IpAddr, Ipv4Addr};
use wirefilter::{
    AlwaysList, ExecutionContext, FunctionArgs, GetType, IdentifierRedefinitionError, LhsValue, NeverList, Scheme,
    SchemeBuilder, SetFieldValueError, SimpleFunctionDefinition, SimpleFunctionImpl, Type,
};

/// The pool of colliding names.
const NAMES: [&str; 6] = ["x", "x.y", "x.y.z", "X", "xy", "x_y"];
/// names of the reduced alphabet (indices into NAMES): a name, a dotted extension of it, its case variant
const REDUCED_NAMES: [usize; 3] = [0, 1, 3];

/// Names looked up after the build: the pool, proper prefixes, extensions, case variants, neighbours.
const PROBES: [&str; 30] = [
    "x", "x.y", "x.y.z", "X", "xy", "x_y", // the pool
    "y", "z", "y.z", "x.z", // suffixes / partial paths
    "x.y.z.w", "x.x", "xy.z", "x_y.z", "x.y.zz", "x.yy", "xx", "xyz", "x_y_z", "x_", "_x", // extensions
    "X.y", "x.Y", "X.Y", "x.y.Z", "X.Y.Z", "XY", "xY", "x_Y", "X_Y", // case variants
];

const PRIM_NAMES: [&str; 4] = ["Bool", "Bytes", "Int", "Ip"];
/// types a list can be registered for: the primitives and some containers
const LIST_TYPE_NAMES: [&str; 7] = ["Bool", "Bytes", "Int", "Ip", "Array(Int)", "Map(Bytes)", "Array(Array(Bool))"];

fn prim(t: usize) -> Type {
    [Type::Bool, Type::Bytes, Type::Int, Type::Ip][t]
}

fn list_type(t: usize) -> Type {
    match t {
        0..=3 => prim(t),
        4 => Type::Array(Type::Int.into()),
        5 => Type::Map(Type::Bytes.into()),
        _ => Type::Array(Type::Array(Type::Bool.into()).into()),
    }
}

#[derive(Clone, Copy, PartialEq, Eq, Hash, Debug)]
enum Op {
    Field { name: usize, ty: usize, optional: bool },
    Function { name: usize },
    List { ty: usize },
}

impl Op {
    fn show(&self) -> String {
        match self {
            Op::Field { name, ty, optional: false } => format!("add_field({:?}, {})", NAMES[*name], PRIM_NAMES[*ty]),
            Op::Field { name, ty, optional: true } => format!("add_optional_field({:?}, {})", NAMES[*name], PRIM_NAMES[*ty]),
            Op::Function { name } => format!("add_function({:?}, ..)", NAMES[*name]),
            Op::List { ty } => format!("add_list({}, ..)", LIST_TYPE_NAMES[*ty]),
        }
    }
}

#[derive(Clone, Copy, PartialEq, Eq, Debug)]
enum Outcome {
    Accepted,
    HeldByField,
    HeldByFunction,
    ListTaken,
}

#[derive(Clone, Copy, PartialEq, Eq, Debug)]
enum Holder {
    Field(usize),
    Function(usize),
}

/// The abstract registry.
#[derive(Clone, Default, Debug)]
struct Registry {
    fields: Vec<(usize, usize, bool)>,
    functions: Vec<usize>,
    lists: Vec<usize>,
}

impl Registry {
    fn holder(&self, name: usize) -> Option<Holder> {
        if let Some(i) = self.fields.iter().position(|f| f.0 == name) {
            return Some(Holder::Field(i));
        }
        self.functions.iter().position(|f| *f == name).map(Holder::Function)
    }

    fn holder_of_text(&self, text: &str) -> Option<Holder> {
        NAMES.iter().position(|n| *n == text).and_then(|n| self.holder(n))
    }

    fn apply(&mut self, op: Op) -> Outcome {
        match op {
            Op::Field { name, ty, optional } => match self.holder(name) {
                Some(Holder::Field(_)) => Outcome::HeldByField,
                Some(Holder::Function(_)) => Outcome::HeldByFunction,
                None => {
                    self.fields.push((name, ty, optional));
                    Outcome::Accepted
                }
            },
            Op::Function { name } => match self.holder(name) {
                Some(Holder::Field(_)) => Outcome::HeldByField,
                Some(Holder::Function(_)) => Outcome::HeldByFunction,
                None => {
                    self.functions.push(name);
                    Outcome::Accepted
                }
            },
            Op::List { ty } => {
                if self.lists.contains(&ty) {
                    Outcome::ListTaken
                } else {
                    self.lists.push(ty);
                    Outcome::Accepted
                }
            }
        }
    }
}

// one trivial function per pool name; function #i returns the integer 100 + i
macro_rules! const_fns {
    ($($id:ident => $v:expr),*) => {
        $(fn $id<'a>(_: FunctionArgs<'_, 'a>) -> Option<LhsValue<'a>> { Some(LhsValue::Int($v)) })*
        const FN_IMPLS: [for<'i, 'a> fn(FunctionArgs<'i, 'a>) -> Option<LhsValue<'a>>; 6] = [$($id),*];
    };
}
const_fns!(fn0 => 100, fn1 => 101, fn2 => 102, fn3 => 103, fn4 => 104, fn5 => 105);

fn function_def(name: usize) -> SimpleFunctionDefinition {
    SimpleFunctionDefinition {
        params: vec![],
        opt_params: vec![],
        return_type: Type::Int,
        implementation: SimpleFunctionImpl::new(FN_IMPLS[name]),
    }
}

fn ident_outcome(r: Result<(), IdentifierRedefinitionError>) -> Outcome {
    match r {
        Ok(()) => Outcome::Accepted,
        Err(IdentifierRedefinitionError::Field(_)) => Outcome::HeldByField,
        Err(IdentifierRedefinitionError::Function(_)) => Outcome::HeldByFunction,
    }
}

fn apply_engine(b: &mut SchemeBuilder, op: Op) -> Outcome {
    match op {
        Op::Field { name, ty, optional: false } => ident_outcome(b.add_field(NAMES[name], prim(ty))),
        Op::Field { name, ty, optional: true } => ident_outcome(b.add_optional_field(NAMES[name], prim(ty))),
        Op::Function { name } => ident_outcome(b.add_function(NAMES[name], function_def(name))),
        Op::List { ty } => {
            let r = if ty % 2 == 0 { b.add_list(list_type(ty), AlwaysList {}) } else { b.add_list(list_type(ty), NeverList {}) };
            match r {
                Ok(()) => Outcome::Accepted,
                Err(_) => Outcome::ListTaken,
            }
        }
    }
}

fn show_case(ops: &[Op]) -> Value {
    json!({"history": ops.iter().map(|o| o.show()).collect::<Vec<_>>()})
}

/// Replays `ops` on a fresh builder; compares each outcome with the registry.
fn replay(ops: &[Op], check: bool) -> Result<(Scheme, Registry, Vec<Outcome>), Fail> {
    let mut reg = Registry::default();
    // both public ways of making a builder (the C API uses the second one)
    let mut b = if ops.len() % 2 == 0 { SchemeBuilder::new() } else { SchemeBuilder::default() };
    let mut outs = Vec::new();
    for (i, op) in ops.iter().enumerate() {
        let want = reg.apply(*op);
        let got = catch(|| apply_engine(&mut b, *op))
            .map_err(|p| Fail::new("builder-panic", format!("step {i} {} panicked: {p}", op.show()), show_case(ops)))?;
        if check && got != want {
            let sig = match (want, got) {
                (Outcome::Accepted, _) => "free-name-refused",
                (_, Outcome::Accepted) => "taken-name-accepted",
                _ => "wrong-holder-kind",
            };
            return Err(Fail::new(
                sig,
                format!("step {i} {}: engine says {got:?}, the registry says {want:?}", op.show()),
                show_case(ops),
            ));
        }
        outs.push(want);
    }
    let scheme = catch(|| b.build()).map_err(|p| Fail::new("builder-panic", format!("build() panicked: {p}"), show_case(ops)))?;
    Ok((scheme, reg, outs))
}

/// Counts, order, indexes, types, optionality, lookups of every pool name and list type.
fn check_state(s: &Scheme, reg: &Registry) -> Result<(), String> {
    if s.field_count() != reg.fields.len() {
        return Err(format!("field_count() = {}, registry has {}", s.field_count(), reg.fields.len()));
    }
    if s.function_count() != reg.functions.len() {
        return Err(format!("function_count() = {}, registry has {}", s.function_count(), reg.functions.len()));
    }
    if s.list_count() != reg.lists.len() {
        return Err(format!("list_count() = {}, registry has {}", s.list_count(), reg.lists.len()));
    }
    let fields: Vec<_> = s.fields().collect();
    if fields.len() != reg.fields.len() || s.fields().len() != reg.fields.len() {
        return Err(format!("fields() yields {} items, registry has {}", fields.len(), reg.fields.len()));
    }
    for (i, (f, (name, ty, opt))) in fields.iter().zip(&reg.fields).enumerate() {
        if f.name() != NAMES[*name] || f.index() != i || f.get_type() != prim(*ty) || f.optional() != *opt {
            return Err(format!(
                "fields()[{i}] = ({:?}, index {}, {:?}, optional {}), registry has ({:?}, {}, optional {})",
                f.name(),
                f.index(),
                f.get_type(),
                f.optional(),
                NAMES[*name],
                PRIM_NAMES[*ty],
                opt
            ));
        }
    }
    let functions: Vec<_> = s.functions().collect();
    if functions.len() != reg.functions.len() {
        return Err(format!("functions() yields {} items, registry has {}", functions.len(), reg.functions.len()));
    }
    for (i, (f, name)) in functions.iter().zip(&reg.functions).enumerate() {
        if f.name() != NAMES[*name] || f.index() != i {
            return Err(format!("functions()[{i}] = ({:?}, index {}), registry has {:?}", f.name(), f.index(), NAMES[*name]));
        }
    }
    let lists: Vec<_> = s.lists().collect();
    if lists.len() != reg.lists.len() {
        return Err(format!("lists() yields {} items, registry has {}", lists.len(), reg.lists.len()));
    }
    for (i, (l, ty)) in lists.iter().zip(&reg.lists).enumerate() {
        if l.get_type() != list_type(*ty) {
            return Err(format!("lists()[{i}] is for {:?}, registry has {}", l.get_type(), LIST_TYPE_NAMES[*ty]));
        }
    }
    for t in 0..LIST_TYPE_NAMES.len() {
        let got = s.get_list(&list_type(t));
        match (got, reg.lists.iter().position(|l| *l == t)) {
            (None, None) => {}
            (Some(l), Some(i)) if l == lists[i] && l.get_type() == list_type(t) => {}
            (got, want) => {
                return Err(format!("get_list({}) = {:?}, registry position {:?}", LIST_TYPE_NAMES[t], got.map(|l| l.get_type()), want));
            }
        }
    }
    for (n, name) in NAMES.iter().enumerate() {
        let holder = reg.holder(n);
        let gf = s.get_field(name);
        let gfn = s.get_function(name);
        let ok_field = match (holder, &gf) {
            (Some(Holder::Field(i)), Ok(f)) => {
                f.index() == i && f.name() == *name && f.get_type() == prim(reg.fields[i].1) && f.optional() == reg.fields[i].2 && *f == fields[i]
            }
            (Some(Holder::Field(_)), Err(_)) => false,
            (_, Ok(_)) => false,
            (_, Err(_)) => true,
        };
        if !ok_field {
            return Err(format!("get_field({name:?}) = {:?}, registry holder {holder:?}", gf.map(|f| (f.name(), f.index()))));
        }
        let ok_fn = match (holder, &gfn) {
            (Some(Holder::Function(i)), Ok(f)) => f.index() == i && f.name() == *name && *f == functions[i],
            (Some(Holder::Function(_)), Err(_)) => false,
            (_, Ok(_)) => false,
            (_, Err(_)) => true,
        };
        if !ok_fn {
            return Err(format!("get_function({name:?}) = {:?}, registry holder {holder:?}", gfn.map(|f| (f.name(), f.index()))));
        }
    }
    Ok(())
}

fn hit(t: usize) -> LhsValue<'static> {
    match t {
        0 => LhsValue::Bool(true),
        1 => LhsValue::Bytes(b"a".to_vec().into()),
        2 => LhsValue::Int(1),
        _ => LhsValue::Ip(IpAddr::V4(Ipv4Addr::new(1, 2, 3, 4))),
    }
}

fn miss(t: usize) -> LhsValue<'static> {
    match t {
        0 => LhsValue::Bool(false),
        1 => LhsValue::Bytes(b"b".to_vec().into()),
        2 => LhsValue::Int(0),
        _ => LhsValue::Ip(IpAddr::V4(Ipv4Addr::new(5, 6, 7, 8))),
    }
}

/// the filter text that tests field `name` of primitive type `t` against its "hit" value
fn field_filter(name: &str, t: usize) -> String {
    match t {
        0 => name.to_string(),
        1 => format!("{name} == \"a\""),
        2 => format!("{name} == 1"),
        _ => format!("{name} == 1.2.3.4"),
    }
}

/// A context in which field #target holds its hit value and every other field its miss value
/// (`invert`: the other way round).
fn context(s: &Scheme, reg: &Registry, target: Option<usize>, invert: bool) -> Result<ExecutionContext<'static>, String> {
    let mut ec: ExecutionContext<'static> = ExecutionContext::new(s);
    for (i, (name, ty, _)) in reg.fields.iter().enumerate() {
        let is_hit = (Some(i) == target) != invert;
        let f = s.get_field(NAMES[*name]).map_err(|e| format!("get_field({:?}): {e}", NAMES[*name]))?;
        ec.set_field_value(f, if is_hit { hit(*ty) } else { miss(*ty) })
            .map_err(|e| format!("set_field_value({:?}): {e}", NAMES[*name]))?;
    }
    Ok(ec)
}

fn parse_ok(s: &Scheme, text: &str) -> Result<Result<wirefilter::Filter, String>, String> {
    catch(|| s.parse(text).map(|ast| ast.compile()).map_err(|e| e.to_string()))
}

fn run_filter(f: &wirefilter::Filter, ec: &ExecutionContext<'static>) -> Result<bool, String> {
    match catch(|| f.execute(ec)) {
        Err(p) => Err(format!("execution panicked: {p}")),
        Ok(Err(e)) => Err(format!("execution refused: {e}")),
        Ok(Ok(b)) => Ok(b),
    }
}

/// Resolution of every probe name through the API and through the parser.
fn check_resolution(s: &Scheme, reg: &Registry, st: &mut Stats) -> Result<(), (String, String)> {
    let err = |sig: &str, m: String| Err((sig.to_string(), m));
    for probe in PROBES {
        let holder = reg.holder_of_text(probe);
        // API
        let gf = s.get_field(probe).ok().map(|f| f.index());
        let gfn = s.get_function(probe).ok().map(|f| f.index());
        let want_f = if let Some(Holder::Field(i)) = holder { Some(i) } else { None };
        let want_fn = if let Some(Holder::Function(i)) = holder { Some(i) } else { None };
        if gf != want_f || gfn != want_fn {
            return err(
                "api-resolution",
                format!("get_field({probe:?}) = {gf:?}, get_function({probe:?}) = {gfn:?}; the registry holds {holder:?}"),
            );
        }
        // parser
        let call = format!("{probe}()");
        match holder {
            Some(Holder::Field(i)) => {
                let t = reg.fields[i].1;
                let text = field_filter(probe, t);
                let f = match parse_ok(s, &text) {
                    Err(p) => return err("parse-panic", format!("parsing {text:?} panicked: {p}")),
                    Ok(Err(e)) => return err("registered-name-unresolved", format!("{text:?} does not parse although {probe:?} is a {} field:\n{e}", PRIM_NAMES[t])),
                    Ok(Ok(f)) => f,
                };
                for invert in [false, true] {
                    let ec = context(s, reg, Some(i), invert).map_err(|m| ("context".to_string(), m))?;
                    match run_filter(&f, &ec) {
                        Ok(b) if b != invert => {}
                        other => {
                            return err(
                                "resolved-to-other-field",
                                format!(
                                    "{text:?} with field {probe:?} = {} value and every other field = {} value gives {other:?}",
                                    if invert { "miss" } else { "hit" },
                                    if invert { "hit" } else { "miss" }
                                ),
                            );
                        }
                    }
                }
                // a field is not callable, and only a Bool field is a filter on its own
                for (wrong, why) in [(call.clone(), "a field was accepted as a function call"), (format!("{probe}() == 100"), "a field was accepted as a function call")] {
                    match parse_ok(s, &wrong) {
                        Err(p) => return err("parse-panic", format!("parsing {wrong:?} panicked: {p}")),
                        Ok(Ok(_)) => return err("field-function-interchanged", format!("{wrong:?} parses: {why}")),
                        Ok(Err(_)) => {}
                    }
                }
                st.class("probe-resolves-to-field");
            }
            Some(Holder::Function(i)) => {
                let name = reg.functions[i];
                for (k, want) in [(100 + name as i64, true), (100 + ((name as i64 + 1) % 6), false)] {
                    let text = format!("{probe}() == {k}");
                    let f = match parse_ok(s, &text) {
                        Err(p) => return err("parse-panic", format!("parsing {text:?} panicked: {p}")),
                        Ok(Err(e)) => return err("registered-name-unresolved", format!("{text:?} does not parse although {probe:?} is a function:\n{e}")),
                        Ok(Ok(f)) => f,
                    };
                    let ec = context(s, reg, None, false).map_err(|m| ("context".to_string(), m))?;
                    match run_filter(&f, &ec) {
                        Ok(b) if b == want => {}
                        other => return err("resolved-to-other-function", format!("{text:?} gives {other:?}, function {probe:?} returns {}", 100 + name)),
                    }
                }
                for wrong in [probe.to_string(), format!("{probe} == 100"), format!("{probe} == \"a\"")] {
                    match parse_ok(s, &wrong) {
                        Err(p) => return err("parse-panic", format!("parsing {wrong:?} panicked: {p}")),
                        Ok(Ok(_)) => return err("field-function-interchanged", format!("{wrong:?} parses although {probe:?} is a function")),
                        Ok(Err(_)) => {}
                    }
                }
                st.class("probe-resolves-to-function");
            }
            None => {
                for t in 0..4 {
                    let text = field_filter(probe, t);
                    match catch(|| s.parse(&text).map(|_| ()).map_err(|e| e.to_string())) {
                        Err(p) => return err("parse-panic", format!("parsing {text:?} panicked: {p}")),
                        Ok(Ok(())) => {
                            return err("unregistered-name-resolved", format!("{text:?} parses although nothing named {probe:?} is registered"));
                        }
                        Ok(Err(e)) => {
                            // the whole dotted name is the unknown identifier
                            let carets = e.lines().nth(2).map(|l| l.matches('^').count()).unwrap_or(0);
                            let at_start = e.lines().nth(2).map(|l| l.starts_with('^')).unwrap_or(false);
                            if !(e.trim_end().ends_with("unknown identifier") && at_start && carets == probe.len()) {
                                return err(
                                    "unknown-name-error-shape",
                                    format!("{text:?}: expected `unknown identifier` spanning the complete name {probe:?}, got\n{e}"),
                                );
                            }
                        }
                    }
                }
                for text in [call.clone(), format!("{probe}() == 100")] {
                    match catch(|| s.parse(&text).map(|_| ()).map_err(|e| e.to_string())) {
                        Err(p) => return err("parse-panic", format!("parsing {text:?} panicked: {p}")),
                        Ok(Ok(())) => {
                            return err("unregistered-name-resolved", format!("{text:?} parses although nothing named {probe:?} is registered"));
                        }
                        Ok(Err(_)) => {}
                    }
                }
                if NAMES.iter().any(|n| reg.holder_of_text(n).is_some() && (n.starts_with(probe) || probe.starts_with(n) || n.eq_ignore_ascii_case(probe))) {
                    st.class("probe-unregistered-neighbour-of-registered");
                } else {
                    st.class("probe-unregistered");
                }
            }
        }
    }
    Ok(())
}

/// A clone is the same scheme; an identically re-built scheme is a different one.
fn check_identity(ops: &[Op], s: &Scheme, reg: &Registry, st: &mut Stats) -> Result<(), (String, String)> {
    let err = |sig: &str, m: String| Err((sig.to_string(), m));
    let clone = s.clone();
    let (rebuilt, _, _) = replay(ops, false).map_err(|f| (f.sig, f.msg))?;
    if !(*s == clone && clone == *s) {
        return err("clone-not-interchangeable", "scheme != its clone".into());
    }
    if *s == rebuilt || rebuilt == *s {
        return err("rebuilt-interchangeable", "a scheme compares equal to an identically re-built scheme".into());
    }
    for (i, (name, ty, _)) in reg.fields.iter().enumerate() {
        let name = NAMES[*name];
        let f_orig = s.get_field(name).map_err(|e| ("api-resolution".to_string(), e.to_string()))?;
        let f_clone = clone.get_field(name).map_err(|e| ("api-resolution".to_string(), e.to_string()))?;
        let f_re = rebuilt.get_field(name).map_err(|e| ("api-resolution".to_string(), e.to_string()))?;
        if f_orig != f_clone {
            return err("clone-not-interchangeable", format!("field {name:?} of the clone != field of the original"));
        }
        if f_orig == f_re {
            return err("rebuilt-interchangeable", format!("field {name:?} of a re-built scheme == field of the original"));
        }
        if catch(|| f_orig.reborrow(&clone).index()).ok() != Some(i) {
            return err("clone-not-interchangeable", format!("field {name:?} cannot be reborrowed relative to the clone"));
        }
        // contexts
        let mut ec_clone: ExecutionContext<'static> = ExecutionContext::new(&clone);
        let mut ec_orig: ExecutionContext<'static> = ExecutionContext::new(s);
        let mut ec_re: ExecutionContext<'static> = ExecutionContext::new(&rebuilt);
        if let Err(e) = ec_clone.set_field_value(f_orig, hit(*ty)) {
            return err("clone-not-interchangeable", format!("context of the clone refuses field {name:?} of the original: {e}"));
        }
        if let Err(e) = ec_orig.set_field_value(f_clone, hit(*ty)) {
            return err("clone-not-interchangeable", format!("context of the original refuses field {name:?} of the clone: {e}"));
        }
        match ec_re.set_field_value(f_orig, hit(*ty)) {
            Err(SetFieldValueError::SchemeMismatch(_)) => {}
            other => {
                return err(
                    "rebuilt-interchangeable",
                    format!("context of a re-built scheme given field {name:?} of the original: {other:?}, expected SchemeMismatch"),
                );
            }
        }
        match ec_orig.set_field_value(f_re, hit(*ty)) {
            Err(SetFieldValueError::SchemeMismatch(_)) => {}
            other => {
                return err(
                    "rebuilt-interchangeable",
                    format!("context of the original given field {name:?} of a re-built scheme: {other:?}, expected SchemeMismatch"),
                );
            }
        }
        if ec_clone.get_field_value(f_orig) != Some(&hit(*ty)) || ec_clone.get_field_value(f_clone) != Some(&hit(*ty)) {
            return err("clone-not-interchangeable", format!("value of {name:?} set through the original's field is not read back"));
        }
    }
    // filters: parsed with one, executed on a context of the other
    let text = if let Some((name, ty, _)) = reg.fields.first() {
        Some((field_filter(NAMES[*name], *ty), Some(0)))
    } else {
        reg.functions.first().map(|n| (format!("{}() == {}", NAMES[*n], 100 + n), None))
    };
    if let Some((text, target)) = text {
        let parse = |sch: &Scheme| parse_ok(sch, &text).map_err(|p| ("parse-panic".to_string(), p))?.map_err(|e| ("registered-name-unresolved".to_string(), format!("{text:?}: {e}")));
        let f_clone = parse(&clone)?;
        let f_orig = parse(s)?;
        let f_re = parse(&rebuilt)?;
        let ctx = |sch: &Scheme| context(sch, reg, target, false).map_err(|m| ("context".to_string(), m));
        let (c_orig, c_clone, c_re) = (ctx(s)?, ctx(&clone)?, ctx(&rebuilt)?);
        for (what, f, c) in [("filter of the clone on a context of the original", &f_clone, &c_orig), ("filter of the original on a context of the clone", &f_orig, &c_clone)] {
            match catch(|| f.execute(c)) {
                Ok(Ok(true)) => {}
                other => return err("clone-not-interchangeable", format!("{what} ({text:?}): {other:?}, expected Ok(true)")),
            }
        }
        for (what, f, c) in [
            ("filter of a re-built scheme on a context of the original", &f_re, &c_orig),
            ("filter of the original on a context of a re-built scheme", &f_orig, &c_re),
            ("filter of the clone on a context of a re-built scheme", &f_clone, &c_re),
        ] {
            match catch(|| f.execute(c)) {
                Ok(Err(_)) => {}
                other => return err("rebuilt-interchangeable", format!("{what} ({text:?}): {other:?}, expected a scheme mismatch error")),
            }
        }
        match catch(|| f_re.execute(&c_re)) {
            Ok(Ok(true)) => {}
            other => return err("context", format!("filter and context of the re-built scheme: {other:?}")),
        }
        st.class("identity-checked-with-filter");
    } else {
        st.class("identity-checked-without-identifiers");
    }
    Ok(())
}

fn history_checks(ops: &[Op], every_prefix: bool, st: &mut Stats) -> CaseResult {
    let (scheme, reg, outs) = replay(ops, true)?;
    let wrap = |sig: String, m: String| Fail::new(sig, m, show_case(ops));
    if every_prefix {
        for k in 0..ops.len() {
            let (s, r, _) = replay(&ops[..k], true)?;
            catch(|| check_state(&s, &r))
                .unwrap_or_else(|p| Err(format!("panic: {p}")))
                .map_err(|m| wrap("state-differs".into(), format!("after {k} steps: {m}")))?;
        }
    }
    catch(|| check_state(&scheme, &reg))
        .unwrap_or_else(|p| Err(format!("panic: {p}")))
        .map_err(|m| wrap("state-differs".into(), format!("after all {} steps: {m}", ops.len())))?;
    catch(|| check_resolution(&scheme, &reg, st))
        .unwrap_or_else(|p| Err(("oracle-panic".into(), p)))
        .map_err(|(s, m)| wrap(s, m))?;
    catch(|| check_identity(ops, &scheme, &reg, st))
        .unwrap_or_else(|p| Err(("oracle-panic".into(), p)))
        .map_err(|(s, m)| wrap(s, m))?;
    st.eval();
    st.class(&format!("history-length-{:02}", ops.len()));
    let rejected = outs.iter().filter(|o| **o != Outcome::Accepted).count();
    st.class(match rejected {
        0 => "rejections-0",
        1 => "rejections-1",
        2..=3 => "rejections-2..3",
        _ => "rejections-4+",
    });
    if outs.contains(&Outcome::HeldByField) {
        st.class("rejected-held-by-field");
    }
    if outs.contains(&Outcome::HeldByFunction) {
        st.class("rejected-held-by-function");
    }
    if outs.contains(&Outcome::ListTaken) {
        st.class("rejected-list-taken");
    }
    // cross-kind collisions
    for (op, o) in ops.iter().zip(&outs) {
        match (op, o) {
            (Op::Field { .. }, Outcome::HeldByFunction) => st.class("field-onto-function"),
            (Op::Function { .. }, Outcome::HeldByField) => st.class("function-onto-field"),
            _ => {}
        }
    }
    let first_rej = outs.iter().position(|o| *o != Outcome::Accepted);
    if let Some(p) = first_rej {
        if outs[p + 1..].contains(&Outcome::Accepted) {
            st.nontrivial(ops);
            st.sample("rejected-then-accepted", || {
                json!({"history": ops.iter().zip(&outs).map(|(o, r)| format!("{} -> {:?}", o.show(), r)).collect::<Vec<_>>()})
            });
        }
    }
    Ok(())
}

// reduced alphabet: 3 names x {Int field, optional Bytes field, function} + lists for Int and Bytes
const REDUCED: usize = 11;

fn reduced_op(i: usize) -> Op {
    match i {
        0..=8 => {
            let name = REDUCED_NAMES[i / 3];
            match i % 3 {
                0 => Op::Field { name, ty: 2, optional: false },
                1 => Op::Field { name, ty: 1, optional: true },
                _ => Op::Function { name },
            }
        }
        9 => Op::List { ty: 2 },
        _ => Op::List { ty: 1 },
    }
}

fn reduced_total(max_len: usize) -> u64 {
    (0..=max_len).map(|k| (REDUCED as u64).pow(k as u32)).sum()
}

/// [len, op, op, ...]
fn reduced_key(mut i: u64) -> Vec<u32> {
    let mut len = 0usize;
    loop {
        let n = (REDUCED as u64).pow(len as u32);
        if i < n {
            break;
        }
        i -= n;
        len += 1;
    }
    let mut k = vec![len as u32];
    for _ in 0..len {
        k.push((i % REDUCED as u64) as u32);
        i /= REDUCED as u64;
    }
    k
}

fn reduced_case(ch: &mut Choices<'_>, st: &mut Stats) -> CaseResult {
    let len = ch.draw(7);
    let ops: Vec<Op> = (0..len).map(|_| reduced_op(ch.draw(REDUCED))).collect();
    // every prefix of an enumerated history is itself an enumerated history
    history_checks(&ops, false, st)
}

fn random_case(ch: &mut Choices<'_>, st: &mut Stats) -> CaseResult {
    let len = ch.draw(13);
    let mut ops = Vec::new();
    for _ in 0..len {
        let op = match ch.weighted(&[5, 4, 3, 2]) {
            0 => Op::Field { name: ch.draw(6), ty: ch.draw(4), optional: false },
            1 => Op::Field { name: ch.draw(6), ty: ch.draw(4), optional: true },
            2 => Op::Function { name: ch.draw(6) },
            _ => Op::List { ty: ch.draw(LIST_TYPE_NAMES.len()) },
        };
        ops.push(op);
    }
    history_checks(&ops, true, st)
}

// ---------------------------------------------------------------------------
// sub-check "generated-names": names of every length (1..300 bytes), families of
// names that differ in one byte or by one byte of length, registered through the
// Rust builder or (mandatory fields) through the C API

const NAME_LENGTHS: [usize; 30] = [1, 2, 3, 5, 6, 7, 8, 15, 16, 17, 31, 32, 33, 62, 63, 64, 65, 66, 70, 100, 126, 127, 128, 129, 130, 191, 192, 255, 256, 300];

fn name_of_length(ch: &mut Choices<'_>, len: usize) -> String {
    const START: &[u8] = b"ghijklmpqrstuvwxyz";
    const REST: &[u8] = b"abcdefghijklmnopqrstuvwxyz0123456789_";
    let mut s = String::new();
    s.push(*ch.pick(START) as char);
    let fill = *ch.pick(REST) as char;
    while s.len() < len {
        // dots now and then, never doubled, never last
        if s.len() % 9 == 4 && s.len() + 1 < len && !s.ends_with('.') {
            s.push('.');
        } else if s.len() + 1 == len {
            s.push(*ch.pick(REST) as char);
        } else {
            s.push(fill);
        }
    }
    s
}

/// A neighbour of `name` that is a different identifier: one byte dropped, added or changed.
fn neighbour(ch: &mut Choices<'_>, name: &str) -> String {
    let mut t = name.to_string();
    match ch.draw(5) {
        0 if t.len() > 1 && !t[..t.len() - 1].ends_with('.') => {
            t.pop();
        }
        // a C caller counting the terminator: a different name as far as the registry goes
        4 => t.push('\0'),
        1 => t.push('q'),
        2 => {
            let last = t.pop().unwrap();
            t.push(if last == 'q' { 'r' } else { 'q' });
        }
        _ => t.push_str("_x"),
    }
    t
}

fn generated_names_case(ch: &mut Choices<'_>, st: &mut Stats) -> CaseResult {
    #[derive(Clone, Debug)]
    enum Kind {
        Field(usize, bool, bool), // prim, optional, via C API
        Function,
    }
    let n = ch.range(1, 14);
    let mut names: Vec<String> = Vec::new();
    let mut ops: Vec<(String, Kind)> = Vec::new();
    for _ in 0..n {
        let name = match ch.weighted(&[4, 3, 2]) {
            0 => {
                let len = *ch.pick(&NAME_LENGTHS);
                name_of_length(ch, len)
            }
            1 if !names.is_empty() => {
                let base = ch.pick(&names).clone();
                neighbour(ch, &base)
            }
            2 if !names.is_empty() => ch.pick(&names).clone(),
            _ => {
                let len = 1 + ch.draw(12);
                name_of_length(ch, len)
            }
        };
        let kind = match ch.weighted(&[3, 2, 1]) {
            0 => Kind::Field(ch.draw(4), false, ch.boolean()),
            1 => Kind::Field(ch.draw(4), true, false),
            _ => Kind::Function,
        };
        names.push(name.clone());
        ops.push((name, kind));
    }
    let show = || json!({"registrations_in_order": ops.iter().map(|(n, k)| json!({"name": n, "length": n.len(), "as": format!("{k:?}")})).collect::<Vec<_>>()});
    // model: exact name -> (is_field, position)
    let mut held: Vec<(String, bool)> = Vec::new();
    let mut fields: Vec<(String, usize, bool)> = Vec::new();
    let mut functions: Vec<String> = Vec::new();
    // the C API's builder wraps the engine's (it dereferences to it)
    let mut b = wirefilter_ffi::wirefilter_create_scheme_builder();
    for (i, (name, kind)) in ops.iter().enumerate() {
        st.eval();
        let want = held.iter().find(|(h, _)| h == name).map(|(_, f)| *f);
        let got: Outcome = catch(|| match kind {
            Kind::Field(p, false, true) => {
                let ct = wirefilter_ffi::wirefilter_create_primitive_type(
                    [wirefilter_ffi::CPrimitiveType::Bool, wirefilter_ffi::CPrimitiveType::Bytes, wirefilter_ffi::CPrimitiveType::Int, wirefilter_ffi::CPrimitiveType::Ip][*p],
                );
                if wirefilter_ffi::wirefilter_add_type_field_to_scheme(&mut b, name.as_ptr().cast(), name.len(), ct) {
                    Outcome::Accepted
                } else {
                    // which kind holds the name is not reported by the boolean: take the model's answer
                    match want {
                        Some(false) => Outcome::HeldByFunction,
                        _ => Outcome::HeldByField,
                    }
                }
            }
            Kind::Field(p, false, _) => ident_outcome(b.add_field(name, prim(*p))),
            Kind::Field(p, true, _) => ident_outcome(b.add_optional_field(name, prim(*p))),
            Kind::Function => ident_outcome(b.add_function(name, function_def(i % 6))),
        })
        .map_err(|p| Fail::new("builder-panic", format!("registration #{i} panicked: {p}"), show()))?;
        let want_out = match want {
            None => Outcome::Accepted,
            Some(true) => Outcome::HeldByField,
            Some(false) => Outcome::HeldByFunction,
        };
        if got != want_out {
            let sig = match (want_out, got) {
                (Outcome::Accepted, _) => "free-name-refused",
                (_, Outcome::Accepted) => "taken-name-accepted",
                _ => "wrong-holder-kind",
            };
            return Err(Fail::new(sig, format!("registration #{i} of {name:?} ({} bytes): engine says {got:?}, the registry says {want_out:?}", name.len()), show()));
        }
        if want.is_none() {
            match kind {
                Kind::Field(p, opt, _) => {
                    held.push((name.clone(), true));
                    fields.push((name.clone(), *p, *opt));
                }
                Kind::Function => {
                    held.push((name.clone(), false));
                    functions.push(name.clone());
                }
            }
        } else {
            st.class("generated-names:duplicate-refused");
        }
    }
    let s = catch(|| wirefilter_ffi::wirefilter_build_scheme(b)).map_err(|p| Fail::new("builder-panic", format!("build() panicked: {p}"), show()))?;
    let s: &Scheme = &s;
    let fail = |sig: &str, msg: String| Err(Fail::new(sig, msg, show()));
    // listing
    let listed: Vec<(String, usize, Type, bool)> = s.fields().map(|f| (f.name().to_string(), f.index(), f.get_type(), f.optional())).collect();
    let want_listed: Vec<(String, usize, Type, bool)> = fields.iter().enumerate().map(|(i, (n, p, o))| (n.clone(), i, prim(*p), *o)).collect();
    if listed != want_listed || s.field_count() != fields.len() {
        return fail("state-differs", format!("fields() = {listed:?}
registry: {want_listed:?}"));
    }
    let listed_fn: Vec<(String, usize)> = s.functions().map(|f| (f.name().to_string(), f.index())).collect();
    let want_fn: Vec<(String, usize)> = functions.iter().enumerate().map(|(i, n)| (n.clone(), i)).collect();
    if listed_fn != want_fn || s.function_count() != functions.len() {
        return fail("state-differs", format!("functions() = {listed_fn:?}
registry: {want_fn:?}"));
    }
    // lookups: every registered name, and neighbours that are not registered
    let mut probes: Vec<String> = names.clone();
    for nm in &names {
        probes.push(neighbour(ch, nm));
        probes.push(nm.to_uppercase());
        if let Some((head, _)) = nm.rsplit_once('.') {
            probes.push(head.to_string());
        }
    }
    for probe in &probes {
        st.eval();
        let want_f = fields.iter().position(|f| &f.0 == probe);
        let want_fn = functions.iter().position(|f| f == probe);
        let got_f = s.get_field(probe).ok().map(|f| f.index());
        let got_fn = s.get_function(probe).ok().map(|f| f.index());
        if got_f != want_f || got_fn != want_fn {
            let sig = if want_f.is_some() || want_fn.is_some() { "registered-name-unresolved" } else { "unregistered-name-resolved" };
            return fail(
                sig,
                format!("{probe:?} ({} bytes): get_field -> {got_f:?} (registry {want_f:?}), get_function -> {got_fn:?} (registry {want_fn:?})", probe.len()),
            );
        }
        if probe.contains('\0') {
            // not an identifier of the filter language: API lookups only
            st.class("generated-names:name-with-nul");
            continue;
        }
        // through the parser: `name == literal` for a field, `name() == 1` for a function
        let lit = |p: usize| ["", "\"v\"", "1", "10.0.0.1"][p];
        let text = match (want_f, want_fn) {
            (Some(i), _) if fields[i].1 == 0 => probe.clone(),
            (Some(i), _) => format!("{probe} == {}", lit(fields[i].1)),
            (None, Some(_)) => format!("{probe}() == 1"),
            (None, None) => format!("{probe} == 1"),
        };
        let parsed = catch(|| s.parse(&text).map(|_| ()).map_err(|e| e.to_string())).map_err(|p| Fail::new("parse-panic", p, show()))?;
        match (want_f.is_some() || want_fn.is_some(), parsed) {
            (true, Err(e)) => return fail("registered-name-unresolved", format!("{text:?} does not parse although the name is registered:\n{e}")),
            (false, Ok(())) => return fail("unregistered-name-resolved", format!("{text:?} parses although no such name is registered")),
            _ => {}
        }
    }
    let longest = names.iter().map(|n| n.len()).max().unwrap_or(0);
    st.class(match longest {
        0..=31 => "generated-names:longest-below-32",
        32..=63 => "generated-names:longest-32..63",
        64..=127 => "generated-names:longest-64..127",
        _ => "generated-names:longest-128+",
    });
    if held.len() >= 2 {
        st.nontrivial(&ops.iter().map(|(n, k)| (n.clone(), format!("{k:?}"))).collect::<Vec<_>>());
    }
    st.sample("generated-names", show);
    Ok(())
}

pub fn subs() -> Vec<Sub> {
    vec![
        Sub { name: "reduced-exhaustive", f: Box::new(reduced_case) },
        Sub { name: "random-histories", f: Box::new(random_case) },
        Sub { name: "generated-names", f: Box::new(generated_names_case) },
    ]
}

pub fn run(run: &Run) {
    let max_len = run.tier.pick(4, 6);
    run.rule(&format!(
        "reduced-exhaustive: every sequence of length 0..={max_len} over 11 operations (names x, x.y, X x {{add_field Int, add_optional_field Bytes, add_function}}, add_list Int, add_list Bytes), \
         each replayed against an abstract registry: outcome and holder kind of every call, then counts, order, indexes, types, optionality, get_field/get_function/get_list of the built scheme, \
         resolution of 30 probe names (pool, prefixes, extensions, case variants) through the API and through parsing `name`, `name == literal`, `name()`, with execution on hit/miss contexts, \
         and identity (clone interchangeable, identical re-build not); random-histories: sequences of length 0..=12 over 6 names x 4 types x (field, optional field, function) and lists for 7 types, state compared after every prefix; \
         generated-names: 1..14 registrations of names 1..300 bytes long (lengths around 16/32/64/128/256, families differing in one byte or one byte of length, deliberate repeats) as field / optional field / function, mandatory fields half of the time through the C API; outcomes, listing, get_field/get_function and parsing of every registered name and of unregistered neighbours (byte dropped/added/changed, upper case, dotted prefix); \
         non-trivial = the history contains a rejected registration followed by an accepted one (distinct histories counted)"
    ));
    run.assume("no generated name begins with an operator keyword (not, any, all) - outside the property's pool");
    run.assume("mandatory fields are always set before a filter is executed");
    let subs = subs();
    run_regressions(run, &subs);
    let sub = |n: &str| &*find_sub(&subs, n).unwrap().f;
    run.enumerate("reduced-exhaustive", reduced_total(max_len), &reduced_key, sub("reduced-exhaustive"));
    run.random("random-histories", run.tier.pick(100_000, 600_000), 60, sub("random-histories"));
    run.random("generated-names", run.tier.pick(40_000, 1_500_000), 120, sub("generated-names"));
    run.note("exhaustive_subchecks", json!([format!("reduced-exhaustive (length <= {max_len})")]));
}

//! C15 - type and scheme encodings round-trip; over-deep or duplicate input is refused.
//!
//! Model of a type: a primitive plus a string of container layers (outermost
//! first).  Its JSON form is written by hand from the documented grammar
//! (`"Int"`, `{"Array":T}`, `{"Map":T}`); the engine's three encodings (the
//! recursive `Type`, the packed `CompoundType`, the C API's `CType`) are
//! compared with each other and with the model only through public
//! conversions, and decoded layer by layer.
//!
//! Model of a scheme: an ordered list of (name, type, optional) with unique
//! names.  Documents are written by an own JSON writer (canonical spelling =
//! what a minimal-escaping serializer prints; variant spelling = free
//! whitespace, optional `\uXXXX` / short escapes, swapped member order).

use crate::choices::Choices;
use crate::engine::catch;
use crate::runner::*;
use serde_json::{Value, json};
use std::collections::BTreeSet;
use wirefilter::{CompoundType, GetType, Scheme, SchemeBuilder, Type};
use wirefilter_ffi::{
    CPrimitiveType, CType, Status, wirefilter_create_array_type, wirefilter_create_map_type,
    wirefilter_create_primitive_type, wirefilter_free_string, wirefilter_serialize_type_to_json,
};

pub const SIG_F3: &str = "type-json-deep-panic";
pub const SIG_F2: &str = "scheme-json-owned-key";

const PRIMS: [&str; 4] = ["Bool", "Bytes", "Int", "Ip"];
/// primitive codes of the C header (`wirefilter.h`)
const CCODES: [u8; 4] = [4, 2, 3, 1];

/// A type of the model: primitive + container layers, outermost first (true = Map).
#[derive(Clone, PartialEq, Eq, Hash, Debug, PartialOrd, Ord)]
pub struct MT {
    pub prim: usize,
    pub layers: Vec<bool>,
}

impl MT {
    fn both_kinds(&self) -> bool {
        self.layers.iter().any(|l| *l) && self.layers.iter().any(|l| !*l)
    }
}

/// JSON text of a type, from the documented grammar.  `ws` is inserted between tokens.
fn type_json_ws(mt: &MT, ws: &mut dyn FnMut() -> &'static str) -> String {
    let mut s = String::new();
    for l in &mt.layers {
        s.push('{');
        s.push_str(ws());
        s.push_str(if *l { "\"Map\"" } else { "\"Array\"" });
        s.push_str(ws());
        s.push(':');
        s.push_str(ws());
    }
    s.push('"');
    s.push_str(PRIMS[mt.prim]);
    s.push('"');
    for _ in &mt.layers {
        s.push_str(ws());
        s.push('}');
    }
    s
}

pub fn type_json(mt: &MT) -> String {
    type_json_ws(mt, &mut || "")
}

/// serde_json::Value of a type built without the text parser (which has its
/// own recursion limit of 128).
fn type_value(mt: &MT) -> Value {
    let mut v = Value::String(PRIMS[mt.prim].to_string());
    for l in mt.layers.iter().rev() {
        let mut m = serde_json::Map::new();
        m.insert(if *l { "Map" } else { "Array" }.to_string(), v);
        v = Value::Object(m);
    }
    v
}

fn prim_type(p: usize) -> Type {
    [Type::Bool, Type::Bytes, Type::Int, Type::Ip][p]
}

fn cprim(p: usize) -> CPrimitiveType {
    [CPrimitiveType::Bool, CPrimitiveType::Bytes, CPrimitiveType::Int, CPrimitiveType::Ip][p]
}

/// The recursive form, built through the public constructors.
pub fn build_type(mt: &MT) -> Type {
    let mut t = prim_type(mt.prim);
    for l in mt.layers.iter().rev() {
        t = if *l { Type::Map(CompoundType::from(t)) } else { Type::Array(CompoundType::from(t)) };
    }
    t
}

/// Decode a recursive type layer by layer.
pub fn walk(mut t: Type) -> Option<MT> {
    let mut layers = Vec::new();
    for _ in 0..200 {
        match t {
            Type::Bool => return Some(MT { prim: 0, layers }),
            Type::Bytes => return Some(MT { prim: 1, layers }),
            Type::Int => return Some(MT { prim: 2, layers }),
            Type::Ip => return Some(MT { prim: 3, layers }),
            Type::Array(c) => {
                layers.push(false);
                t = Type::from(c);
            }
            Type::Map(c) => {
                layers.push(true);
                t = Type::from(c);
            }
        }
    }
    None
}

fn show_mt(mt: &MT) -> Value {
    json!({"layers": mt.layers.len(), "type_json": type_json(mt)})
}

fn ffi_json(c: CType) -> Result<String, String> {
    let r = wirefilter_serialize_type_to_json(c);
    if r.status != Status::Success {
        return Err(format!("status {:?}", r.status));
    }
    let s = if r.json.ptr.is_null() {
        String::new()
    } else {
        let bytes = unsafe { std::slice::from_raw_parts(r.json.ptr as *const u8, r.json.len) };
        String::from_utf8_lossy(bytes).into_owned()
    };
    wirefilter_free_string(r.json);
    Ok(s)
}

macro_rules! guard {
    ($sig:expr, $case:expr, $what:expr, $e:expr) => {
        match catch(|| $e) {
            Ok(v) => v,
            Err(p) => return Err(Fail::new($sig, format!("{} panicked: {}", $what, p), $case)),
        }
    };
}

/// All round trips for a type with at most 32 layers.
fn type_checks(mt: &MT, st: &mut Stats) -> CaseResult {
    let n = mt.layers.len();
    assert!(n <= 32);
    let case = show_mt(mt);
    let want = type_json(mt);
    let ty = guard!("type-build-panic", case.clone(), "building the recursive type", build_type(mt));
    let fail = |sig: &str, msg: String| Err(Fail::new(sig, msg, show_mt(mt)));

    // recursive form decodes to the model
    let back = guard!("type-walk-panic", case.clone(), "decoding the recursive type", walk(ty));
    if back.as_ref() != Some(mt) {
        return fail("type-structure-mismatch", format!("Type built from the layers decodes to {back:?}"));
    }
    // Type -> CompoundType -> Type
    let ct = guard!("compound-panic", case.clone(), "Type -> CompoundType", CompoundType::from(ty));
    let ct2 = guard!("compound-panic", case.clone(), "CompoundType::from_type", CompoundType::from_type(ty));
    if ct != ct2 {
        return fail("compound-roundtrip", "From<Type> and from_type disagree".into());
    }
    let ty2 = guard!("compound-panic", case.clone(), "CompoundType -> Type", Type::from(ct));
    let ty3 = guard!("compound-panic", case.clone(), "CompoundType::into_type", ct.into_type());
    if ty2 != ty || ty3 != ty || walk(ty2).as_ref() != Some(mt) {
        return fail(
            "compound-roundtrip",
            format!("Type -> CompoundType -> Type gives {ty2:?} (decoded {:?}), expected {ty:?}", walk(ty2)),
        );
    }
    // Type -> CType -> Type, C constructors
    let c1 = guard!("ctype-panic", case.clone(), "Type -> CType", CType::from(ty));
    let c2 = guard!("ctype-panic", case.clone(), "C type constructors", {
        let mut c = wirefilter_create_primitive_type(cprim(mt.prim));
        for l in mt.layers.iter().rev() {
            c = if *l { wirefilter_create_map_type(c) } else { wirefilter_create_array_type(c) };
        }
        c
    });
    if c1 != c2 {
        return fail(
            "ctype-constructors-differ",
            format!("CType::from(Type) = {c1:?} but the C constructors applied innermost-first give {c2:?}"),
        );
    }
    if c1.len as usize != n || c1.primitive != CCODES[mt.prim] {
        return fail("ctype-header", format!("CType {c1:?}: expected len {n}, primitive code {}", CCODES[mt.prim]));
    }
    for (which, c) in [("CType::from(Type)", c1), ("C constructors", c2)] {
        let t = guard!("ctype-panic", case.clone(), "CType -> Type", Type::from(c));
        if t != ty || walk(t).as_ref() != Some(mt) {
            return fail("ctype-roundtrip", format!("{which} -> Type gives {t:?} (decoded {:?}), expected {ty:?}", walk(t)));
        }
        let j = guard!("ctype-panic", case.clone(), "wirefilter_serialize_type_to_json", ffi_json(c));
        match j {
            Ok(j) if j == want => {}
            other => {
                return fail("ctype-json", format!("wirefilter_serialize_type_to_json({which}) = {other:?}, expected {want}"));
            }
        }
    }
    // JSON out
    let j = guard!("type-serialize-panic", case.clone(), "serializing Type", serde_json::to_string(&ty).map_err(|e| e.to_string()));
    if j.as_deref() != Ok(want.as_str()) {
        return fail("type-json", format!("serde_json::to_string(&Type) = {j:?}, model JSON {want}"));
    }
    let j = guard!("type-serialize-panic", case.clone(), "serializing CompoundType", serde_json::to_string(&ct).map_err(|e| e.to_string()));
    if j.as_deref() != Ok(want.as_str()) {
        return fail("type-json", format!("serde_json::to_string(&CompoundType) = {j:?}, model JSON {want}"));
    }
    let v = guard!("type-serialize-panic", case.clone(), "serializing Type to a value", serde_json::to_value(ty).map_err(|e| e.to_string()));
    if v.as_ref() != Ok(&type_value(mt)) {
        return fail("type-json", format!("serde_json::to_value(Type) = {v:?}"));
    }
    // JSON in, four entry points, both targets
    let spaced = {
        let mut k = 0usize;
        type_json_ws(mt, &mut || {
            k += 1;
            [" ", "", "\n", "\t"][k % 4]
        })
    };
    let val = type_value(mt);
    let results: Vec<(&str, Result<Result<Type, String>, String>)> = vec![
        ("from_str", catch(|| serde_json::from_str::<Type>(&want).map_err(|e| e.to_string()))),
        ("from_str(spaced)", catch(|| serde_json::from_str::<Type>(&spaced).map_err(|e| e.to_string()))),
        ("from_slice", catch(|| serde_json::from_slice::<Type>(want.as_bytes()).map_err(|e| e.to_string()))),
        ("from_reader", catch(|| serde_json::from_reader::<_, Type>(want.as_bytes()).map_err(|e| e.to_string()))),
        ("from_value", catch(|| serde_json::from_value::<Type>(val.clone()).map_err(|e| e.to_string()))),
    ];
    for (ep, r) in results {
        match r {
            Err(p) => return fail("type-deserialize-panic", format!("{ep}::<Type> panicked: {p}")),
            Ok(Err(e)) => return fail("type-json-rejected", format!("{ep}::<Type> rejected a representable type: {e}")),
            Ok(Ok(t)) => {
                if t != ty || walk(t).as_ref() != Some(mt) {
                    return fail("type-json-wrong-type", format!("{ep}::<Type> gives {t:?} (decoded {:?})", walk(t)));
                }
            }
        }
    }
    let results: Vec<(&str, Result<Result<CompoundType, String>, String>)> = vec![
        ("from_str", catch(|| serde_json::from_str::<CompoundType>(&want).map_err(|e| e.to_string()))),
        ("from_reader", catch(|| serde_json::from_reader::<_, CompoundType>(want.as_bytes()).map_err(|e| e.to_string()))),
        ("from_value", catch(|| serde_json::from_value::<CompoundType>(val.clone()).map_err(|e| e.to_string()))),
    ];
    for (ep, r) in results {
        match r {
            Err(p) => return fail("type-deserialize-panic", format!("{ep}::<CompoundType> panicked: {p}")),
            Ok(Err(e)) => return fail("type-json-rejected", format!("{ep}::<CompoundType> rejected a representable type: {e}")),
            Ok(Ok(c)) => {
                if c != ct || walk(Type::from(c)).as_ref() != Some(mt) {
                    return fail("type-json-wrong-type", format!("{ep}::<CompoundType> gives {c:?}"));
                }
            }
        }
    }
    st.eval();
    st.class(&format!("type-layers-{:02}", n));
    if n >= 2 && mt.both_kinds() {
        st.nontrivial(mt);
    }
    Ok(())
}

// ---------------------------------------------------------------------------
// sub-checks over types

fn pattern_layers(ch: &mut Choices<'_>, n: usize, pattern: usize) -> Vec<bool> {
    match pattern {
        0 => vec![false; n],
        1 => vec![true; n],
        2 => (0..n).map(|i| i % 2 == 1).collect(),
        3 => (0..n).map(|i| i % 2 == 0).collect(),
        _ => {
            // 32 layers per raw choice (a full random word; shrinks towards all-array)
            let words: Vec<u32> = (0..n.div_ceil(32)).map(|_| ch.raw()).collect();
            (0..n).map(|i| (words[i / 32] >> (i % 32)) & 1 == 1).collect()
        }
    }
}

const PATTERN_NAMES: [&str; 5] = ["all-array", "all-map", "alternating-array-first", "alternating-map-first", "random"];

const EXH_LAYERS: usize = 12;

fn exhaustive_total() -> u64 {
    4 * ((1u64 << (EXH_LAYERS + 1)) - 1)
}

fn exhaustive_key(i: u64) -> Vec<u32> {
    let prim = (i % 4) as u32;
    let j = i / 4;
    let mut n = 0usize;
    while j >= (1u64 << (n + 1)) - 1 {
        n += 1;
    }
    let bits = j - ((1u64 << n) - 1);
    let mut k = vec![prim, n as u32];
    for b in 0..n {
        k.push(((bits >> b) & 1) as u32);
    }
    k
}

fn exhaustive_case(ch: &mut Choices<'_>, st: &mut Stats) -> CaseResult {
    let prim = ch.draw(4);
    let n = ch.draw(EXH_LAYERS + 1);
    let layers = (0..n).map(|_| ch.draw(2) == 1).collect();
    let mt = MT { prim, layers };
    type_checks(&mt, st)?;
    if n == 3 || n == EXH_LAYERS {
        st.sample("type-exhaustive", || show_mt(&mt));
    }
    Ok(())
}

/// [n - 13, pattern, prim, bits...]
fn sampled_case(ch: &mut Choices<'_>, st: &mut Stats) -> CaseResult {
    let n = 13 + ch.draw(20);
    let pattern = ch.draw(5);
    let prim = ch.draw(4);
    let layers = pattern_layers(ch, n, pattern);
    let mt = MT { prim, layers };
    type_checks(&mt, st)?;
    st.class(&format!("type-13..32-{}", PATTERN_NAMES[pattern]));
    if n == 32 {
        st.class("type-32-layers");
    }
    st.sample(&format!("type-sampled-{}", PATTERN_NAMES[pattern]), || show_mt(&mt));
    Ok(())
}

fn shapes_total() -> u64 {
    20 * 4 * 4
}

fn shapes_key(i: u64) -> Vec<u32> {
    vec![(i % 20) as u32, ((i / 20) % 4) as u32, (i / 80) as u32]
}

// ---------------------------------------------------------------------------
// over-deep descriptors

fn deep_outcome<T: serde::Serialize>(
    what: &str,
    input_json: &str,
    r: Result<Result<T, String>, String>,
    case: &Value,
    st: &mut Stats,
    band: &str,
    f3_open: bool,
) -> CaseResult {
    match r {
        Err(_) if f3_open => {
            // the recorded open finding: counted, the rest of the case is still examined
            st.excluded();
            Ok(())
        }
        Err(p) => Err(Fail::new(
            SIG_F3,
            format!("{what} panicked on a type descriptor that is too deep to represent: {p}"),
            case.clone(),
        )),
        Ok(Err(_)) => {
            st.class(&format!("deep-{band}-rejected"));
            Ok(())
        }
        Ok(Ok(t)) => {
            let back = catch(|| serde_json::to_string(&t).map_err(|e| e.to_string()));
            if back.as_ref().ok().and_then(|r| r.as_deref().ok()) == Some(input_json) {
                st.class(&format!("deep-{band}-accepted-same-json"));
                Ok(())
            } else {
                Err(Fail::new(
                    "type-json-deep-wrong-type",
                    format!("{what} accepted an over-deep descriptor as a different type: serializes back as {back:?}"),
                    case.clone(),
                ))
            }
        }
    }
}

fn deep_checks(mt: &MT, f3_open: bool, st: &mut Stats) -> CaseResult {
    let n = mt.layers.len();
    let js = type_json(mt);
    let val = type_value(mt);
    let band = if n == 33 {
        "33"
    } else if n < 128 {
        "34..127"
    } else {
        "128..130"
    };
    let case = json!({"layers": n, "type_json": js});
    let e = |e: serde_json::Error| e.to_string();
    deep_outcome("from_str::<Type>", &js, catch(|| serde_json::from_str::<Type>(&js).map_err(e)), &case, st, band, f3_open)?;
    deep_outcome("from_slice::<Type>", &js, catch(|| serde_json::from_slice::<Type>(js.as_bytes()).map_err(e)), &case, st, band, f3_open)?;
    deep_outcome("from_reader::<Type>", &js, catch(|| serde_json::from_reader::<_, Type>(js.as_bytes()).map_err(e)), &case, st, band, f3_open)?;
    deep_outcome("from_value::<Type>", &js, catch(|| serde_json::from_value::<Type>(val.clone()).map_err(e)), &case, st, band, f3_open)?;
    deep_outcome("from_str::<CompoundType>", &js, catch(|| serde_json::from_str::<CompoundType>(&js).map_err(e)), &case, st, band, f3_open)?;
    deep_outcome(
        "from_value::<CompoundType>",
        &js,
        catch(|| serde_json::from_value::<CompoundType>(val.clone()).map_err(e)),
        &case,
        st,
        band,
        f3_open,
    )?;
    // the same descriptor as the type of a scheme field
    let doc = format!("{{\"f\":{{\"type\":{js},\"optional\":false}}}}");
    let case = json!({"layers": n, "scheme_json": doc});
    let mut top = serde_json::Map::new();
    top.insert("f".into(), json!({"type": val, "optional": false}));
    let docv = Value::Object(top);
    // the outcome must be an error or a scheme whose JSON is the input
    deep_outcome("from_str::<Scheme>", &doc, catch(|| serde_json::from_str::<Scheme>(&doc).map_err(e)), &case, st, band, f3_open)?;
    deep_outcome("from_value::<Scheme>", &doc, catch(|| serde_json::from_value::<Scheme>(docv).map_err(e)), &case, st, band, f3_open)?;
    st.eval();
    st.class(&format!("deep-layers-{band}"));
    if mt.both_kinds() {
        st.nontrivial(mt);
    }
    Ok(())
}

fn deep_total() -> u64 {
    98 * 4 * 4
}

fn deep_key(i: u64) -> Vec<u32> {
    vec![(i % 98) as u32, ((i / 98) % 4) as u32, (i / 392) as u32]
}

/// [n - 33, pattern, prim, bits...]
fn deep_case_with(f3_open: bool, ch: &mut Choices<'_>, st: &mut Stats) -> CaseResult {
    let n = 33 + ch.draw(98);
    let pattern = ch.draw(5);
    let prim = ch.draw(4);
    let layers = pattern_layers(ch, n, pattern);
    let mt = MT { prim, layers };
    deep_checks(&mt, f3_open, st)?;
    st.class(&format!("deep-{}", PATTERN_NAMES[pattern]));
    if n == 33 || n == 34 || n == 127 || n == 128 {
        st.sample(&format!("deep-{n}"), || json!({"layers": n, "pattern": PATTERN_NAMES[pattern], "prim": PRIMS[prim]}));
    }
    Ok(())
}

// ---------------------------------------------------------------------------
// schemes

#[derive(Clone, Debug, PartialEq, Eq, Hash)]
pub struct MField {
    pub name: String,
    pub ty: MT,
    pub optional: bool,
}

const IDENT_START: &[u8] = b"abcdefghijklmnopqrstuvwxyzABCDEFGHIJKLMNOPQRSTUVWXYZ_";
const IDENT_REST: &[u8] = b"abcdefghijklmnopqrstuvwxyzABCDEFGHIJKLMNOPQRSTUVWXYZ_0123456789";
const NON_ASCII: &[char] = &[
    '\u{e9}', '\u{df}', '\u{436}', '\u{65e5}', '\u{672c}', '\u{1f600}', '\u{10348}', '\u{2028}', '\u{2029}', '\u{80}',
    '\u{ff}', '\u{fffd}', '\u{ffff}', '\u{10ffff}', '\u{d7ff}', '\u{e000}', '\u{feff}', '\u{301}',
];
const NEED_ESCAPE: &[char] = &['"', '\\', '\n', '\t', '\r', '\u{0}', '\u{1}', '\u{8}', '\u{c}', '\u{1f}', '\u{b}'];
const ODD_ASCII: &[char] = &[' ', '/', '.', '-', '[', ']', '{', '}', ':', ',', '\'', '$', '*', '(', ')', '=', '\u{7f}', 'u', '0'];

fn ident_segment(ch: &mut Choices<'_>, max: usize) -> String {
    let mut s = String::new();
    s.push(*ch.pick(IDENT_START) as char);
    for _ in 0..ch.draw(max) {
        s.push(*ch.pick(IDENT_REST) as char);
    }
    s
}

/// kind: 0 simple, 1 dotted, 2 long, 3 non-ASCII, 4 needs a JSON escape, 5 anything (possibly empty)
fn gen_name(ch: &mut Choices<'_>) -> (String, usize) {
    let kind = ch.weighted(&[5, 4, 1, 3, 4, 2]);
    let s = match kind {
        0 => ident_segment(ch, 8),
        1 => {
            let n = 2 + ch.draw(3);
            (0..n).map(|_| ident_segment(ch, 4)).collect::<Vec<_>>().join(".")
        }
        2 => {
            let n = 8 + ch.draw(40);
            (0..n).map(|_| ident_segment(ch, 9)).collect::<Vec<_>>().join(".")
        }
        3 => {
            // short, or (one in four) long enough for multi-byte characters to straddle byte 32 / 64 / 128
            let n = if ch.chance(1, 4) { *ch.pick(&[20usize, 31, 33, 40, 63, 65, 90, 130]) } else { 1 + ch.draw(6) };
            let mut s = String::new();
            for _ in 0..n {
                if ch.draw(3) == 0 {
                    s.push(*ch.pick(IDENT_REST) as char);
                } else {
                    s.push(*ch.pick(NON_ASCII));
                }
            }
            s
        }
        4 => {
            let n = 1 + ch.draw(6);
            let forced = ch.draw(n);
            let mut s = String::new();
            for i in 0..n {
                if i == forced || ch.draw(3) == 0 {
                    s.push(*ch.pick(NEED_ESCAPE));
                } else {
                    s.push(*ch.pick(IDENT_REST) as char);
                }
            }
            s
        }
        _ => {
            let n = ch.draw(8);
            let mut s = String::new();
            for _ in 0..n {
                let c = match ch.draw(4) {
                    0 => *ch.pick(IDENT_REST) as char,
                    1 => *ch.pick(NON_ASCII),
                    2 => *ch.pick(NEED_ESCAPE),
                    _ => *ch.pick(ODD_ASCII),
                };
                s.push(c);
            }
            s
        }
    };
    (s, kind)
}

fn gen_field_type(ch: &mut Choices<'_>) -> MT {
    let n = match ch.weighted(&[10, 7, 2, 1]) {
        0 => 0,
        1 => 1 + ch.draw(3),
        2 => 4 + ch.draw(9),
        _ => 13 + ch.draw(20),
    };
    let prim = ch.draw(4);
    let layers = (0..n).map(|_| ch.draw(2) == 1).collect();
    MT { prim, layers }
}

fn gen_fields(ch: &mut Choices<'_>, min: usize, st: &mut Stats) -> Vec<MField> {
    let n = match ch.weighted(&[6, 3, 1]) {
        0 => min + ch.draw(7 - min),
        1 => 7 + ch.draw(14),
        _ => 21 + ch.draw(20),
    };
    let mut used: BTreeSet<String> = BTreeSet::new();
    let mut out = Vec::new();
    for _ in 0..n {
        let (mut name, kind) = gen_name(ch);
        let mut k = 0;
        while used.contains(&name) {
            name.push_str(&k.to_string());
            k += 1;
        }
        used.insert(name.clone());
        st.class(["name-simple", "name-dotted", "name-long", "name-non-ascii", "name-needs-escape", "name-anything"][kind]);
        out.push(MField { name, ty: gen_field_type(ch), optional: ch.draw(2) == 1 });
    }
    // wide schemes: 60..150 further fields (indexes beyond 64 and 128), one draw for their
    // number and two words for their optionality pattern
    if ch.chance(1, 12) {
        let extra = 60 + ch.draw(91);
        let pattern = ch.u64();
        for i in 0..extra {
            let name = format!("wide.f{i:03}");
            if used.insert(name.clone()) {
                out.push(MField { name, ty: MT { prim: i % 4, layers: vec![i % 3 == 0; i % 3] }, optional: pattern >> (i % 64) & 1 == 1 });
            }
        }
        st.class("scheme-fields-60+");
    }
    out
}

fn must_escape(c: char) -> bool {
    c == '"' || c == '\\' || (c as u32) < 0x20
}

fn short_escape(c: char) -> Option<&'static str> {
    Some(match c {
        '"' => "\\\"",
        '\\' => "\\\\",
        '\u{8}' => "\\b",
        '\u{c}' => "\\f",
        '\n' => "\\n",
        '\r' => "\\r",
        '\t' => "\\t",
        '/' => "\\/",
        _ => return None,
    })
}

fn unicode_escape(c: char, upper: bool, out: &mut String) {
    let mut buf = [0u16; 2];
    for u in c.encode_utf16(&mut buf) {
        if upper {
            out.push_str(&format!("\\u{:04X}", u));
        } else {
            out.push_str(&format!("\\u{:04x}", u));
        }
    }
}

/// The spelling a minimal-escaping JSON writer produces.
fn canonical_string(s: &str) -> String {
    let mut out = String::from("\"");
    for c in s.chars() {
        if must_escape(c) {
            match short_escape(c) {
                Some(e) => out.push_str(e),
                None => unicode_escape(c, false, &mut out),
            }
        } else {
            out.push(c);
        }
    }
    out.push('"');
    out
}

/// mode 0: canonical; 1: escape a few characters that would not need it; 2: escape everything as \u
fn spelled_string(ch: &mut Choices<'_>, s: &str, mode: usize, escaped: &mut bool) -> String {
    if mode == 0 {
        let c = canonical_string(s);
        if c.len() != s.len() + 2 {
            *escaped = true;
        }
        return c;
    }
    let mut out = String::from("\"");
    for c in s.chars() {
        let pick = if mode == 2 { 2 } else { ch.weighted(&[6, 1, 1]) };
        if must_escape(c) {
            *escaped = true;
            match (short_escape(c), pick) {
                (Some(e), 0 | 1) => out.push_str(e),
                _ => unicode_escape(c, ch.draw(2) == 1, &mut out),
            }
        } else {
            match pick {
                0 => out.push(c),
                1 => match short_escape(c) {
                    Some(e) => {
                        *escaped = true;
                        out.push_str(e)
                    }
                    None => out.push(c),
                },
                _ => {
                    *escaped = true;
                    unicode_escape(c, ch.draw(2) == 1, &mut out)
                }
            }
        }
    }
    out.push('"');
    out
}

const WS: [&str; 6] = ["", " ", "\n", "\t", "\r\n ", "  "];

struct DocStyle {
    /// 0 canonical, 1 whitespace only, 2 whitespace + re-spelled strings + swapped members
    level: usize,
}

/// Spelling of one entry; `force` = spell the name with \u escapes everywhere.
fn write_entry(ch: &mut Choices<'_>, f: &MField, style: &DocStyle, force: bool, escaped: &mut bool, out: &mut String) {
    let ws = |ch: &mut Choices<'_>| -> &'static str { if style.level == 0 { "" } else { WS[ch.weighted(&[6, 2, 1, 1, 1, 1])] } };
    let mode = if force {
        2
    } else if style.level == 2 {
        1
    } else {
        0
    };
    out.push_str(&spelled_string(ch, &f.name, mode, escaped));
    out.push_str(ws(ch));
    out.push(':');
    out.push_str(ws(ch));
    out.push('{');
    out.push_str(ws(ch));
    let swap = style.level == 2 && ch.draw(4) == 0;
    let ty = if style.level == 0 {
        type_json(&f.ty)
    } else {
        // whitespace inside the type descriptor too
        let picks: Vec<&'static str> = (0..4).map(|_| ws(ch)).collect();
        let mut k = 0;
        type_json_ws(&f.ty, &mut || {
            k += 1;
            picks[k % 4]
        })
    };
    let member_ty = format!("\"type\"{}:{}{}", ws(ch), ws(ch), ty);
    let member_opt = format!("\"optional\"{}:{}{}", ws(ch), ws(ch), f.optional);
    let (a, b) = if swap { (member_opt, member_ty) } else { (member_ty, member_opt) };
    out.push_str(&a);
    out.push_str(ws(ch));
    out.push(',');
    out.push_str(ws(ch));
    out.push_str(&b);
    out.push_str(ws(ch));
    out.push('}');
}

fn write_doc(ch: &mut Choices<'_>, fields: &[MField], forced: &[bool], style: &DocStyle, escaped: &mut bool) -> String {
    let ws = |ch: &mut Choices<'_>| -> &'static str { if style.level == 0 { "" } else { WS[ch.weighted(&[6, 2, 1, 1, 1, 1])] } };
    let mut out = String::new();
    out.push_str(ws(ch));
    out.push('{');
    out.push_str(ws(ch));
    for (i, f) in fields.iter().enumerate() {
        if i > 0 {
            out.push(',');
            out.push_str(ws(ch));
        }
        write_entry(ch, f, style, forced.get(i).copied().unwrap_or(false), escaped, &mut out);
        out.push_str(ws(ch));
    }
    out.push('}');
    out.push_str(ws(ch));
    out
}

fn canonical_doc(fields: &[MField]) -> String {
    let mut out = String::from("{");
    for (i, f) in fields.iter().enumerate() {
        if i > 0 {
            out.push(',');
        }
        out.push_str(&canonical_string(&f.name));
        out.push_str(":{\"type\":");
        out.push_str(&type_json(&f.ty));
        out.push_str(",\"optional\":");
        out.push_str(if f.optional { "true" } else { "false" });
        out.push('}');
    }
    out.push('}');
    out
}

fn show_fields(fields: &[MField]) -> Value {
    Value::Array(
        fields
            .iter()
            .map(|f| json!({"name": f.name, "type": type_json(&f.ty), "optional": f.optional}))
            .collect(),
    )
}

fn build_scheme(fields: &[MField]) -> Result<Scheme, String> {
    let mut b = SchemeBuilder::new();
    // builder settings that are not part of the JSON form must not show in it
    if fields.len() % 2 == 1 {
        b.set_nil_not_equal_behavior(fields.len() % 4 == 1);
    }
    for f in fields {
        let ty = build_type(&f.ty);
        let r = if f.optional { b.add_optional_field(&f.name, ty) } else { b.add_field(&f.name, ty) };
        r.map_err(|e| format!("builder refused unique name {:?}: {e}", f.name))?;
        // a quarter of the names are offered a second time (another type / optionality);
        // whatever the builder answers, the scheme's JSON form is that of `fields`
        if fingerprint(&f.name) % 4 == 0 {
            let other = build_type(&MT { prim: (f.ty.prim + 1) % 4, layers: vec![] });
            let _ = if f.optional { b.add_field(&f.name, other) } else { b.add_optional_field(&f.name, other) };
        }
    }
    Ok(b.build())
}

/// Compare a scheme with the model: names, order, types, optionality.
fn compare_scheme(s: &Scheme, want: &[MField]) -> Result<(), String> {
    if s.field_count() != want.len() {
        return Err(format!("field_count() = {}, expected {}", s.field_count(), want.len()));
    }
    let got: Vec<_> = s.fields().collect();
    if got.len() != want.len() {
        return Err(format!("fields() yields {} items, expected {}", got.len(), want.len()));
    }
    for (i, (g, w)) in got.iter().zip(want).enumerate() {
        if g.name() != w.name {
            return Err(format!("field #{i} is named {:?}, expected {:?}", g.name(), w.name));
        }
        if g.index() != i {
            return Err(format!("field #{i} reports index {}", g.index()));
        }
        let t = g.get_type();
        if walk(t).as_ref() != Some(&w.ty) || t != build_type(&w.ty) {
            return Err(format!("field #{i} {:?} has type {t:?}, expected {}", w.name, type_json(&w.ty)));
        }
        if g.optional() != w.optional {
            return Err(format!("field #{i} {:?} has optional = {}, expected {}", w.name, g.optional(), w.optional));
        }
        match s.get_field(&w.name) {
            Ok(f) if f.index() == i => {}
            other => return Err(format!("get_field({:?}) = {:?}, expected the field with index {i}", w.name, other.map(|f| f.index()))),
        }
    }
    Ok(())
}

const ENTRY_POINTS: [&str; 4] = ["from_str", "from_slice", "from_reader", "from_value"];

fn parse_scheme(ep: usize, doc: &str, val: &Value) -> Result<Result<Scheme, String>, String> {
    let e = |e: serde_json::Error| e.to_string();
    match ep {
        0 => catch(|| serde_json::from_str::<Scheme>(doc).map_err(e)),
        1 => catch(|| serde_json::from_slice::<Scheme>(doc.as_bytes()).map_err(e)),
        2 => catch(|| serde_json::from_reader::<_, Scheme>(doc.as_bytes()).map_err(e)),
        _ => catch(|| serde_json::from_value::<Scheme>(val.clone()).map_err(e)),
    }
}

/// `fields`: the source; `doc`: a JSON document spelling it.
fn scheme_doc_checks(fields: &[MField], doc: &str, f2_open: bool, st: &mut Stats) -> CaseResult {
    let case = || json!({"fields": show_fields(fields), "document": doc});
    // the value tree of the document (a generic JSON value; its member order is whatever
    // the tree iterates in - that order is the source order for the from_value entry point)
    let val: Value = match serde_json::from_str(doc) {
        Ok(v) => v,
        Err(e) => panic!("harness wrote an invalid JSON document: {e}\n{doc}"),
    };
    let obj = val.as_object().expect("document is an object");
    if obj.len() != fields.len() {
        panic!("harness: value tree has {} members for {} fields", obj.len(), fields.len());
    }
    let value_order: Vec<MField> = obj
        .keys()
        .map(|k| fields.iter().find(|f| &f.name == k).unwrap_or_else(|| panic!("harness: key {k:?} is not a field name")).clone())
        .collect();
    for ep in 0..4 {
        let want: &[MField] = if ep == 3 { &value_order } else { fields };
        match parse_scheme(ep, doc, &val) {
            Err(p) => {
                return Err(Fail::new("scheme-json-panic", format!("{}::<Scheme> panicked: {p}", ENTRY_POINTS[ep]), case()));
            }
            Ok(Err(e)) => {
                let owned = e.contains("expected a borrowed string");
                if owned && f2_open {
                    st.excluded();
                    continue;
                }
                return Err(Fail::new(
                    if owned { SIG_F2 } else { "scheme-json-valid-rejected" },
                    format!("{}::<Scheme> rejected a valid scheme document with unique names: {e}", ENTRY_POINTS[ep]),
                    case(),
                ));
            }
            Ok(Ok(s)) => {
                if let Err(m) = catch(|| compare_scheme(&s, want)).unwrap_or_else(|p| Err(format!("panic while inspecting: {p}"))) {
                    return Err(Fail::new(
                        "scheme-json-roundtrip",
                        format!("scheme read through {} differs from its source: {m}", ENTRY_POINTS[ep]),
                        case(),
                    ));
                }
                let again = catch(|| serde_json::to_string(&s).map_err(|e| e.to_string()));
                let canon = canonical_doc(want);
                if again != Ok(Ok(canon.clone())) {
                    return Err(Fail::new(
                        "scheme-json-serialize",
                        format!("scheme read through {} serializes as {again:?}, expected {canon}", ENTRY_POINTS[ep]),
                        case(),
                    ));
                }
                st.class(&format!("scheme-{}-ok", ENTRY_POINTS[ep]));
            }
        }
    }
    Ok(())
}

fn scheme_case_with(f2_open: bool, ch: &mut Choices<'_>, st: &mut Stats) -> CaseResult {
    let fields = gen_fields(ch, 0, st);
    let level = ch.weighted(&[3, 2, 5]);
    // source -> JSON
    let src = match catch(|| build_scheme(&fields)) {
        Err(p) => return Err(Fail::new("scheme-build-panic", p, show_fields(&fields))),
        Ok(Err(m)) => return Err(Fail::new("scheme-build-refused", m, show_fields(&fields))),
        Ok(Ok(s)) => s,
    };
    if let Err(m) = compare_scheme(&src, &fields) {
        return Err(Fail::new("scheme-build-differs", m, show_fields(&fields)));
    }
    let canon = canonical_doc(&fields);
    let out = catch(|| serde_json::to_string(&src).map_err(|e| e.to_string()));
    if out != Ok(Ok(canon.clone())) {
        return Err(Fail::new(
            "scheme-json-serialize",
            format!("serde_json::to_string(&Scheme) = {out:?}\nexpected (insertion order, type then optional) {canon}"),
            show_fields(&fields),
        ));
    }
    let outv = catch(|| serde_json::to_vec(&src).map_err(|e| e.to_string()));
    if outv != Ok(Ok(canon.clone().into_bytes())) {
        return Err(Fail::new("scheme-json-serialize", "serde_json::to_vec(&Scheme) differs from to_string".to_string(), show_fields(&fields)));
    }
    // JSON -> scheme, four entry points
    let mut escaped = false;
    let doc = write_doc(ch, &fields, &[], &DocStyle { level }, &mut escaped);
    if level == 0 {
        assert_eq!(doc, canon, "harness: canonical writer disagrees with itself");
    }
    scheme_doc_checks(&fields, &doc, f2_open, st)?;
    st.eval();
    st.class(["doc-canonical", "doc-whitespace", "doc-respelled"][level]);
    st.class(match fields.len() {
        0 => "scheme-fields-0",
        1 => "scheme-fields-1",
        2..=6 => "scheme-fields-2..6",
        7..=20 => "scheme-fields-7..20",
        21..=40 => "scheme-fields-21..40",
        _ => "scheme-fields-41+",
    });
    if escaped {
        st.class("doc-has-escaped-name");
        st.sample("scheme-escaped", || json!({"document": doc}));
    }
    if fields.iter().any(|f| f.optional) && fields.iter().any(|f| !f.optional) {
        st.class("scheme-mixed-optionality");
    }
    let sorted = fields.windows(2).all(|w| w[0].name < w[1].name);
    if !sorted {
        st.class("scheme-order-not-sorted");
    }
    if !fields.is_empty() {
        // entry points other than from_str are exercised on every document
        st.nontrivial(&doc);
    }
    Ok(())
}

/// Documents with a duplicate name must be refused.
fn dup_case(ch: &mut Choices<'_>, st: &mut Stats) -> CaseResult {
    let mut fields = gen_fields(ch, 1, st);
    let n = fields.len();
    let kind = ch.draw(3); // 0 adjacent, 1 distant, 2 equal only after escape normalisation
    let src = ch.draw(n);
    let mut dup = fields[src].clone();
    if ch.draw(2) == 1 {
        dup.ty = gen_field_type(ch);
        dup.optional = ch.draw(2) == 1;
    }
    let pos = match kind {
        0 => src + 1,
        1 => {
            // as far away as possible
            if src < n / 2 { n } else { 0 }
        }
        _ => {
            let p = ch.draw(n + 1);
            if p == src { src + 1 } else { p }
        }
    };
    fields.insert(pos, dup);
    let dup_at = pos;
    let orig_at = if pos <= src { src + 1 } else { src };
    let mut forced = vec![false; fields.len()];
    let level = if kind == 2 { 2 } else { ch.weighted(&[3, 2, 5]) };
    let respell = kind == 2 && !fields[dup_at].name.is_empty();
    if respell {
        // one of the two occurrences is spelled with \u escapes only, the other canonically
        forced[if ch.draw(2) == 1 { dup_at } else { orig_at }] = true;
    }
    let mut escaped = false;
    let doc = if respell {
        // the other occurrence: canonical spelling; write entries one by one
        let style = DocStyle { level: 1 };
        let mut out = String::from("{");
        for (i, f) in fields.iter().enumerate() {
            if i > 0 {
                out.push(',');
            }
            let st_ = if i == dup_at || i == orig_at { &style } else { &DocStyle { level: 2 } };
            write_entry(ch, f, st_, forced[i], &mut escaped, &mut out);
        }
        out.push('}');
        out
    } else {
        write_doc(ch, &fields, &forced, &DocStyle { level }, &mut escaped)
    };
    let case = || json!({"fields": show_fields(&fields), "document": doc, "duplicate": fields[dup_at].name, "positions": [orig_at.min(dup_at), orig_at.max(dup_at)]});
    if let Err(e) = serde_json::from_str::<Value>(&doc) {
        panic!("harness wrote an invalid JSON document: {e}\n{doc}");
    }
    for ep in 0..3 {
        match parse_scheme(ep, &doc, &Value::Null) {
            Err(p) => {
                return Err(Fail::new("scheme-json-panic", format!("{}::<Scheme> panicked on a document with a duplicate name: {p}", ENTRY_POINTS[ep]), case()));
            }
            Ok(Ok(s)) => {
                return Err(Fail::new(
                    "scheme-json-duplicate-accepted",
                    format!(
                        "{}::<Scheme> accepted a document in which the name {:?} occurs twice ({} fields in the result)",
                        ENTRY_POINTS[ep],
                        fields[dup_at].name,
                        s.field_count()
                    ),
                    case(),
                ));
            }
            Ok(Err(e)) => {
                if e.contains("redefine") {
                    st.class("dup-refused-as-redefinition");
                } else {
                    st.class("dup-refused-other-error");
                }
            }
        }
    }
    st.eval();
    st.class(["dup-adjacent", "dup-distant", "dup-after-escape-normalisation"][kind]);
    if respell {
        st.class("dup-respelled");
        st.sample("dup-respelled", || json!({"document": doc}));
    }
    st.nontrivial(&doc);
    Ok(())
}

/// Hand-written probes of the two findings known on the pinned tree (always asserted,
/// so that an open finding keeps printing its line while it reproduces).
fn probe_case(ch: &mut Choices<'_>, st: &mut Stats) -> CaseResult {
    let k = ch.draw(6);
    let int = MT { prim: 2, layers: vec![] };
    match k {
        0 | 1 => {
            // 0: plain names (reader / value tree need an owned key); 1: a name that needs JSON escapes
            let fields = vec![
                MField { name: if k == 1 { "a\"b\\c".into() } else { "a".into() }, ty: int, optional: false },
                MField { name: "b.c".into(), ty: MT { prim: 1, layers: vec![false] }, optional: true },
            ];
            let doc = canonical_doc(&fields);
            scheme_doc_checks(&fields, &doc, false, st)?;
            st.eval();
        }
        2 => deep_checks(&MT { prim: 2, layers: vec![false; 33] }, false, st)?,
        3 => deep_checks(&MT { prim: 2, layers: vec![false; 34] }, false, st)?,
        4 => deep_checks(&MT { prim: 1, layers: vec![true; 127] }, false, st)?,
        _ => deep_checks(&MT { prim: 0, layers: (0..130).map(|i| i % 2 == 0).collect() }, false, st)?,
    }
    Ok(())
}

/// Readers are stateless: what a thread failed to read before must not change
/// how a representable type is read afterwards.  A few unreadable descriptors
/// (fault under 0..33 layers), then a deep representable one on the same thread.
fn history_case(ch: &mut Choices<'_>, st: &mut Stats) -> CaseResult {
    let k = ch.range(1, 6);
    let mut log: Vec<Value> = Vec::new();
    for _ in 0..k {
        let n = ch.draw(34);
        let layers: Vec<bool> = (0..n).map(|_| ch.boolean()).collect();
        let kind = ch.draw(8);
        let fault = ["\"Bytez\"", "5", "{\"Arr\":\"Int\"}", "null", "[\"Int\"]", "{\"Array\":\"Int\",\"Map\":\"Int\"}", "\"Int\"", "\"Int\""][kind];
        let mut doc = String::new();
        for l in &layers {
            doc.push_str(if *l { "{\"Map\":" } else { "{\"Array\":" });
        }
        doc.push_str(fault);
        doc.push_str(&"}".repeat(n));
        if kind == 6 {
            // truncated
            let cut = ch.draw(doc.len());
            doc.truncate(cut);
        } else if kind == 7 {
            // too deep: 33..40 layers
            let extra = 33 + ch.draw(8) - n.min(33);
            doc = format!("{}{}{}", "{\"Array\":".repeat(extra), doc, "}".repeat(extra));
        }
        let ep = ch.draw(5);
        let outcome = match ep {
            0 => catch(|| serde_json::from_str::<Type>(&doc).is_ok()),
            1 => catch(|| serde_json::from_str::<CompoundType>(&doc).is_ok()),
            2 => catch(|| serde_json::from_reader::<_, Type>(doc.as_bytes()).is_ok()),
            3 => catch(|| serde_json::from_slice::<CompoundType>(doc.as_bytes()).is_ok()),
            _ => {
                let sdoc = format!("{{\"f\":{{\"type\":{doc},\"optional\":false}}}}");
                catch(|| serde_json::from_str::<Scheme>(&sdoc).is_ok())
            }
        };
        // not judged here (the deep / duplicate sub-checks judge unreadable documents)
        log.push(json!({"document": doc, "entry_point": ep, "outcome": format!("{outcome:?}")}));
        if outcome == Ok(false) {
            st.class(&format!("history:unreadable-descriptor-kind-{kind}"));
        }
    }
    let n = 32 - ch.draw(14);
    let pattern = ch.draw(5);
    let prim = ch.draw(4);
    let layers = pattern_layers(ch, n, pattern);
    let mt = MT { prim, layers };
    let with_history = |mut f: Fail| {
        f.case = json!({"type": f.case, "read_earlier_on_this_thread": log});
        f
    };
    type_checks(&mt, st).map_err(with_history)?;
    let fields = vec![MField { name: "deep.field".into(), ty: mt.clone(), optional: ch.boolean() }];
    let doc = canonical_doc(&fields);
    scheme_doc_checks(&fields, &doc, false, st).map_err(with_history)?;
    st.class("history:deep-type-read-after-failures");
    st.nontrivial(&(&mt, log.len()));
    st.sample("history", || json!({"then_type": show_mt(&mt), "read_earlier_on_this_thread": log}));
    Ok(())
}

fn is_open(sig: &str) -> bool {
    load_known_findings().iter().any(|k| k.property == "C15" && k.sig == sig)
}

pub fn subs() -> Vec<Sub> {
    let open = is_open(SIG_F2);
    let open3 = is_open(SIG_F3);
    vec![
        Sub { name: "probes", f: Box::new(probe_case) },
        Sub { name: "types-exhaustive", f: Box::new(exhaustive_case) },
        Sub { name: "types-shapes", f: Box::new(sampled_case) },
        Sub { name: "types-sampled", f: Box::new(sampled_case) },
        Sub { name: "deep-shapes", f: Box::new(move |ch, st| deep_case_with(open3, ch, st)) },
        Sub { name: "deep-random", f: Box::new(move |ch, st| deep_case_with(open3, ch, st)) },
        Sub { name: "schemes", f: Box::new(move |ch, st| scheme_case_with(open, ch, st)) },
        Sub { name: "scheme-duplicates", f: Box::new(dup_case) },
        Sub { name: "history", f: Box::new(history_case) },
    ]
}

pub fn run(run: &Run) {
    run.rule(
        "types: exhaustive = every primitive x every array/map layer string of length 0..=12 (4 x (2^13-1)); shapes = 13..=32 layers x {all-array, all-map, alternating x2} x primitive, \
         sampled = 13..=32 layers incl. random layer strings; each checked Type<->CompoundType, Type<->CType, C constructors, three JSON writers, JSON readers (str/slice/reader/value) against a hand-written descriptor; \
         non-trivial type = >= 2 layers with both kinds present (distinct types counted). deep = descriptors with 33..=130 layers (all shapes x primitives, plus random strings) through every reader incl. as a scheme field type: error, or the same JSON back. \
         schemes: 0..=40 uniquely named fields (simple, dotted, long, non-ASCII, needing JSON escapes, arbitrary incl. empty), types of 0..=32 layers, documents spelled canonically / with whitespace / with re-spelled strings and swapped members, \
         read through from_str, from_slice, from_reader, from_value and compared (names, order, types, optionality, re-serialization) with the source; non-trivial scheme case = >= 1 field (every document goes through the three entry points other than from_str), distinct documents counted; \
         duplicates: adjacent, distant, equal only after escape normalisation -> every text entry point must return an error; \
         history: 1..6 unreadable descriptors (misspelt primitive, wrong shapes, truncated, too deep; fault under 0..33 layers; five entry points) read on a thread, then a 19..32-layer type goes through all type checks and a scheme document on the same thread; \
         schemes are built by a builder that is also offered a quarter of the names a second time (the refused definition must not show in the JSON form)",
    );
    run.assume("the canonical JSON spelling (no whitespace, minimal escapes, lower-case \\u00xx for other control characters) is what serde_json prints");
    run.assume("serde_json::Value holds unique keys; the order in which it iterates its members is taken as the source order for from_value");
    run.assume("types with 33 layers exist only in the recursive form (Array/Map of a 32-layer packed type); conversions of such a type to the packed or C form are outside the property");
    let subs = subs();
    run_regressions(run, &subs);
    let sub = |n: &str| &*find_sub(&subs, n).unwrap().f;
    let probes: Vec<Vec<u32>> = (0..6).map(|k| vec![k]).collect();
    run.fixed("probes", &probes, sub("probes"));
    run.enumerate("types-exhaustive", exhaustive_total(), &exhaustive_key, sub("types-exhaustive"));
    run.enumerate("types-shapes", shapes_total(), &shapes_key, sub("types-shapes"));
    run.enumerate("deep-shapes", deep_total(), &deep_key, sub("deep-shapes"));
    run.random("types-sampled", run.tier.pick(20_000, 1_500_000), 12, sub("types-sampled"));
    run.random("deep-random", run.tier.pick(6_000, 300_000), 12, sub("deep-random"));
    run.random("schemes", run.tier.pick(30_000, 2_000_000), 2500, sub("schemes"));
    run.random("scheme-duplicates", run.tier.pick(15_000, 1_000_000), 2500, sub("scheme-duplicates"));
    run.random("history", run.tier.pick(15_000, 600_000), 120, sub("history"));
    run.note("exhaustive_subchecks", json!(["types-exhaustive", "types-shapes", "deep-shapes"]));
}

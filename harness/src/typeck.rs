//! Reference type checker, written from the documented typing rules (not by
//! calling the parser).

use crate::ast::*;
use crate::funcs::{self, Kind};
use crate::model::*;
use crate::scheme::Recipe;

pub type Why = String;

fn bool_arr() -> MType {
    MType::array(MType::Bool)
}

pub fn base_type(r: &Recipe, b: &MBase) -> Result<MType, Why> {
    match b {
        MBase::Field(n) => r.field(n).map(|(_, f)| f.ty.clone()).ok_or_else(|| format!("unknown field {n}")),
        MBase::Call { func, args } => call_type(r, func, args),
    }
}

/// Type of an index expression: the type reached after the whole path (under
/// `[*]` that is the element type).
pub fn index_type(r: &Recipe, ix: &MIndex) -> Result<MType, Why> {
    let mut t = base_type(r, &ix.base)?;
    for p in &ix.path {
        t = match (p, &t) {
            (MIdx::Idx(..), MType::Array(e)) => (**e).clone(),
            (MIdx::Key(..), MType::Map(e)) => (**e).clone(),
            (MIdx::Each, MType::Array(e)) | (MIdx::Each, MType::Map(e)) => (**e).clone(),
            _ => return Err(format!("index {p:?} does not fit type {}", t.show())),
        };
    }
    Ok(t)
}

/// Static type of the *value* of an index expression (what a value
/// expression / function argument yields): arrays of the element type under `[*]`.
pub fn index_value_type(r: &Recipe, ix: &MIndex) -> Result<MType, Why> {
    let t = index_type(r, ix)?;
    Ok(if ix.stars() > 0 { MType::array(t) } else { t })
}

pub fn arg_type(r: &Recipe, a: &MArg) -> Result<MType, Why> {
    match a {
        MArg::Index(ix) => index_type(r, ix),
        MArg::Lit(l) => Ok(l.ty()),
        MArg::Logical(e) => expr_type(r, e),
    }
}

pub fn call_type(r: &Recipe, func: &str, args: &[MArg]) -> Result<MType, Why> {
    for (i, a) in args.iter().enumerate() {
        if i > 0 {
            if let MArg::Index(ix) = a {
                if ix.stars() > 0 {
                    return Err(format!("[*] in argument #{i}"));
                }
            }
        }
    }
    let mapped = matches!(args.first(), Some(MArg::Index(ix)) if ix.stars() > 0);
    let ret = if func == "concat" {
        if !r.concat {
            return Err("unknown function concat".into());
        }
        if args.len() < 2 {
            return Err("concat arity".into());
        }
        let t0 = arg_type(r, &args[0])?;
        if !(matches!(t0, MType::Array(_)) || t0 == MType::Bytes) {
            return Err(format!("concat over {}", t0.show()));
        }
        for a in &args[1..] {
            let t = arg_type(r, a)?;
            if t != t0 {
                return Err("concat arguments of different types".into());
            }
        }
        t0
    } else if func == "ctxfn" {
        if !r.funcs.iter().any(|f| f == func) {
            return Err("unknown function ctxfn".into());
        }
        if args.is_empty() || args.len() > 3 {
            return Err("arity of ctxfn".into());
        }
        for (i, a) in args.iter().enumerate() {
            let is_lit = matches!(a, MArg::Lit(_));
            let want = if i == 0 { MType::Bytes } else { MType::Int };
            if (i == 0) == is_lit {
                return Err(format!("kind of ctxfn argument #{i}"));
            }
            if arg_type(r, a)? != want {
                return Err(format!("type of ctxfn argument #{i}"));
            }
        }
        MType::Int
    } else {
        if !r.funcs.iter().any(|f| f == func) {
            return Err(format!("unknown function {func}"));
        }
        let s = funcs::sig(func).ok_or_else(|| format!("unknown function {func}"))?;
        if args.len() < s.params.len() || args.len() > s.params.len() + s.opts.len() {
            return Err(format!("arity of {func}"));
        }
        for (i, a) in args.iter().enumerate() {
            let (k, t) = if i < s.params.len() {
                (s.params[i].0, s.params[i].1.clone())
            } else {
                let (k, v) = &s.opts[i - s.params.len()];
                (*k, v.ty())
            };
            let is_lit = matches!(a, MArg::Lit(_));
            match k {
                Kind::Field if is_lit => return Err(format!("literal given for field parameter #{i}")),
                Kind::Literal if !is_lit => return Err(format!("non-literal given for literal parameter #{i}")),
                _ => {}
            }
            let at = arg_type(r, a)?;
            if at != t {
                return Err(format!("argument #{i} of {func}: {} expected, {} given", t.show(), at.show()));
            }
        }
        s.ret.clone()
    };
    Ok(if mapped { MType::array(ret) } else { ret })
}

fn items_ok(t: &MType, items: &[SetItem]) -> bool {
    items.iter().all(|i| match (t, i) {
        (MType::Int, SetItem::Int(_)) | (MType::Int, SetItem::IntRange(..)) => true,
        (MType::Bytes, SetItem::Bytes(_)) => true,
        (MType::Ip, SetItem::Ip(_)) | (MType::Ip, SetItem::Cidr(..)) | (MType::Ip, SetItem::IpRange(..)) => true,
        _ => false,
    })
}

pub fn op_fits(r: &Recipe, t: &MType, op: &MOp) -> Result<(), Why> {
    let ok = match (t, op) {
        (_, MOp::IsTrue) => false,
        (MType::Int, MOp::Ord(_, MLit::Int(_))) => true,
        (MType::Bytes, MOp::Ord(_, MLit::Bytes(_))) => true,
        (MType::Ip, MOp::Ord(_, MLit::Ip(_))) => true,
        (MType::Int, MOp::BitAnd(_)) => true,
        (MType::Bytes, MOp::Contains(_)) | (MType::Bytes, MOp::Matches(..)) | (MType::Bytes, MOp::Wildcard { .. }) => true,
        (MType::Int | MType::Bytes | MType::Ip, MOp::In(items)) => items_ok(t, items),
        (MType::Int | MType::Bytes | MType::Ip, MOp::InList(_)) => r.list_kind(t).is_some(),
        _ => false,
    };
    if ok { Ok(()) } else { Err(format!("operator {op:?} does not apply to {}", t.show())) }
}

/// Type of a logical expression: Bool, Array(Bool) - or Map(Bool) for the
/// undocumented bare-boolean-map case (grey zone).
pub fn expr_type(r: &Recipe, e: &MExpr) -> Result<MType, Why> {
    match e {
        MExpr::Cmp { lhs, op } => {
            let t = index_type(r, lhs)?;
            let stars = lhs.stars();
            if t == MType::Bool {
                if *op != MOp::IsTrue {
                    return Err("operator after a boolean".into());
                }
                return Ok(if stars > 0 { bool_arr() } else { MType::Bool });
            }
            if t.elem() == Some(&MType::Bool) {
                if *op != MOp::IsTrue {
                    return Err("operator after a boolean container".into());
                }
                if stars > 0 {
                    return Err("would be an array of boolean arrays".into());
                }
                // a bare boolean container is the list of its values
                return Ok(bool_arr());
            }
            op_fits(r, &t, op)?;
            Ok(if stars > 0 { bool_arr() } else { MType::Bool })
        }
        MExpr::Not(a) | MExpr::Paren(a) => expr_type(r, a),
        MExpr::Comb { items, .. } => {
            let t0 = expr_type(r, &items[0])?;
            for it in &items[1..] {
                let t = expr_type(r, it)?;
                let ok = (t0 == MType::Bool && t == MType::Bool)
                    || (matches!(t0, MType::Array(_)) && matches!(t, MType::Array(_)));
                if !ok {
                    return Err(format!("operands {} and {}", t0.show(), t.show()));
                }
            }
            Ok(t0)
        }
        MExpr::Quant { arg, .. } => {
            let t = match &**arg {
                // the value of an index expression with [*] is an array of its
                // element type, so `any(ab[*])` / `any(aab[*])` are not boolean arrays
                MQArg::Index(ix) => index_value_type(r, ix).and_then(|t| {
                    if ix.stars() > 0 { Err("index expression with [*] directly under a quantifier".into()) } else { Ok(t) }
                })?,
                MQArg::Logical(e) => expr_type(r, e)?,
            };
            if t == bool_arr() { Ok(MType::Bool) } else { Err(format!("quantifier over {}", t.show())) }
        }
    }
}

pub fn filter_ok(r: &Recipe, e: &MExpr) -> Result<(), Why> {
    match expr_type(r, e)? {
        MType::Bool => Ok(()),
        t => Err(format!("top level is {}", t.show())),
    }
}

pub fn value_expr_ok(r: &Recipe, ix: &MIndex) -> Result<MType, Why> {
    let t = index_type(r, ix)?;
    if ix.stars() > 0 { Err("[*] in a value expression".into()) } else { Ok(t) }
}

/// Does the expression touch one of the undocumented (grey-zone) typings?
/// (a bare Map(Bool) used as a logical operand; an index expression with `[*]`
/// passed directly as a quantifier argument)
pub fn grey_zone(r: &Recipe, e: &MExpr) -> bool {
    match e {
        MExpr::Cmp { lhs, op } => {
            let bare_map = *op == MOp::IsTrue
                && matches!(index_type(r, lhs), Ok(MType::Map(ref t)) if **t == MType::Bool);
            bare_map || grey_index(r, lhs)
        }
        MExpr::Not(a) | MExpr::Paren(a) => grey_zone(r, a),
        MExpr::Comb { items, .. } => items.iter().any(|i| grey_zone(r, i)),
        MExpr::Quant { arg, .. } => match &**arg {
            MQArg::Index(ix) => grey_index(r, ix),
            MQArg::Logical(e) => grey_zone(r, e),
        },
    }
}

pub fn grey_index(r: &Recipe, ix: &MIndex) -> bool {
    match &ix.base {
        MBase::Field(_) => false,
        MBase::Call { args, .. } => args.iter().any(|a| match a {
            MArg::Index(i) => grey_index(r, i),
            MArg::Lit(_) => false,
            MArg::Logical(e) => grey_zone(r, e),
        }),
    }
}

//! Reference evaluator: straight-line definitions of the documented semantics.

use crate::ast::*;
use crate::funcs::{self, ArgV, CallRec};
use crate::lists::{LV, ListKind};
use crate::model::*;
use crate::rx;
use crate::scheme::{ListState, Recipe};
use crate::typeck;
use std::cell::RefCell;
use std::cmp::Ordering;
use std::net::IpAddr;

/// Outcome that the documented rules leave open; the case is skipped (counted).
#[derive(Debug, Clone)]
pub struct Grey(pub &'static str);

#[derive(Clone, Debug, PartialEq)]
pub enum BV {
    One(bool),
    Many(Vec<bool>),
}

/// Presence of a value.
#[derive(Clone, Debug, PartialEq)]
pub enum Pres {
    Val(MVal),
    Absent,
    /// a mapped call over a container that is missing below a present field:
    /// the rules do not say whether the outcome is absent or an empty array
    GreyEmpty,
}

#[derive(Clone, Debug, PartialEq, Eq, Hash)]
pub struct PredCall {
    pub rec: CallRec,
    /// the call certainly happens (not behind short-circuit logic / an empty map-each)
    pub must: bool,
    /// its multiplicity and position are fixed by the rules
    pub exact: bool,
}

pub struct Env<'a> {
    pub r: &'a Recipe,
    pub ctx: &'a MCtx,
    pub lists: &'a ListState,
    pub calls: RefCell<Vec<PredCall>>,
    pub list_queries: RefCell<Vec<(String, MVal)>>,
    /// (certain, exact) flags for calls made in the current evaluation position
    mode: RefCell<(bool, bool)>,
}

impl<'a> Env<'a> {
    pub fn new(r: &'a Recipe, ctx: &'a MCtx, lists: &'a ListState) -> Self {
        Env {
            r,
            ctx,
            lists,
            calls: RefCell::new(vec![]),
            list_queries: RefCell::new(vec![]),
            mode: RefCell::new((true, true)),
        }
    }

    fn with_mode<T>(&self, must: bool, exact: bool, f: impl FnOnce() -> T) -> T {
        let old = *self.mode.borrow();
        *self.mode.borrow_mut() = (old.0 && must, old.1 && exact);
        let r = f();
        *self.mode.borrow_mut() = old;
        r
    }
}

fn bytes_cmp(a: &[u8], b: &[u8]) -> Ordering {
    // lexicographic byte order, written out
    let n = a.len().min(b.len());
    for i in 0..n {
        if a[i] < b[i] {
            return Ordering::Less;
        }
        if a[i] > b[i] {
            return Ordering::Greater;
        }
    }
    if a.len() < b.len() {
        Ordering::Less
    } else if a.len() > b.len() {
        Ordering::Greater
    } else {
        Ordering::Equal
    }
}

fn ip_cmp(a: &IpAddr, b: &IpAddr) -> Option<Ordering> {
    match (a, b) {
        (IpAddr::V4(x), IpAddr::V4(y)) => Some(u32::from(*x).cmp(&u32::from(*y))),
        (IpAddr::V6(x), IpAddr::V6(y)) => Some(u128::from(*x).cmp(&u128::from(*y))),
        _ => None,
    }
}

pub fn ord_holds(op: OrdOp, o: Option<Ordering>) -> bool {
    match o {
        None => op == OrdOp::Ne,
        Some(o) => match op {
            OrdOp::Eq => o == Ordering::Equal,
            OrdOp::Ne => o != Ordering::Equal,
            OrdOp::Ge => o != Ordering::Less,
            OrdOp::Le => o != Ordering::Greater,
            OrdOp::Gt => o == Ordering::Greater,
            OrdOp::Lt => o == Ordering::Less,
        },
    }
}

pub fn ip_in_cidr(x: &IpAddr, net: &IpAddr, n: u8) -> bool {
    match (x, net) {
        (IpAddr::V4(x), IpAddr::V4(net)) => {
            let mask: u32 = if n == 0 { 0 } else { u32::MAX << (32 - n as u32) };
            (u32::from(*x) & mask) == (u32::from(*net) & mask)
        }
        (IpAddr::V6(x), IpAddr::V6(net)) => {
            let mask: u128 = if n == 0 { 0 } else { u128::MAX << (128 - n as u32) };
            (u128::from(*x) & mask) == (u128::from(*net) & mask)
        }
        _ => false,
    }
}

pub fn set_item_has(it: &SetItem, v: &MVal) -> bool {
    match (it, v) {
        (SetItem::Int(a), MVal::Int(x)) => a.v == *x,
        (SetItem::IntRange(a, b), MVal::Int(x)) => a.v <= *x && *x <= b.v,
        (SetItem::Bytes(b), MVal::Bytes(x)) => b.v == *x,
        (SetItem::Ip(a), MVal::Ip(x)) => a == x,
        (SetItem::Cidr(net, n), MVal::Ip(x)) => ip_in_cidr(x, net, *n),
        (SetItem::IpRange(a, b), MVal::Ip(x)) => {
            matches!(ip_cmp(a, x), Some(Ordering::Less | Ordering::Equal))
                && matches!(ip_cmp(x, b), Some(Ordering::Less | Ordering::Equal))
        }
        _ => false,
    }
}

pub fn naive_contains(h: &[u8], p: &[u8]) -> bool {
    if p.is_empty() {
        return true;
    }
    if h.len() < p.len() {
        return false;
    }
    for i in 0..=h.len() - p.len() {
        if &h[i..i + p.len()] == p {
            return true;
        }
    }
    false
}

/// A comparison applied to a present value.
pub fn cmp_value(env: &Env<'_>, v: &MVal, op: &MOp) -> Result<bool, Grey> {
    Ok(match (op, v) {
        (MOp::IsTrue, MVal::Bool(b)) => *b,
        (MOp::Ord(o, MLit::Int(l)), MVal::Int(x)) => ord_holds(*o, Some(x.cmp(&l.v))),
        (MOp::Ord(o, MLit::Bytes(l)), MVal::Bytes(x)) => ord_holds(*o, Some(bytes_cmp(x, &l.v))),
        (MOp::Ord(o, MLit::Ip(l)), MVal::Ip(x)) => ord_holds(*o, ip_cmp(x, l)),
        (MOp::BitAnd(l), MVal::Int(x)) => (x & l.v) != 0,
        (MOp::Contains(p), MVal::Bytes(x)) => naive_contains(x, &p.v),
        (MOp::Matches(rx, _), MVal::Bytes(x)) => rx.is_match(x),
        (MOp::Wildcard { strict, pat }, MVal::Bytes(x)) => {
            let t = rx::wild_parse(&pat.v).map_err(|_| Grey("invalid wildcard in a well-typed filter"))?;
            rx::wild_match(&t, x, *strict)
        }
        (MOp::In(items), v) => items.iter().any(|i| set_item_has(i, v)),
        (MOp::InList(name), v) => {
            let t = v.ty();
            match env.r.list_kind(&t) {
                Some(ListKind::Always) => true,
                Some(ListKind::Never) => false,
                Some(ListKind::Set) => {
                    env.list_queries.borrow_mut().push((name.clone(), v.clone()));
                    match (env.lists.get(&t).and_then(|s| s.get(name)), LV::from_mval(v)) {
                        (Some(set), Some(lv)) => set.contains(&lv),
                        _ => false,
                    }
                }
                None => return Err(Grey("no list for type")),
            }
        }
        (op, v) => panic!("model: ill-typed comparison {op:?} on {v:?}"),
    })
}

fn step(vals: Vec<MVal>, p: &MIdx) -> Vec<MVal> {
    let mut out = Vec::new();
    for v in vals {
        match (p, v) {
            (MIdx::Idx(n, _), MVal::Array(_, items)) => {
                if let Some(x) = items.get(*n as usize) {
                    out.push(x.clone());
                }
            }
            (MIdx::Key(k, _), MVal::Map(_, m)) => {
                if let Some(x) = m.get(k.as_bytes()) {
                    out.push(x.clone());
                }
            }
            (MIdx::Each, MVal::Array(_, items)) => out.extend(items),
            (MIdx::Each, MVal::Map(_, m)) => out.extend(m.into_values()),
            (p, v) => panic!("model: ill-typed index {p:?} on {v:?}"),
        }
    }
    out
}

fn first_star(path: &[MIdx]) -> usize {
    path.iter().position(|p| matches!(p, MIdx::Each)).unwrap_or(path.len())
}

pub fn eval_base(env: &Env<'_>, b: &MBase) -> Result<Pres, Grey> {
    match b {
        MBase::Field(n) => {
            let (i, _) = env.r.field(n).expect("model: known field");
            Ok(match &env.ctx.vals[i] {
                Some(v) => Pres::Val(v.clone()),
                None => Pres::Absent,
            })
        }
        MBase::Call { func, args } => eval_call(env, func, args),
    }
}

/// Star-free index expression: at most one value.
pub fn eval_index_one(env: &Env<'_>, ix: &MIndex) -> Result<Pres, Grey> {
    debug_assert_eq!(ix.stars(), 0);
    match eval_base(env, &ix.base)? {
        Pres::Val(v) => {
            let vals = ix.path.iter().fold(vec![v], |acc, p| step(acc, p));
            Ok(match vals.into_iter().next() {
                Some(v) => Pres::Val(v),
                None => Pres::Absent,
            })
        }
        Pres::Absent => Ok(Pres::Absent),
        // indexing into "absent or empty array" yields nothing either way
        Pres::GreyEmpty => Ok(if ix.path.is_empty() { Pres::GreyEmpty } else { Pres::Absent }),
    }
}

/// Any index expression: the list of current values after the whole path
/// (row-major; map values in ascending key order).
pub fn eval_index_many(env: &Env<'_>, ix: &MIndex) -> Result<Vec<MVal>, Grey> {
    match eval_base(env, &ix.base)? {
        Pres::Val(v) => Ok(ix.path.iter().fold(vec![v], |acc, p| step(acc, p))),
        Pres::Absent | Pres::GreyEmpty => Ok(vec![]),
    }
}

/// The value of an index expression used as a value (function argument / value
/// expression): star-free => the value; with `[*]` => the array of values.
pub fn eval_index_value(env: &Env<'_>, ix: &MIndex) -> Result<Pres, Grey> {
    if ix.stars() == 0 {
        return eval_index_one(env, ix);
    }
    let elem_t = typeck::index_type(env.r, ix).expect("model: typed index");
    match eval_base(env, &ix.base)? {
        Pres::Absent => Ok(Pres::Absent),
        Pres::GreyEmpty => Ok(Pres::GreyEmpty),
        Pres::Val(v) => {
            let k = first_star(&ix.path);
            let prefix = ix.path[..k].iter().fold(vec![v], |acc, p| step(acc, p));
            if prefix.is_empty() {
                // container missing below a present base value
                return Ok(Pres::GreyEmpty);
            }
            let vals = ix.path[k..].iter().fold(prefix, |acc, p| step(acc, p));
            Ok(Pres::Val(MVal::Array(elem_t, vals)))
        }
    }
}

fn eval_arg(env: &Env<'_>, a: &MArg) -> Result<ArgV, Grey> {
    Ok(match a {
        MArg::Lit(l) => Ok(l.val()),
        MArg::Index(ix) => {
            let t = typeck::index_value_type(env.r, ix).expect("model: typed arg");
            match eval_index_value(env, ix)? {
                Pres::Val(v) => Ok(v),
                Pres::Absent => Err(t),
                Pres::GreyEmpty => return Err(Grey("absent-or-empty mapped value passed to a function")),
            }
        }
        MArg::Logical(e) => Ok(match eval_expr(env, e)? {
            BV::One(b) => MVal::Bool(b),
            BV::Many(v) => MVal::Array(MType::Bool, v.into_iter().map(MVal::Bool).collect()),
        }),
    })
}

fn apply_fn(env: &Env<'_>, func: &str, mut argv: Vec<ArgV>) -> Option<MVal> {
    if func == "concat" {
        // present arguments joined in order; absent only if all are absent
        let present: Vec<&MVal> = argv.iter().filter_map(|a| a.as_ref().ok()).collect();
        let first = present.first()?;
        return Some(match first {
            MVal::Bytes(_) => {
                let mut out = Vec::new();
                for p in &present {
                    if let MVal::Bytes(b) = p {
                        out.extend_from_slice(b);
                    }
                }
                MVal::Bytes(out)
            }
            MVal::Array(t, _) => {
                let mut out = Vec::new();
                for p in &present {
                    if let MVal::Array(_, v) = p {
                        out.extend(v.iter().cloned());
                    }
                }
                MVal::Array(t.clone(), out)
            }
            v => panic!("model: concat over {v:?}"),
        });
    }
    if func == "ctxfn" {
        let (must, exact) = *env.mode.borrow();
        env.calls.borrow_mut().push(PredCall { rec: CallRec { name: func.to_string(), args: argv.clone() }, must, exact });
        return funcs::apply_ctxfn(&argv);
    }
    let s = funcs::sig(func).expect("model: known function");
    // omitted optional parameters are replaced by their declared defaults
    let given_opts = argv.len() - s.params.len();
    for (_, d) in &s.opts[given_opts..] {
        argv.push(Ok(d.clone()));
    }
    let (must, exact) = *env.mode.borrow();
    env.calls.borrow_mut().push(PredCall { rec: CallRec { name: func.to_string(), args: argv.clone() }, must, exact });
    funcs::apply(func, &argv)
}

pub fn eval_call(env: &Env<'_>, func: &str, args: &[MArg]) -> Result<Pres, Grey> {
    let mapped = matches!(args.first(), Some(MArg::Index(ix)) if ix.stars() > 0);
    if !mapped {
        let mut argv = Vec::new();
        for a in args {
            argv.push(eval_arg(env, a)?);
        }
        return Ok(match apply_fn(env, func, argv) {
            Some(v) => Pres::Val(v),
            None => Pres::Absent,
        });
    }
    let MArg::Index(first) = &args[0] else { unreachable!() };
    let ret_t = match typeck::call_type(env.r, func, args).expect("model: typed call") {
        MType::Array(t) => *t,
        t => panic!("model: mapped call of type {t:?}"),
    };
    let first_val = eval_index_value(env, first)?;
    // The remaining arguments have the same values for every element.  How
    // often the engine evaluates them is not specified (once per call or once
    // per element, possibly not at all when there is no element), so calls
    // made while evaluating them are inexact, and certain only when there is
    // at least one element.
    let n = match &first_val {
        Pres::Val(MVal::Array(_, v)) => v.len(),
        _ => 0,
    };
    let mut extra = Vec::new();
    env.with_mode(n > 0, false, || -> Result<(), Grey> {
        for a in &args[1..] {
            extra.push(eval_arg(env, a)?);
        }
        Ok(())
    })?;
    let elems = match first_val {
        Pres::Absent => return Ok(Pres::Absent),
        Pres::GreyEmpty => return Ok(Pres::GreyEmpty),
        Pres::Val(MVal::Array(_, v)) => v,
        Pres::Val(v) => panic!("model: mapped first argument {v:?}"),
    };
    let mut out = Vec::new();
    for e in elems {
        let mut argv = vec![Ok(e)];
        argv.extend(extra.iter().cloned());
        if let Some(v) = apply_fn(env, func, argv) {
            out.push(v);
        }
    }
    Ok(Pres::Val(MVal::Array(ret_t, out)))
}

pub fn eval_expr(env: &Env<'_>, e: &MExpr) -> Result<BV, Grey> {
    match e {
        MExpr::Cmp { lhs, op } => {
            if lhs.stars() > 0 {
                let vals = eval_index_many(env, lhs)?;
                let mut out = Vec::new();
                for v in &vals {
                    out.push(cmp_value(env, v, op)?);
                }
                return Ok(BV::Many(out));
            }
            let t = typeck::index_type(env.r, lhs).expect("model: typed lhs");
            if *op == MOp::IsTrue && t != MType::Bool {
                // bare boolean container: its elements (absent => empty)
                return Ok(BV::Many(match eval_index_one(env, lhs)? {
                    Pres::Val(MVal::Array(_, v)) => v.iter().map(|x| matches!(x, MVal::Bool(true))).collect(),
                    Pres::Val(MVal::Map(_, m)) => m.values().map(|x| matches!(x, MVal::Bool(true))).collect(),
                    Pres::Val(v) => panic!("model: bare {v:?}"),
                    Pres::Absent | Pres::GreyEmpty => vec![],
                }));
            }
            match eval_index_one(env, lhs)? {
                Pres::Val(v) => Ok(BV::One(cmp_value(env, &v, op)?)),
                // a comparison whose left side has no value is false, except
                // `!=` whose result is the scheme's nil-not-equal setting
                Pres::Absent | Pres::GreyEmpty => Ok(BV::One(match op {
                    MOp::Ord(OrdOp::Ne, _) => env.r.nil_ne,
                    _ => false,
                })),
            }
        }
        MExpr::Not(a) => Ok(match eval_expr(env, a)? {
            BV::One(b) => BV::One(!b),
            BV::Many(v) => BV::Many(v.into_iter().map(|b| !b).collect()),
        }),
        MExpr::Paren(a) => eval_expr(env, a),
        MExpr::Comb { op, items } => {
            let first = eval_expr(env, &items[0])?;
            // later operands may be skipped by short-circuit evaluation:
            // calls made there are neither certain nor exact
            let mut rest = Vec::new();
            env.with_mode(false, false, || -> Result<(), Grey> {
                for it in &items[1..] {
                    rest.push(eval_expr(env, it)?);
                }
                Ok(())
            })?;
            let f = |a: bool, b: bool| match op {
                LOp::And => a && b,
                LOp::Or => a || b,
                LOp::Xor => a ^ b,
            };
            match first {
                BV::One(mut acc) => {
                    for r in rest {
                        match r {
                            BV::One(b) => acc = f(acc, b),
                            BV::Many(_) => panic!("model: mixed operands"),
                        }
                    }
                    Ok(BV::One(acc))
                }
                BV::Many(mut acc) => {
                    for r in rest {
                        match r {
                            BV::Many(v) => {
                                // element-wise, truncated to the shortest operand
                                let n = acc.len().min(v.len());
                                acc.truncate(n);
                                for i in 0..n {
                                    acc[i] = f(acc[i], v[i]);
                                }
                            }
                            BV::One(_) => panic!("model: mixed operands"),
                        }
                    }
                    Ok(BV::Many(acc))
                }
            }
        }
        MExpr::Quant { any, arg } => {
            let vals: Vec<bool> = match &**arg {
                MQArg::Index(ix) => match eval_index_value(env, ix)? {
                    // applied directly to an absent boolean-array value: false
                    Pres::Absent => return Ok(BV::One(false)),
                    Pres::GreyEmpty => {
                        if *any {
                            return Ok(BV::One(false));
                        }
                        return Err(Grey("all() over an absent-or-empty mapped value"));
                    }
                    Pres::Val(MVal::Array(_, v)) => {
                        let mut out = Vec::new();
                        for x in v {
                            match x {
                                MVal::Bool(b) => out.push(b),
                                _ => return Err(Grey("quantifier over a non-boolean array")),
                            }
                        }
                        out
                    }
                    Pres::Val(v) => panic!("model: quantifier over {v:?}"),
                },
                MQArg::Logical(e) => match eval_expr(env, e)? {
                    BV::Many(v) => v,
                    BV::One(_) => panic!("model: quantifier over a single boolean"),
                },
            };
            Ok(BV::One(if *any { vals.iter().any(|b| *b) } else { vals.iter().all(|b| *b) }))
        }
    }
}

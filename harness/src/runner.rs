//! Shared driver: proptest-backed random search over choice sequences,
//! exhaustive enumeration, statistics, evidence, replay files and the
//! known-findings protocol.

use crate::choices::Choices;
use proptest::collection::vec as pvec;
use proptest::prelude::any;
use proptest::test_runner::{Config, RngSeed, TestCaseError, TestError, TestRunner};
use serde_json::{Value, json};
use std::collections::{BTreeMap, HashSet};
use std::hash::{Hash, Hasher};
use std::panic::{AssertUnwindSafe, catch_unwind};
use std::path::PathBuf;
use std::sync::Mutex;
use std::sync::atomic::{AtomicBool, AtomicU64, Ordering};
use std::time::Instant;

#[derive(Clone, Copy, PartialEq, Eq, Debug)]
pub enum Tier {
    Quick,
    Thorough,
}

impl Tier {
    pub fn name(self) -> &'static str {
        match self {
            Tier::Quick => "quick",
            Tier::Thorough => "thorough",
        }
    }
    pub fn pick<T>(self, quick: T, thorough: T) -> T {
        match self {
            Tier::Quick => quick,
            Tier::Thorough => thorough,
        }
    }
}

pub fn verif_root() -> PathBuf {
    if let Ok(r) = std::env::var("VERIF_ROOT") {
        return PathBuf::from(r);
    }
    let mut p = PathBuf::from(env!("CARGO_MANIFEST_DIR"));
    p.pop();
    p
}

pub fn fingerprint<T: Hash + ?Sized>(t: &T) -> u64 {
    let mut h = std::collections::hash_map::DefaultHasher::new();
    t.hash(&mut h);
    h.finish()
}

/// A failed case.
#[derive(Clone, Debug)]
pub struct Fail {
    /// stable signature (class of the failure); matched against known findings
    pub sig: String,
    pub msg: String,
    /// human-readable description of the case (filter text, contexts, ...)
    pub case: Value,
}

impl Fail {
    pub fn new(sig: impl Into<String>, msg: impl Into<String>, case: Value) -> Self {
        Fail { sig: sig.into(), msg: msg.into(), case }
    }
}

pub type CaseResult = Result<(), Fail>;

/// Per-thread statistics, merged into the report.
#[derive(Default)]
pub struct Stats {
    pub evals: u64,
    pub nontrivial: HashSet<u64>,
    pub classes: BTreeMap<String, u64>,
    pub samples: BTreeMap<String, Vec<Value>>,
    pub excluded: u64,
    pub frozen: bool,
}

impl Stats {
    pub fn eval(&mut self) {
        if !self.frozen {
            self.evals += 1;
        }
    }
    pub fn evals_n(&mut self, n: u64) {
        if !self.frozen {
            self.evals += n;
        }
    }
    pub fn class(&mut self, name: &str) {
        if !self.frozen {
            *self.classes.entry(name.to_string()).or_insert(0) += 1;
        }
    }
    pub fn class_n(&mut self, name: &str, n: u64) {
        if !self.frozen {
            *self.classes.entry(name.to_string()).or_insert(0) += n;
        }
    }
    pub fn nontrivial<T: Hash + ?Sized>(&mut self, t: &T) {
        if !self.frozen {
            self.nontrivial.insert(fingerprint(t));
        }
    }
    pub fn excluded(&mut self) {
        if !self.frozen {
            self.excluded += 1;
        }
    }
    /// keep up to 2 samples per class
    pub fn sample(&mut self, class: &str, f: impl FnOnce() -> Value) {
        if self.frozen {
            return;
        }
        let e = self.samples.entry(class.to_string()).or_default();
        if e.len() < 2 {
            e.push(f());
        }
    }
    fn merge(&mut self, o: Stats) {
        self.evals += o.evals;
        self.nontrivial.extend(o.nontrivial);
        for (k, v) in o.classes {
            *self.classes.entry(k).or_insert(0) += v;
        }
        for (k, v) in o.samples {
            let e = self.samples.entry(k).or_default();
            for s in v {
                if e.len() < 2 {
                    e.push(s);
                }
            }
        }
        self.excluded += o.excluded;
    }
}

#[derive(Clone, Debug)]
pub struct Violation {
    pub sub: String,
    pub fail: Fail,
    pub choices: Vec<u32>,
    pub exact: bool,
}

#[derive(Clone, Debug)]
pub struct KnownFinding {
    pub property: String,
    pub sig: String,
    pub what: String,
}

pub fn load_known_findings() -> Vec<KnownFinding> {
    let p = verif_root().join("known_findings.txt");
    let mut out = Vec::new();
    if let Ok(s) = std::fs::read_to_string(p) {
        for line in s.lines() {
            let line = line.trim();
            if let Some(rest) = line.strip_prefix("open:") {
                let mut property = String::new();
                let mut sig = String::new();
                let mut what = Vec::new();
                for tok in rest.split_whitespace() {
                    if let Some(p) = tok.strip_prefix("property=") {
                        if property.is_empty() {
                            property = p.to_string();
                            continue;
                        }
                    }
                    if let Some(s) = tok.strip_prefix("sig=") {
                        if sig.is_empty() {
                            sig = s.to_string();
                            continue;
                        }
                    }
                    what.push(tok);
                }
                out.push(KnownFinding { property, sig, what: what.join(" ") });
            }
        }
    }
    out
}

pub struct Run {
    pub prop: &'static str,
    pub tier: Tier,
    pub seed: u64,
    pub threads: usize,
    pub started: Instant,
    pub stats: Mutex<Stats>,
    pub sub_evals: Mutex<BTreeMap<String, u64>>,
    pub violations: Mutex<Vec<Violation>>,
    pub known: Vec<KnownFinding>,
    pub rule: Mutex<Vec<String>>,
    pub assumptions: Mutex<Vec<String>>,
    pub notes: Mutex<BTreeMap<String, Value>>,
    pub exhaustive_all: AtomicBool,
    pub any_random: AtomicBool,
    pub inconclusive: AtomicBool,
    pub shrink_iters: AtomicU64,
    pub fuzz_violations: AtomicU64,
}

pub type CaseFn<'a> = dyn Fn(&mut Choices<'_>, &mut Stats) -> CaseResult + Sync + 'a;

fn mix(seed: u64, sub: &str, thread: u64) -> u64 {
    let mut h = std::collections::hash_map::DefaultHasher::new();
    seed.hash(&mut h);
    sub.hash(&mut h);
    thread.hash(&mut h);
    h.finish()
}

pub fn panic_message(p: &Box<dyn std::any::Any + Send>) -> String {
    if let Some(s) = p.downcast_ref::<&str>() {
        s.to_string()
    } else if let Some(s) = p.downcast_ref::<String>() {
        s.clone()
    } else {
        "<non-string panic payload>".to_string()
    }
}

/// Run a case function, converting a panic of the harness itself into a failure.
pub fn run_case(f: &CaseFn<'_>, ch: &mut Choices<'_>, st: &mut Stats) -> CaseResult {
    match catch_unwind(AssertUnwindSafe(|| f(ch, st))) {
        Ok(r) => r,
        Err(p) => Err(Fail::new(
            "uncaught-panic",
            format!("panic escaped the oracle: {}", panic_message(&p)),
            Value::Null,
        )),
    }
}

impl Run {
    pub fn new(prop: &'static str, tier: Tier, seed: u64) -> Self {
        let threads = std::env::var("VERIF_THREADS")
            .ok()
            .and_then(|s| s.parse().ok())
            .unwrap_or_else(|| std::thread::available_parallelism().map(|n| n.get()).unwrap_or(4))
            .clamp(1, 64);
        Run {
            prop,
            tier,
            seed,
            threads,
            started: Instant::now(),
            stats: Mutex::new(Stats::default()),
            sub_evals: Mutex::new(BTreeMap::new()),
            violations: Mutex::new(Vec::new()),
            known: load_known_findings(),
            rule: Mutex::new(Vec::new()),
            assumptions: Mutex::new(Vec::new()),
            notes: Mutex::new(BTreeMap::new()),
            exhaustive_all: AtomicBool::new(true),
            any_random: AtomicBool::new(false),
            inconclusive: AtomicBool::new(false),
            shrink_iters: AtomicU64::new(0),
            fuzz_violations: AtomicU64::new(0),
        }
    }

    pub fn is_open(&self, sig: &str) -> bool {
        self.known.iter().any(|k| k.property == self.prop && k.sig == sig)
    }

    pub fn rule(&self, s: &str) {
        self.rule.lock().unwrap().push(s.to_string());
    }

    pub fn assume(&self, s: &str) {
        self.assumptions.lock().unwrap().push(s.to_string());
    }

    pub fn note(&self, k: &str, v: Value) {
        self.notes.lock().unwrap().insert(k.to_string(), v);
    }

    fn merge(&self, sub: &str, st: Stats) {
        *self.sub_evals.lock().unwrap().entry(sub.to_string()).or_insert(0) += st.evals;
        self.stats.lock().unwrap().merge(st);
    }

    pub fn add_stats(&self, sub: &str, st: Stats) {
        self.merge(sub, st);
    }

    pub fn push_violation(&self, v: Violation) {
        self.violations.lock().unwrap().push(v);
    }

    /// Random search: `cases` choice sequences of length 0..=max_len, generated
    /// and shrunk by proptest, sharded over the worker threads.
    pub fn random(&self, sub: &str, cases: u64, max_len: usize, f: &CaseFn<'_>) {
        self.any_random.store(true, Ordering::Relaxed);
        self.exhaustive_all.store(false, Ordering::Relaxed);
        let threads = self.threads.min(cases.max(1) as usize).max(1);
        let per = cases / threads as u64;
        let extra = cases % threads as u64;
        std::thread::scope(|scope| {
            for t in 0..threads {
                let n = per + if (t as u64) < extra { 1 } else { 0 };
                if n == 0 {
                    continue;
                }
                let this = &*self;
                let sub = sub.to_string();
                std::thread::Builder::new()
                    .stack_size(64 << 20)
                    .spawn_scoped(scope, move || {
                        this.random_shard(&sub, t as u64, n, max_len, f);
                    })
                    .unwrap();
            }
        });
    }

    fn random_shard(&self, sub: &str, t: u64, n: u64, max_len: usize, f: &CaseFn<'_>) {
        let cfg = Config {
            cases: n.min(u32::MAX as u64) as u32,
            failure_persistence: None,
            rng_seed: RngSeed::Fixed(mix(self.seed, sub, t)),
            max_shrink_iters: 3000,
            max_local_rejects: 1,
            max_global_rejects: 1,
            ..Config::default()
        };
        let mut runner = TestRunner::new(cfg);
        let strategy = pvec(any::<u32>(), 0..=max_len);
        let st = std::cell::RefCell::new(Stats::default());
        let res = runner.run(&strategy, |v| {
            let mut ch = Choices::new(&v);
            let mut st = st.borrow_mut();
            match run_case(f, &mut ch, &mut st) {
                Ok(()) => Ok(()),
                Err(fail) => {
                    st.frozen = true;
                    Err(TestCaseError::fail(fail.sig))
                }
            }
        });
        let mut st = st.into_inner();
        match res {
            Ok(()) => {}
            Err(TestError::Fail(_, v)) => {
                st.frozen = true;
                let mut ch = Choices::new(&v);
                let fail = match run_case(f, &mut ch, &mut st) {
                    Err(fail) => fail,
                    Ok(()) => Fail::new(
                        "flaky",
                        "shrunk case did not fail again when re-run (non-deterministic oracle?)",
                        Value::Null,
                    ),
                };
                self.push_violation(Violation { sub: sub.to_string(), fail, choices: v, exact: false });
            }
            Err(TestError::Abort(r)) => {
                eprintln!("proptest aborted in {sub}: {r}");
                self.inconclusive.store(true, Ordering::Relaxed);
            }
        }
        st.frozen = false;
        self.merge(sub, st);
    }

    /// Exhaustive enumeration of `total` keys; `key(i)` gives the exact choice
    /// vector of case i.  No shrinking (cases are already minimal in order).
    pub fn enumerate(
        &self,
        sub: &str,
        total: u64,
        key: &(dyn Fn(u64) -> Vec<u32> + Sync),
        f: &CaseFn<'_>,
    ) {
        let threads = self.threads.min(total.max(1) as usize).max(1);
        let stop = AtomicBool::new(false);
        std::thread::scope(|scope| {
            for t in 0..threads {
                let this = &*self;
                let stop = &stop;
                let sub = sub.to_string();
                std::thread::Builder::new()
                    .stack_size(64 << 20)
                    .spawn_scoped(scope, move || {
                        let mut st = Stats::default();
                        let mut i = t as u64;
                        while i < total {
                            if stop.load(Ordering::Relaxed) {
                                this.exhaustive_all.store(false, Ordering::Relaxed);
                                break;
                            }
                            let k = key(i);
                            let mut ch = Choices::exact(&k);
                            if let Err(fail) = run_case(f, &mut ch, &mut st) {
                                this.push_violation(Violation {
                                    sub: sub.clone(),
                                    fail,
                                    choices: k,
                                    exact: true,
                                });
                                stop.store(true, Ordering::Relaxed);
                                break;
                            }
                            i += threads as u64;
                        }
                        this.merge(&sub, st);
                    })
                    .unwrap();
            }
        });
    }

    /// Run a fixed list of explicit (exact) cases sequentially.
    pub fn fixed(&self, sub: &str, keys: &[Vec<u32>], f: &CaseFn<'_>) {
        let mut st = Stats::default();
        for k in keys {
            let mut ch = Choices::exact(k);
            if let Err(fail) = run_case(f, &mut ch, &mut st) {
                self.push_violation(Violation { sub: sub.to_string(), fail, choices: k.clone(), exact: true });
            }
        }
        self.merge(sub, st);
    }

    /// Finish: classify violations against known findings, write replay files
    /// and the evidence file, print protocol lines, return exit code.
    pub fn finish(&self) -> i32 {
        let root = verif_root();
        let wall = self.started.elapsed().as_secs_f64();
        let violations = self.violations.lock().unwrap().clone();
        let mut seen_known: BTreeMap<String, String> = BTreeMap::new();
        let mut real: BTreeMap<String, Violation> = BTreeMap::new();
        for v in violations {
            if let Some(k) = self.known.iter().find(|k| k.property == self.prop && k.sig == v.fail.sig) {
                seen_known.entry(k.sig.clone()).or_insert_with(|| k.what.clone());
            } else {
                match real.get(&v.fail.sig) {
                    Some(old) if old.choices.len() <= v.choices.len() => {}
                    _ => {
                        real.insert(v.fail.sig.clone(), v);
                    }
                }
            }
        }
        for (sig, what) in &seen_known {
            println!("KNOWN-FINDING: property={} sig={} {}", self.prop, sig, what);
        }
        let mut nviol = self.fuzz_violations.load(Ordering::Relaxed) as i64;
        if !real.is_empty() {
            let _ = std::fs::create_dir_all(root.join("replays"));
        }
        for (sig, v) in &real {
            nviol += 1;
            let body = json!({
                "property": self.prop,
                "sub": v.sub,
                "sig": sig,
                "msg": v.fail.msg,
                "exact": v.exact,
                "choices": v.choices,
                "case": v.fail.case,
                "seed": self.seed,
                "tier": self.tier.name(),
            });
            let name = format!("{}-{:016x}.json", self.prop, fingerprint(&(sig, &v.choices)));
            let path = root.join("replays").join(name);
            let _ = std::fs::write(&path, serde_json::to_string_pretty(&body).unwrap());
            eprintln!("--- violation [{}] {}\n{}", v.sub, sig, v.fail.msg);
            eprintln!("case: {}", serde_json::to_string_pretty(&v.fail.case).unwrap_or_default());
            println!("VIOLATION property={} replay={}", self.prop, path.display());
        }

        // evidence
        let st = self.stats.lock().unwrap();
        let mut samples: Vec<Value> = Vec::new();
        for (class, v) in &st.samples {
            for s in v {
                if samples.len() < 24 {
                    samples.push(json!({"class": class, "case": s}));
                }
            }
        }
        let exhaustive = self.exhaustive_all.load(Ordering::Relaxed) && !self.any_random.load(Ordering::Relaxed);
        let mut coverage = serde_json::Map::new();
        coverage.insert("evaluations".into(), json!(st.evals));
        coverage.insert("distinct_nontrivial".into(), json!(st.nontrivial.len()));
        coverage.insert("rule".into(), json!(self.rule.lock().unwrap().join(" | ")));
        coverage.insert("samples".into(), Value::Array(samples));
        coverage.insert("exhaustive".into(), json!(exhaustive));
        coverage.insert("classes".into(), json!(st.classes));
        coverage.insert("excluded".into(), json!(st.excluded));
        coverage.insert("subchecks".into(), json!(*self.sub_evals.lock().unwrap()));
        coverage.insert("known_findings_seen".into(), json!(seen_known.keys().collect::<Vec<_>>()));
        coverage.insert("threads".into(), json!(self.threads));
        for (k, v) in self.notes.lock().unwrap().iter() {
            coverage.insert(k.clone(), v.clone());
        }
        let ev = json!({
            "property_id": self.prop,
            "tier": self.tier.name(),
            "seed": self.seed,
            "level": "exploration",
            "coverage": Value::Object(coverage),
            "assumptions": *self.assumptions.lock().unwrap(),
            "wall_s": wall,
            "violations": nviol,
        });
        let _ = std::fs::create_dir_all(root.join("evidence"));
        let evp = root.join("evidence").join(format!("{}.json", self.prop));
        if let Err(e) = std::fs::write(&evp, serde_json::to_string_pretty(&ev).unwrap()) {
            eprintln!("cannot write evidence {}: {e}", evp.display());
            return 2;
        }
        eprintln!(
            "[{} {}] seed={} evaluations={} distinct_nontrivial={} excluded={} violations={} wall={:.1}s",
            self.prop,
            self.tier.name(),
            self.seed,
            st.evals,
            st.nontrivial.len(),
            st.excluded,
            nviol,
            wall
        );
        if nviol > 0 {
            1
        } else if self.inconclusive.load(Ordering::Relaxed) {
            2
        } else {
            0
        }
    }
}

/// A property: named sub-checks (for replay) and a run plan.
pub struct Sub {
    pub name: &'static str,
    pub f: Box<dyn Fn(&mut Choices<'_>, &mut Stats) -> CaseResult + Sync + Send>,
}

pub fn find_sub<'a>(subs: &'a [Sub], name: &str) -> Option<&'a Sub> {
    subs.iter().find(|s| s.name == name)
}

/// Replay one saved case; returns exit code.
pub fn replay_file(path: &str, subs_of: &dyn Fn(&str) -> Option<Vec<Sub>>) -> i32 {
    let Ok(text) = std::fs::read_to_string(path) else {
        eprintln!("cannot read {path}");
        return 2;
    };
    let Ok(v) = serde_json::from_str::<Value>(&text) else {
        eprintln!("cannot parse {path}");
        return 2;
    };
    if !v.is_object() || v.get("choices").is_none() {
        eprintln!("{path} is not a replay file");
        return 2;
    }
    let prop = v["property"].as_str().unwrap_or("").to_string();
    let sub = v["sub"].as_str().unwrap_or("").to_string();
    let exact = v["exact"].as_bool().unwrap_or(false);
    let choices: Vec<u32> = v["choices"]
        .as_array()
        .map(|a| a.iter().map(|x| x.as_u64().unwrap_or(0) as u32).collect())
        .unwrap_or_default();
    let Some(subs) = subs_of(&prop) else {
        eprintln!("unknown property {prop}");
        return 2;
    };
    let Some(s) = find_sub(&subs, &sub) else {
        eprintln!("unknown sub-check {sub} of {prop}");
        return 2;
    };
    let mut st = Stats::default();
    let mut ch = if exact { Choices::exact(&choices) } else { Choices::new(&choices) };
    match run_case(&*s.f, &mut ch, &mut st) {
        Ok(()) => {
            eprintln!("replay {path}: case passes");
            0
        }
        Err(f) => {
            eprintln!("replay {path}: [{}] {}\ncase: {}", f.sig, f.msg, serde_json::to_string_pretty(&f.case).unwrap_or_default());
            println!("VIOLATION property={} replay={}", prop, path);
            1
        }
    }
}

/// Run every saved regression case of a property (both tiers run these first).
pub fn run_regressions(run: &Run, subs: &[Sub]) {
    let dir = verif_root().join("regressions").join(run.prop);
    let Ok(rd) = std::fs::read_dir(&dir) else { return };
    let mut files: Vec<_> = rd.filter_map(|e| e.ok()).map(|e| e.path()).filter(|p| p.extension().map(|e| e == "json").unwrap_or(false)).collect();
    files.sort();
    let mut st = Stats::default();
    for p in files {
        let Ok(text) = std::fs::read_to_string(&p) else { continue };
        let Ok(v) = serde_json::from_str::<Value>(&text) else {
            eprintln!("bad regression file {}", p.display());
            continue;
        };
        let sub = v["sub"].as_str().unwrap_or("");
        let exact = v["exact"].as_bool().unwrap_or(false);
        let choices: Vec<u32> = v["choices"]
            .as_array()
            .map(|a| a.iter().map(|x| x.as_u64().unwrap_or(0) as u32).collect())
            .unwrap_or_default();
        let Some(s) = find_sub(subs, sub) else {
            eprintln!("regression {} names unknown sub-check {sub}", p.display());
            continue;
        };
        let mut ch = if exact { Choices::exact(&choices) } else { Choices::new(&choices) };
        st.class("regression-replayed");
        if let Err(fail) = run_case(&*s.f, &mut ch, &mut st) {
            run.push_violation(Violation { sub: sub.to_string(), fail, choices, exact });
        }
    }
    run.add_stats("regressions", st);
}

/// Watchdog: exit 2 (inconclusive) if the run takes longer than `secs`.
pub fn watchdog(secs: u64) {
    std::thread::spawn(move || {
        std::thread::sleep(std::time::Duration::from_secs(secs));
        eprintln!("watchdog: run exceeded {secs}s - inconclusive");
        std::process::exit(2);
    });
}

/// Run this binary again as a helper process: `wfcheck --child <args...>`.
/// Returns (exit code or None if killed by a signal, signal, stdout, stderr).
pub fn spawn_child(args: &[&str], envs: &[(&str, &str)], stdin: Option<&[u8]>) -> (Option<i32>, Option<i32>, Vec<u8>, Vec<u8>) {
    use std::io::Write;
    use std::os::unix::process::ExitStatusExt;
    use std::process::{Command, Stdio};
    // /proc/self/exe keeps naming this very image even if the file on disk has been replaced
    // by a rebuild in the meantime (current_exe() would then point at a deleted path)
    let exe = if std::path::Path::new("/proc/self/exe").exists() { std::path::PathBuf::from("/proc/self/exe") } else { std::env::current_exe().expect("current_exe") };
    let mut cmd = Command::new(exe);
    cmd.arg("--child").args(args).stdin(Stdio::piped()).stdout(Stdio::piped()).stderr(Stdio::piped());
    for (k, v) in envs {
        cmd.env(k, v);
    }
    let mut child = cmd.spawn().expect("spawn child");
    if let Some(data) = stdin {
        let mut si = child.stdin.take().unwrap();
        let data = data.to_vec();
        std::thread::spawn(move || {
            let _ = si.write_all(&data);
        });
    } else {
        drop(child.stdin.take());
    }
    let out = child.wait_with_output().expect("wait child");
    (out.status.code(), out.status.signal(), out.stdout, out.stderr)
}

/// A coverage-guided libFuzzer campaign (thorough tiers): builds the target in
/// /verif/fuzz with `cargo +nightly fuzz build`, runs `jobs` independent
/// fuzzer processes with `runs` executions each (fixed work, seeds derived
/// from the run seed), and turns every crash artifact into a violation whose
/// replay file is the artifact itself.
pub fn fuzz_campaign(run: &Run, target: &str, jobs: usize, runs: u64, max_len: usize, dict: Option<&str>) {
    fuzz_campaign_sub(run, target, None, jobs, runs, max_len, dict)
}

/// Like `fuzz_campaign`; with `sub = Some(name)` the generic `choices` target
/// searches over that sub-check's choice sequences and crash artifacts are
/// converted into ordinary replay files.
pub fn fuzz_campaign_sub(run: &Run, target: &str, sub_f: Option<(&str, &CaseFn<'_>)>, jobs: usize, runs: u64, max_len: usize, dict: Option<&str>) {
    let sub = sub_f.map(|(n, _)| n);
    use std::process::{Command, Stdio};
    let root = verif_root();
    let fuzz_dir = root.join("fuzz");
    let build = Command::new("cargo")
        .args(["+nightly", "fuzz", "build", "--fuzz-dir"])
        .arg(&fuzz_dir)
        .arg(target)
        .current_dir(root.join("harness"))
        .env("CARGO_NET_OFFLINE", "true")
        .stdout(Stdio::null())
        .stderr(Stdio::piped())
        .output();
    let ok = matches!(&build, Ok(o) if o.status.success());
    if !ok {
        let msg = match build {
            Ok(o) => String::from_utf8_lossy(&o.stderr).chars().rev().take(600).collect::<String>().chars().rev().collect::<String>(),
            Err(e) => e.to_string(),
        };
        eprintln!("libFuzzer target {target} could not be built; the campaign is skipped: {msg}");
        run.note(&format!("libfuzzer_{target}"), json!({"status": "build failed - campaign skipped", "detail": msg}));
        return;
    }
    let bin = fuzz_dir.join("target/x86_64-unknown-linux-gnu/release").join(target);
    let seeds = fuzz_dir.join("corpus").join(target);
    let _ = std::fs::create_dir_all(&seeds);
    if std::fs::read_dir(&seeds).map(|mut d| d.next().is_none()).unwrap_or(true) {
        // no committed seeds for this target: start from all-zero choice sequences
        let _ = std::fs::write(seeds.join("zeros-64"), vec![0u8; 64]);
        let _ = std::fs::write(seeds.join("zeros-512"), vec![0u8; 512]);
        let _ = std::fs::write(seeds.join("ramp"), (0..1024u32).flat_map(|i| (i.wrapping_mul(0x9E37_79B9)).to_le_bytes()).collect::<Vec<u8>>());
    }
    let label = match sub {
        Some(s) => format!("{target}-{}-{s}", run.prop),
        None => target.to_string(),
    };
    let art = fuzz_dir.join("artifacts").join(&label);
    let _ = std::fs::create_dir_all(&art);
    let before: HashSet<String> = std::fs::read_dir(&art).map(|d| d.filter_map(|e| e.ok()).map(|e| e.file_name().to_string_lossy().to_string()).collect()).unwrap_or_default();
    let mut children = Vec::new();
    for j in 0..jobs {
        let work = fuzz_dir.join("corpus-run").join(format!("{label}-{j}"));
        let _ = std::fs::remove_dir_all(&work);
        let _ = std::fs::create_dir_all(&work);
        let mut cmd = Command::new(&bin);
        cmd.arg(&work).arg(&seeds);
        cmd.arg(format!("-runs={runs}"))
            .arg(format!("-max_len={max_len}"))
            .arg("-len_control=0")
            .arg(format!("-seed={}", (run.seed.wrapping_mul(1000003).wrapping_add(j as u64) % 0xffff_fffe) + 1))
            .arg(format!("-artifact_prefix={}/", art.display()))
            .arg("-print_final_stats=1")
            .arg("-timeout=120")
            .arg("-rss_limit_mb=8192");
        if let Some(d) = dict {
            cmd.arg(format!("-dict={}", fuzz_dir.join(d).display()));
        }
        if let Some(sub) = sub {
            cmd.env("WF_FUZZ_SUB", format!("{}:{}", run.prop, sub));
        }
        // the jobs run side by side: their (chatty) stderr goes to a file each - a pipe that is
        // only drained when its job is waited for would stall every job but the first
        let log = fuzz_dir.join("corpus-run").join(format!("{label}-{j}.log"));
        match std::fs::File::create(&log) {
            Ok(f) => {
                cmd.stdout(Stdio::null()).stderr(Stdio::from(f));
            }
            Err(_) => {
                cmd.stdout(Stdio::null()).stderr(Stdio::null());
            }
        }
        match cmd.spawn() {
            Ok(c) => children.push((j, c, work, log)),
            Err(e) => eprintln!("cannot start fuzzer job {j}: {e}"),
        }
    }
    let mut execs = 0u64;
    let mut crashed = 0;
    for (j, mut c, work, log) in children {
        let status = c.wait();
        let err_bytes = std::fs::read(&log).unwrap_or_default();
        let _ = std::fs::remove_file(&log);
        if let Ok(status) = status {
            let err = String::from_utf8_lossy(&err_bytes);
            for line in err.lines() {
                if let Some(n) = line.strip_prefix("stat::number_of_executed_units:") {
                    execs += n.trim().parse::<u64>().unwrap_or(0);
                }
            }
            if !status.success() {
                crashed += 1;
                let tail: String = err.lines().rev().take(30).collect::<Vec<_>>().into_iter().rev().collect::<Vec<_>>().join("\n");
                eprintln!("fuzzer job {j} of {target} stopped abnormally:\n{tail}");
            }
        }
        let _ = std::fs::remove_dir_all(&work);
    }
    // new artifacts => violations
    let mut new_artifacts = Vec::new();
    if let Ok(d) = std::fs::read_dir(&art) {
        for e in d.filter_map(|e| e.ok()) {
            let name = e.file_name().to_string_lossy().to_string();
            if !before.contains(&name) && (name.starts_with("crash-") || name.starts_with("oom-") || name.starts_with("timeout-")) {
                new_artifacts.push(e.path());
            }
        }
    }
    new_artifacts.sort();
    let mut st = Stats::default();
    st.evals_n(execs);
    st.class_n(&format!("libfuzzer-{label}-executions"), execs);
    run.add_stats(&format!("libfuzzer-{label}"), st);
    run.note(
        &format!("libfuzzer_{label}"),
        json!({"status": "ran", "jobs": jobs, "runs_per_job": runs, "executions": execs, "jobs_stopped_abnormally": crashed, "new_artifacts": new_artifacts.len()}),
    );
    for a in new_artifacts {
        let name = a.file_name().unwrap().to_string_lossy().to_string();
        if name.starts_with("timeout-") || name.starts_with("oom-") {
            // slow / memory-hungry inputs are reported as inconclusive, not as violations
            eprintln!("libFuzzer {target}: {name} (resource limit hit; recorded in the evidence, not a violation)");
            continue;
        }
        if let Some(sub) = sub {
            // convert the artifact into an ordinary replay (choice sequence)
            if let Ok(bytes) = std::fs::read(&a) {
                let choices: Vec<u32> = bytes.chunks_exact(4).map(|c| u32::from_le_bytes([c[0], c[1], c[2], c[3]])).collect();
                let mut st2 = Stats::default();
                st2.frozen = true;
                let mut ch = Choices::new(&choices);
                let fail = match run_case(sub_f.unwrap().1, &mut ch, &mut st2) {
                    Err(f) => f,
                    Ok(()) => Fail::new("flaky", format!("libFuzzer artifact {} does not fail when re-run in process", a.display()), Value::Null),
                };
                run.push_violation(Violation { sub: sub.to_string(), fail, choices, exact: false });
            }
            continue;
        }
        println!("VIOLATION property={} replay={}", run.prop, a.display());
        run.fuzz_violations.fetch_add(1, Ordering::Relaxed);
    }
}

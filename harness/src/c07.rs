//! C07 - the AST and its JSON are a canonical image of filter structure.

use crate::ast::*;
use crate::choices::Choices;
use crate::engine::*;
use crate::genr::{self as g, Gen, GenCfg};
use crate::runner::*;
use crate::scheme::Recipe;
use crate::typeck;
use serde_json::json;
use std::hash::{Hash, Hasher};
use std::net::{IpAddr, Ipv4Addr, Ipv6Addr};
use wirefilter::FilterAst;

fn std_hash(a: &FilterAst) -> u64 {
    let mut h = std::collections::hash_map::DefaultHasher::new();
    a.hash(&mut h);
    h.finish()
}

fn c_hash(a: &FilterAst) -> Result<u64, String> {
    let w = wirefilter_ffi::FilterAst::from(a.clone());
    let r = wirefilter_ffi::wirefilter_get_filter_hash(&w);
    if r.status == wirefilter_ffi::Status::Success { Ok(r.hash) } else { Err("hash status not Success".into()) }
}

fn gen_style(ch: &mut Choices<'_>) -> Style {
    let alias: Vec<u8> = (0..10).map(|_| ch.draw(2) as u8).collect();
    let space: Vec<u8> = (0..10).map(|_| ch.weighted(&[3, 5, 1, 2, 1, 1]) as u8).collect();
    Style { alias, space }
}

/// One well-typedness-preserving structural change.
fn mutate(ch: &mut Choices<'_>, r: &Recipe, e: &mut MExpr, budget: &mut usize) -> Option<&'static str> {
    /// A small edit of a byte string that keeps a wildcard pattern valid: one more ordinary byte, the case of one
    /// ASCII letter, the low bit of the last byte, a trailing NUL, or the last ordinary byte dropped.
    fn edit_bytes(ch: &mut Choices<'_>, v: &mut Vec<u8>) -> &'static str {
        let letters: Vec<usize> = v.iter().enumerate().filter(|(_, b)| b.is_ascii_alphabetic()).map(|(i, _)| i).collect();
        match ch.draw(5) {
            1 if !letters.is_empty() => {
                let i = *ch.pick(&letters);
                v[i] ^= 0x20;
                "literal-letter-case"
            }
            2 if v.last().map_or(false, |b| b.is_ascii_alphanumeric() && (*b ^ 1).is_ascii_alphanumeric()) => {
                *v.last_mut().unwrap() ^= 1;
                "literal-low-bit"
            }
            3 => {
                v.push(0);
                "literal-trailing-nul"
            }
            4 if v.len() >= 2 && v[v.len() - 1].is_ascii_alphanumeric() && v[v.len() - 2].is_ascii_alphanumeric() => {
                v.pop();
                "literal-shortened"
            }
            _ => {
                v.push(b'x');
                "literal"
            }
        }
    }
    fn bump_lit(ch: &mut Choices<'_>, l: &mut MLit) -> &'static str {
        match l {
            MLit::Int(i) => match ch.draw(4) {
                1 if i.v != 0 && i.v != i64::MIN => {
                    i.v = -i.v;
                    if i.v < 0 {
                        i.form = IntForm::Dec;
                    }
                    "literal-sign"
                }
                2 => {
                    i.v ^= 1 << 32;
                    if i.v < 0 {
                        i.form = IntForm::Dec;
                    }
                    "literal-bit-32"
                }
                3 => {
                    i.v ^= i64::MIN;
                    if i.v < 0 {
                        i.form = IntForm::Dec;
                    }
                    "literal-top-bit"
                }
                _ => {
                    i.v = i.v.wrapping_add(1);
                    if i.v < 0 {
                        i.form = IntForm::Dec;
                    }
                    "literal"
                }
            },
            MLit::Bytes(b) => edit_bytes(ch, &mut b.v),
            MLit::Ip(IpAddr::V4(a)) => {
                if ch.boolean() {
                    *l = MLit::Ip(IpAddr::V6(a.to_ipv6_mapped()));
                    "literal-ip-family"
                } else {
                    *l = MLit::Ip(IpAddr::V4(Ipv4Addr::from(u32::from(*a).wrapping_add(1))));
                    "literal"
                }
            }
            MLit::Ip(IpAddr::V6(a)) => {
                if ch.boolean() {
                    *l = MLit::Ip(IpAddr::V6(Ipv6Addr::from(u128::from(*a) ^ (1 << 127))));
                    "literal-top-bit"
                } else {
                    *l = MLit::Ip(IpAddr::V6(Ipv6Addr::from(u128::from(*a).wrapping_add(1))));
                    "literal"
                }
            }
        }
    }
    fn index(ch: &mut Choices<'_>, r: &Recipe, ix: &mut MIndex, budget: &mut usize) -> Option<&'static str> {
        if *budget == 0 {
            // change an index value / key, or swap the field for another of the same type
            for p in ix.path.iter_mut() {
                match p {
                    MIdx::Idx(n, _) => {
                        *n = if *n == u32::MAX { 0 } else { *n + 1 };
                        return Some("index-value");
                    }
                    MIdx::Key(k, _) => {
                        k.push('z');
                        return Some("map-key");
                    }
                    MIdx::Each => {}
                }
            }
            if let MBase::Field(n) = &ix.base {
                let t = r.field(n).map(|(_, f)| f.ty.clone());
                let others: Vec<String> = r.fields.iter().filter(|f| Some(&f.ty) == t.as_ref() && f.name != *n).map(|f| f.name.clone()).collect();
                if !others.is_empty() {
                    ix.base = MBase::Field(ch.pick(&others).clone());
                    return Some("field");
                }
            }
        } else {
            *budget -= 1;
        }
        if let MBase::Call { args, .. } = &mut ix.base {
            for a in args.iter_mut() {
                let r = match a {
                    MArg::Index(i) => index(ch, r, i, budget),
                    MArg::Lit(l) => {
                        if *budget == 0 {
                            bump_lit(ch, l);
                            Some("argument-literal")
                        } else {
                            *budget -= 1;
                            None
                        }
                    }
                    MArg::Logical(e) => mutate(ch, r, e, budget),
                };
                if r.is_some() {
                    return r;
                }
            }
        }
        None
    }
    match e {
        MExpr::Cmp { lhs, op } => {
            if *budget == 0 {
                match op {
                    MOp::Ord(o, l) => {
                        if ch.boolean() {
                            *o = match o {
                                OrdOp::Eq => OrdOp::Ne,
                                OrdOp::Ne => OrdOp::Ge,
                                OrdOp::Ge => OrdOp::Le,
                                OrdOp::Le => OrdOp::Gt,
                                OrdOp::Gt => OrdOp::Lt,
                                OrdOp::Lt => OrdOp::Eq,
                            };
                            return Some("comparison-operator");
                        }
                        return Some(bump_lit(ch, l));
                    }
                    MOp::BitAnd(i) => {
                        i.v = i.v.wrapping_add(1);
                        return Some("literal");
                    }
                    MOp::Contains(b) => {
                        return Some(edit_bytes(ch, &mut b.v));
                    }
                    MOp::Wildcard { strict, pat } => {
                        let how = ch.draw(3);
                        if how == 0 {
                            *strict = !*strict;
                            return Some("wildcard-strictness");
                        }
                        if how == 1 {
                            if let Some(i) = pat.v.iter().position(|b| b.is_ascii_alphabetic()) {
                                pat.v[i] ^= 0x20;
                                return Some("wildcard-pattern-letter-case");
                            }
                        }
                        // the pattern itself (a pattern that ends in a backslash escape is left to the other edits)
                        let before = pat.v.clone();
                        let m = edit_bytes(ch, &mut pat.v);
                        if m == "literal-trailing-nul" || before.last() == Some(&b'\\') {
                            pat.v = before;
                            pat.v.push(b'x');
                            return Some("wildcard-pattern");
                        }
                        return Some(if m == "literal-letter-case" { "wildcard-pattern-letter-case" } else { "wildcard-pattern" });
                    }
                    MOp::Matches(rx, _) if !rx.alts.is_empty() && ch.boolean() => {
                        let flip = rx.alts[0].iter().position(|n| matches!(n, crate::rx::Node::Lit(b) if b.is_ascii_alphabetic()));
                        match flip {
                            Some(i) if ch.draw(3) != 0 => {
                                if let crate::rx::Node::Lit(b) = &mut rx.alts[0][i] {
                                    *b ^= 0x20;
                                }
                                return Some("regex-letter-case");
                            }
                            _ => {
                                rx.alts[0].push(crate::rx::Node::Lit(b'x'));
                                return Some("regex-pattern");
                            }
                        }
                    }
                    MOp::In(items) => {
                        if !items.is_empty() && ch.boolean() {
                            items.pop();
                            return Some("set-item-removed");
                        }
                        let first = items.first().cloned();
                        match first {
                            Some(it) => items.push(it),
                            None => return index(ch, r, lhs, &mut 0),
                        }
                        return Some("set-item-duplicated");
                    }
                    MOp::InList(n) => {
                        n.push('9');
                        return Some("list-name");
                    }
                    MOp::IsTrue | MOp::Matches(..) => return index(ch, r, lhs, &mut 0),
                }
            }
            *budget -= 1;
            index(ch, r, lhs, budget)
        }
        MExpr::Not(a) => {
            if *budget == 0 {
                let inner = (**a).clone();
                *e = inner;
                return Some("not-removed");
            }
            *budget -= 1;
            mutate(ch, r, a, budget)
        }
        MExpr::Paren(a) => mutate(ch, r, a, budget),
        MExpr::Comb { op, items } => {
            if *budget == 0 {
                if items.len() >= 3 && ch.boolean() {
                    // re-associate: a . b . c  =>  a . (b . c)
                    let tail: Vec<MExpr> = items.drain(1..).collect();
                    items.push(MExpr::Paren(Box::new(MExpr::Comb { op: *op, items: tail })));
                    return Some("association");
                }
                let new = match op {
                    LOp::And => LOp::Or,
                    LOp::Or => LOp::Xor,
                    LOp::Xor => LOp::And,
                };
                *op = new;
                return Some("logical-operator");
            }
            *budget -= 1;
            for it in items.iter_mut() {
                if let Some(m) = mutate(ch, r, it, budget) {
                    return Some(m);
                }
            }
            None
        }
        MExpr::Quant { any, arg } => {
            if *budget == 0 {
                *any = !*any;
                return Some("quantifier");
            }
            *budget -= 1;
            match &mut **arg {
                MQArg::Index(ix) => index(ch, r, ix, budget),
                MQArg::Logical(e) => mutate(ch, r, e, budget),
            }
        }
    }
}

fn redundant_parens(e: &MExpr, ch: &mut Choices<'_>) -> MExpr {
    // wrap comparison leaves (outside argument positions) in parentheses
    match e {
        MExpr::Cmp { .. } => {
            if ch.boolean() { MExpr::Paren(Box::new(e.clone())) } else { e.clone() }
        }
        MExpr::Not(a) => MExpr::Not(Box::new(redundant_parens(a, ch))),
        MExpr::Paren(a) => MExpr::Paren(Box::new(redundant_parens(a, ch))),
        MExpr::Comb { op, items } => MExpr::Comb { op: *op, items: items.iter().map(|i| redundant_parens(i, ch)).collect() },
        MExpr::Quant { .. } => e.clone(),
    }
}

fn case(ch: &mut Choices<'_>, st: &mut Stats) -> CaseResult {
    let cfg = GenCfg { max_depth: 4, ..GenCfg::full() };
    let mut gen_ = Gen::new(ch, cfg);
    let expr = gen_.gen_bool(4);
    gen_.finish_scheme();
    let recipe = gen_.r.clone();
    let ch = gen_.ch;
    let s1 = gen_style(ch);
    let s2 = gen_style(ch);
    let (t1, a1, lb1) = print_expr_info(&expr, &s1);
    let (t2, a2, lb2) = print_expr_info(&expr, &s2);
    let show = || json!({"scheme": recipe.show(), "text1": t1, "text2": t2});
    let scheme = recipe.build();
    let p = |t: &str| -> Result<FilterAst, Fail> {
        match catch(|| scheme.parse(t).map_err(|e| e.to_string())) {
            Ok(Ok(a)) => Ok(a),
            Ok(Err(e)) => Err(Fail::new("well-typed-rejected", format!("{t:?}:\n{e}"), show())),
            Err(p) => Err(Fail::new("parse-panic", p, show())),
        }
    };
    let ast1 = p(&t1)?;
    let ast2 = p(&t2)?;
    st.eval();
    if ast1 != ast2 {
        return Err(Fail::new("alias-or-whitespace-changes-ast", format!("ASTs differ:\n{ast1:?}\n{ast2:?}"), show()));
    }
    let j1 = serde_json::to_string(&ast1).unwrap();
    let j2 = serde_json::to_string(&ast2).unwrap();
    if j1 != j2 {
        return Err(Fail::new("alias-or-whitespace-changes-json", format!("{j1}\n{j2}"), show()));
    }
    if serde_json::to_string(&ast1).unwrap() != j1 {
        return Err(Fail::new("serialization-not-deterministic", j1, show()));
    }
    let want = expr_json(&expr);
    let got: serde_json::Value = serde_json::from_str(&j1).unwrap();
    if got != want {
        return Err(Fail::new("ast-json-mismatch", format!(" got {got}\nwant {want}"), show()));
    }
    let (h1, h2) = (c_hash(&ast1).map_err(|e| Fail::new("hash-error", e, show()))?, c_hash(&ast2).map_err(|e| Fail::new("hash-error", e, show()))?);
    if h1 != h2 {
        return Err(Fail::new("alias-or-whitespace-changes-hash", format!("C-API hashes {h1:x} vs {h2:x}"), show()));
    }
    if std_hash(&ast1) != std_hash(&ast2) {
        return Err(Fail::new("equal-asts-hash-differently", "std::hash::Hash differs for equal ASTs".to_string(), show()));
    }
    let cl = ast1.clone();
    if cl != ast1 || std_hash(&cl) != std_hash(&ast1) || c_hash(&cl).ok() != Some(h1) {
        return Err(Fail::new("clone-differs", "a clone is not equal / hashes differently".to_string(), show()));
    }
    // parentheses are visible only as nesting: redundant parentheses around
    // comparison leaves do not change the JSON (nor the C-API hash)
    let e3 = redundant_parens(&expr, ch);
    if e3 != expr {
        let t3 = print_expr(&e3, &s1);
        let ast3 = p(&t3)?;
        let j3 = serde_json::to_string(&ast3).unwrap();
        if j3 != j1 {
            return Err(Fail::new("redundant-parentheses-change-json", format!("{t3:?}\n{j3}\n{j1}"), show()));
        }
        if c_hash(&ast3).ok() != Some(h1) {
            return Err(Fail::new("equal-json-different-hash", t3, show()));
        }
        st.class("redundant-parentheses");
    }
    // a structurally different filter serialises differently and is a different AST
    let mut e4 = expr.clone();
    let mut budget = ch.draw(10);
    let applied = mutate(ch, &recipe, &mut e4, &mut budget);
    if let Some(m) = applied {
        g::normalize_args(&mut e4);
        if e4 != expr && typeck::filter_ok(&recipe, &e4).is_ok() && expr_json(&e4) != want {
            let t4 = print_expr(&e4, &s2);
            if let Ok(Ok(ast4)) = catch(|| scheme.parse(&t4).map_err(|e| e.to_string())) {
                let j4 = serde_json::to_string(&ast4).unwrap();
                if j4 == j1 {
                    return Err(Fail::new("different-structure-same-json", format!("mutation {m}: {t1:?} and {t4:?} serialise identically: {j1}"), show()));
                }
                if ast4 == ast1 {
                    return Err(Fail::new("different-structure-equal-ast", format!("mutation {m}: {t1:?} and {t4:?} give equal ASTs"), show()));
                }
                st.class(&format!("mutant-{m}"));
            } else {
                st.class("mutant-not-parsable");
            }
        }
    }
    // the hash belongs to the AST, not to the C caller's history: a rule loader that parses,
    // hashes and compiles one filter after the other (compile consumes the AST; the next AST
    // may be allocated where the previous one was) gets the same hash for this filter again
    {
        use wirefilter_ffi as ffi;
        let other = if let (Some(_), true) = (applied, e4 != expr) { catch(|| scheme.parse(&print_expr(&e4, &s2)).ok()).ok().flatten() } else { None };
        let rounds = 1 + ch.draw(3);
        for _ in 0..rounds {
            if let Some(o) = &other {
                let boxed = Box::new(ffi::FilterAst::from(o.clone()));
                let ho = ffi::wirefilter_get_filter_hash(&boxed);
                let want_o = c_hash(o).ok();
                if ho.status != ffi::Status::Success || Some(ho.hash) != want_o {
                    return Err(Fail::new("hash-depends-on-history", format!("hash of a boxed copy {:x}, of a fresh copy {want_o:x?}", ho.hash), show()));
                }
                let c = ffi::wirefilter_compile_filter(boxed);
                if let Some(f) = c.filter {
                    ffi::wirefilter_free_compiled_filter(f);
                }
            }
            let boxed = Box::new(ffi::FilterAst::from(ast1.clone()));
            let hb = ffi::wirefilter_get_filter_hash(&boxed);
            if hb.status != ffi::Status::Success || hb.hash != h1 {
                return Err(Fail::new(
                    "hash-depends-on-history",
                    format!("after hashing and compiling another filter through the C API this filter hashes to {:x}, before to {h1:x}", hb.hash),
                    show(),
                ));
            }
            if ch.boolean() {
                let c = ffi::wirefilter_compile_filter(boxed);
                if let Some(f) = c.filter {
                    ffi::wirefilter_free_compiled_filter(f);
                }
            } else {
                ffi::wirefilter_free_parsed_filter(boxed);
            }
        }
        if other.is_some() {
            st.class("hash-after-compiling-another-filter");
        }
    }
    // non-trivial: >= 3 operator occurrences, >= 2 rendered with different
    // aliases in the two texts, and a line break in some gap
    let differing = a1.iter().zip(&a2).filter(|(x, y)| x != y).count();
    if a1.len() >= 3 && differing >= 2 && (lb1 || lb2) {
        st.nontrivial(&(&t1, &t2));
        st.sample("nontrivial", || json!({"text1": t1, "text2": t2, "json": got}));
    }
    st.class(&format!("operator-occurrences-{}", a1.len().min(6)));
    Ok(())
}

pub fn subs() -> Vec<Sub> {
    vec![Sub { name: "canon", f: Box::new(case) }]
}

pub fn run(run: &Run) {
    run.rule(
        "canon: a well-typed filter from the full generator (comparisons, sets, lists, regex/wildcard, index paths, calls, quantifiers) rendered twice with independent alias choices per operator occurrence and whitespace choices per gap (none/space/double space/LF/CRLF/mixed): equal ASTs, byte-identical JSON equal to the canonical document computed from the model tree, equal C-API hash and std Hash, clone equal; redundant parentheses around leaves leave JSON and hash unchanged; one structural mutation (operator, literal, index, key, field, association, quantifier, not) must change JSON and AST; \
         non-trivial = >= 3 operator occurrences of which >= 2 rendered with different aliases in the two texts and >= 1 gap rendered with a line break; distinct by the pair of texts",
    );
    run.assume("hash inequality of different filters is not asserted (FNV may collide)");
    let subs = subs();
    run_regressions(run, &subs);
    let n = run.tier.pick(300_000, 15_000_000);
    run.random("canon", n, 300, &*find_sub(&subs, "canon").unwrap().f);
}

//! C05 - parsing is total: any input yields an AST or a well-formed error.

use crate::ast::*;
use crate::c04::matrix_recipe;
use crate::choices::Choices;
use crate::engine::*;
use crate::genr::{self as g, Gen, GenCfg};
use crate::runner::*;
use serde_json::json;
use std::sync::OnceLock;
use wirefilter::Scheme;

fn scheme() -> &'static Scheme {
    static S: OnceLock<Scheme> = OnceLock::new();
    S.get_or_init(|| matrix_recipe().build())
}

const ERR_CLASSES: &[(&str, &str)] = &[
    ("maximum nesting depth exceeded", "nesting-limit"),
    ("while parsing with radix", "parse-int"),
    ("expected literal", "expected-literal"),
    ("expected \", xHH or OOO after", "invalid-escape"),
    ("invalid raw string hash count", "raw-hash-count"),
    ("could not find an ending quote", "missing-ending-quote"),
    ("characters, but found", "count-mismatch"),
    ("characters, but found", "count-mismatch"),
    ("unknown field", "unknown-field"),
    ("unknown function", "unknown-function"),
    ("unknown identifier", "unknown-identifier"),
    ("cannot perform this operation on type", "unsupported-op"),
    ("incompatible range bounds", "incompatible-range"),
    ("unrecognised input", "eof"),
    ("invalid number of arguments", "args-count"),
    ("invalid kind of argument", "arg-kind"),
    ("invalid type of argument", "arg-type"),
    ("invalid value of argument", "arg-value"),
    ("cannot access index", "index-access"),
    ("expected value of type", "type-mismatch"),
    ("invalid use of map each access operator", "map-each"),
    ("invalid list name", "list-name"),
    ("invalid wildcard", "wildcard-invalid"),
    ("star metacharacters", "wildcard-stars"),
    ("double star", "wildcard-double-star"),
    ("regex parse error", "regex-syntax"),
    ("exceeds size limit", "regex-size"),
    ("invalid IP address syntax", "ip-addr"),
    ("invalid IPv4 address syntax", "ip-addr"),
    ("invalid IPv6 address syntax", "ip-addr"),
    ("host part of address was not zero", "cidr-host-bits"),
    ("invalid length for network", "cidr-length"),
    ("network length", "cidr-length"),
    ("couldn't parse length in network", "cidr-length"),
    ("expected ", "expected-name"),
];

fn err_class(shown: &str) -> &'static str {
    // the message follows the carets on the third line
    let msg = shown.split('\n').nth(2).unwrap_or("");
    for (pat, c) in ERR_CLASSES {
        if msg.contains(pat) {
            return c;
        }
    }
    "other"
}

/// The oracle, shared with the fuzz target's logic: Ok or a well-formed Err, no panic.
pub fn check_input(s: &Scheme, input: &str, st: &mut Stats, what: &str) -> CaseResult {
    let show = || json!({"input": input, "generator": what});
    // filter
    let r = catch(|| {
        s.parse(input).map(|ast| serde_json::to_string(&ast).map(|j| j.len())).map_err(|e| (e.to_string(), format!("{e:?}").len()))
    });
    st.eval();
    match r {
        Err(p) => return Err(Fail::new("parse-panic", format!("Scheme::parse panicked: {p}"), show())),
        Ok(Ok(Ok(_))) => {
            st.class("filter-accepted");
            st.nontrivial(&("f", input));
        }
        Ok(Ok(Err(e))) => return Err(Fail::new("serialize-error", e.to_string(), show())),
        Ok(Err((shown, _))) => {
            let (_, c, _) = error_wellformed(input, &shown)
                .map_err(|m| Fail::new("malformed-parse-error", format!("{m}\nerror text:\n{shown}"), show()))?;
            st.class(&format!("err-{}", err_class(&shown)));
            if c > 1 {
                st.nontrivial(&("f", input));
            }
        }
    }
    // value expression
    let r = catch(|| {
        s.parse_value(input).map(|ast| serde_json::to_string(&ast).map(|j| j.len())).map_err(|e| (e.to_string(), format!("{e:?}").len()))
    });
    st.eval();
    match r {
        Err(p) => return Err(Fail::new("parse-panic", format!("Scheme::parse_value panicked: {p}"), show())),
        Ok(Ok(Ok(_))) => {
            st.class("value-accepted");
            st.nontrivial(&("v", input));
        }
        Ok(Ok(Err(e))) => return Err(Fail::new("serialize-error", e.to_string(), show())),
        Ok(Err((shown, _))) => {
            let (_, c, _) = error_wellformed(input, &shown)
                .map_err(|m| Fail::new("malformed-parse-error", format!("(value expression) {m}\nerror text:\n{shown}"), show()))?;
            if c > 1 {
                st.nontrivial(&("v", input));
            }
        }
    }
    Ok(())
}

const MULTI: &[char] = &['é', 'ü', '中', '😀', '\u{0}', '\u{7f}', '\u{85}', '\u{a0}', '\u{2028}', '\u{301}', 'ß', '\u{feff}', '\u{10ffff}'];
const PUNCT: &[u8] = b"\"#\\()[]{}*$.,:-/&|^!=<>~_ \n\r\t'%@;?+";

fn gen_char(ch: &mut Choices<'_>) -> char {
    match ch.weighted(&[6, 6, 3, 3, 3, 1]) {
        0 => (b'a' + ch.draw(26) as u8) as char,
        1 => *ch.pick(PUNCT) as char,
        2 => (b'0' + ch.draw(10) as u8) as char,
        3 => *ch.pick(MULTI),
        4 => *ch.pick(&[' ', '\n', '\r', '\t']),
        _ => char::from_u32(ch.raw() % 0x11_0000).unwrap_or('\u{fffd}'),
    }
}

fn unicode_case(ch: &mut Choices<'_>, st: &mut Stats) -> CaseResult {
    let n = ch.draw(60);
    let s: String = (0..n).map(|_| gen_char(ch)).collect();
    check_input(scheme(), &s, st, "unicode")
}

const TOKENS: &[&str] = &[
    "n", "s", "ip", "t", "arr_n", "arr_s", "arr_b", "map_n", "map_s", "map_b", "aab", "aan", "man", "amn", "n2", "t2", "unknown", "n.x",
    "==", "!=", "<", "<=", ">", ">=", "eq", "ne", "lt", "le", "gt", "ge", "&", "bitwise_and", "contains", "matches", "~", "wildcard",
    "strict wildcard", "strict", "in", "and", "&&", "or", "||", "xor", "^^", "not", "!", "any", "all", "any(", "all(", "(", ")", "[", "]",
    "{", "}", "[*]", "[0]", "[\"k\"]", "*", "$", "$nm", "$a.b", ",", "..", "/", ":", "-", ".", "\"", "\\", "\\\"", "\\x", "\\x4", "\\x41", "\\101",
    "\\8", "r", "r\"", "r#\"", "\"#", "#", "##", "r##\"a\"#\"##", "\"ab\"", "\"a\\\"b\"", "r\"x\"", "1a:2b", "1a:2b:3c", "10", "-5", "0x1F",
    "017", "08", "0x", "1..5", "5..1", "9223372036854775807", "9223372036854775808", "-9223372036854775808", "-9223372036854775809",
    "10.1.2.3", "10.1.2.3/8", "10.0.0.0/8", "10.1.2.3..10.1.2.9", "::1", "2001:db8::1", "2001:db8::/32", "::/0", "::ffff:1.2.3.4", "1.2.3",
    "len", "len(", "len(s)", "lower(", "concat(", "concat(s,", "opt2(s,1,\"x\")", "isodd(arr_n[*])", "ctxfn(s, 1)", "pick(t,", "cnt(",
    "é", "中", "😀", "\u{0}", "\t", "[a-", "(?", "{1,", "a**b", "\\*", "x{1000}{1000}",
];

fn soup_case(ch: &mut Choices<'_>, st: &mut Stats) -> CaseResult {
    let n = ch.range(1, 30);
    let mut s = String::new();
    for i in 0..n {
        if i > 0 {
            s.push_str(*ch.pick(&["", " ", " ", " ", "\n", "\r\n", "  "]));
        }
        if ch.chance(1, 12) {
            s.push(gen_char(ch));
        } else {
            s.push_str(*ch.pick(TOKENS));
        }
    }
    check_input(scheme(), &s, st, "token-soup")
}

/// Body of a quoted literal assembled from escapes, multi-byte characters and
/// bytes that make the decoded text invalid UTF-8 (offsets into the source and
/// into the decoded text differ after every escape).
fn string_body(ch: &mut Choices<'_>) -> String {
    let n = ch.draw(9);
    let mut s = String::new();
    for _ in 0..n {
        match ch.weighted(&[4, 2, 2, 3, 2, 4, 1, 1]) {
            0 => s.push((b'a' + ch.draw(26) as u8) as char),
            1 => s.push_str("\\\""),
            2 => s.push_str("\\\\"),
            3 => s.push_str(&format!("\\x{:02x}", *ch.pick(&[0x41u8, 0x00, 0x7f, 0x80, 0xbf, 0xc3, 0xe2, 0xf0, 0xff, 0x22, 0x5c]))),
            4 => s.push_str(*ch.pick(&["\\101", "\\377", "\\000", "\\200", "\\400", "\\777"])),
            5 => s.push(*ch.pick(MULTI)),
            6 => s.push_str(*ch.pick(&["\\q", "\\x4", "\\8", "\\x", "\\", "\\xZZ", "\\18"])),
            _ => s.push(*ch.pick(&['"', '\n', '*', '#', '[', '(', '?'])),
        }
    }
    s
}

const STRING_SLOTS: &[(&str, &str)] = &[
    ("map_s[", "] == \"x\""),
    ("map_n[", "] in {1 2}"),
    ("amn[0][", "] == 1"),
    ("any(map_b[", "])"),
    ("s == ", ""),
    ("s != ", " or t"),
    ("s in {", " \"z\"}"),
    ("s in {\"a\" ", "}"),
    ("s contains ", ""),
    ("s matches ", ""),
    ("s ~ ", ""),
    ("s wildcard ", ""),
    ("s strict wildcard ", ""),
    ("arr_s[*] == ", ""),
    ("concat(s, ", ") == \"x\""),
    ("opt2(s, 1, ", ") == \"x\""),
    ("lower(", ") == \"x\""),
    ("not (s == ", ")"),
    ("map_s[", "]"),
    ("concat(map_s[", "], \"x\")"),
];

fn strings_case(ch: &mut Choices<'_>, st: &mut Stats) -> CaseResult {
    let (pre, post) = *ch.pick(STRING_SLOTS);
    let body = string_body(ch);
    let lit = match ch.weighted(&[8, 2, 1, 1]) {
        0 => format!("\"{body}\""),
        1 => {
            let h = "#".repeat(ch.draw(3));
            format!("r{h}\"{body}\"{h}")
        }
        2 => format!("\"{body}"),
        _ => format!("r#\"{body}\""),
    };
    let lead = *ch.pick(&["", "", " ", "\n", "é or ", "t and\n"]);
    let input = format!("{lead}{pre}{lit}{post}");
    if body.contains("\\x") || body.contains("\\3") || body.contains("\\2") {
        if body.chars().any(|c| c.len_utf8() > 1) {
            st.class("literal-with-escape-and-multibyte-char");
        }
    }
    check_input(scheme(), &input, st, "string-literals")
}

pub fn mutate_text(ch: &mut Choices<'_>, text: &str) -> String {
    let mut chars: Vec<char> = text.chars().collect();
    let edits = ch.range(1, 4);
    for _ in 0..edits {
        let len = chars.len();
        match ch.draw(8) {
            0 => {
                let i = ch.draw(len + 1);
                chars.insert(i, gen_char(ch));
            }
            1 => {
                if len > 0 {
                    chars.remove(ch.draw(len));
                }
            }
            2 => {
                if len > 0 {
                    let i = ch.draw(len);
                    let j = (i + 1 + ch.draw(6)).min(len);
                    let span: Vec<char> = chars[i..j].to_vec();
                    for (k, c) in span.into_iter().enumerate() {
                        chars.insert(j + k, c);
                    }
                }
            }
            3 => {
                if len > 1 {
                    let i = ch.draw(len - 1);
                    chars.swap(i, i + 1);
                }
            }
            4 => {
                chars.truncate(ch.draw(len + 1));
            }
            5 => {
                if len > 0 {
                    let i = ch.draw(len);
                    chars[i] = *ch.pick(MULTI);
                }
            }
            6 => {
                let i = ch.draw(len + 1);
                for (k, c) in ch.pick(TOKENS).chars().enumerate() {
                    chars.insert(i + k, c);
                }
            }
            _ => {
                // drop a prefix
                let i = ch.draw(len + 1);
                chars.drain(..i);
            }
        }
    }
    chars.into_iter().collect()
}

fn mutated_case(ch: &mut Choices<'_>, st: &mut Stats) -> CaseResult {
    let mut gen_ = Gen::new(ch, GenCfg { max_depth: 3, ..GenCfg::full() });
    let expr = gen_.gen_bool(3);
    gen_.finish_scheme();
    let alias: Vec<u8> = (0..8).map(|_| gen_.ch.draw(2) as u8).collect();
    let space: Vec<u8> = (0..8).map(|_| gen_.ch.weighted(&[3, 6, 1, 1, 1, 1]) as u8).collect();
    let text = print_expr(&expr, &Style { alias, space });
    let recipe = gen_.r.clone();
    let s = recipe.build();
    let ch = gen_.ch;
    let m = mutate_text(ch, &text);
    check_input(&s, &m, st, "mutated-valid-filter").map_err(|mut f| {
        f.case = json!({"input": m, "original": text, "scheme": recipe.show()});
        f
    })
}

/// Grammatical but (mostly) ill-typed filters: the typed generator's output after structural, type-breaking mutations
/// (wrong index kind for the container, a field of another type, `[*]` moved, literal of another kind, ...), half of
/// them with character-level edits on top.  The type checker's own failure paths are parser code too.
fn illtyped_case(ch: &mut Choices<'_>, st: &mut Stats) -> CaseResult {
    let (recipe, text, applied) = crate::c04::mutated_typed_text(ch);
    let s = recipe.build();
    let input = if ch.chance(1, 3) { mutate_text(ch, &text) } else { text.clone() };
    st.class(&format!("illtyped-structural-mutations-{applied}"));
    check_input(&s, &input, st, "typed-filter-after-type-breaking-mutations").map_err(|mut f| {
        f.case = json!({"input": input, "before-character-edits": text, "scheme": recipe.show()});
        f
    })
}

/// Every text of C04's typing matrices (left type x operator x literal kind, container x index kind, operand pairs,
/// quantifier and call argument shapes), accepted or not.
fn matrix_case(ch: &mut Choices<'_>, st: &mut Stats) -> CaseResult {
    static M: std::sync::OnceLock<(Scheme, Vec<String>)> = std::sync::OnceLock::new();
    let (s, texts) = M.get_or_init(|| {
        let (r, t) = crate::c04::matrix_texts();
        (r.build(), t)
    });
    let i = ch.draw(texts.len());
    check_input(s, &texts[i], st, "typing-matrix-text")
}

fn matrix_total() -> u64 {
    crate::c04::matrix_texts().1.len() as u64
}

// ---------------------------------------------------------------------------
// Stress inputs (child process, thread with an 8 MiB stack)

const STRESS_N: usize = 100_000;

fn repeat(unit: &str, n: usize) -> String {
    unit.repeat(n)
}

const STRESS_NAMES: &[&str] = &[
    "flat-chain-and",
    "flat-chain-alternating",
    "flat-chain-rising-precedence",
    "flat-chain-falling-precedence",
    "nested-parens",
    "nested-parens-spaced",
    "nested-not",
    "nested-bang",
    "nested-not-paren",
    "nested-calls",
    "nested-calls-b2b",
    "nested-any",
    "nested-mixed",
    "open-brackets",
    "index-chain",
    "open-braces",
    "long-int-list",
    "long-ip-list",
    "quotes",
    "escaped-quotes",
    "backslashes",
    "raw-hashes",
    "raw-255-hashes-long-body",
    "long-string",
    "long-hex-bytes",
    "long-identifier",
    "long-regex",
    "deep-regex",
    "deeper-regex",
    "wildcard-stars",
    "many-lines",
    "many-lines-crlf",
    "multibyte-run",
    "args-list",
    "value-nested-calls",
    "nested-quantified-comparison",
    "in-list-chain",
];

fn stress_build(name: &str) -> String {
    let n = STRESS_N;
    let chain = |ops: &[&str]| {
        let mut s = String::from("t");
        for i in 0..n {
            s.push(' ');
            s.push_str(ops[i % ops.len()]);
            s.push_str(if i % 7 == 3 { " n == 3" } else { " t2" });
        }
        s
    };
    match name {
        "flat-chain-and" => chain(&["and"]),
        "flat-chain-alternating" => chain(&["and", "or", "xor", "&&", "||", "^^"]),
        "flat-chain-rising-precedence" => chain(&["or", "xor", "and"]),
        "flat-chain-falling-precedence" => chain(&["and", "xor", "or"]),
        "nested-parens" => format!("{}t{}", repeat("(", n), repeat(")", n)),
        "nested-parens-spaced" => format!("{}t{}", repeat("( ", n), repeat(" )", n)),
        "nested-not" => format!("{}t", repeat("not ", n)),
        "nested-bang" => format!("{}t", repeat("!", n)),
        "nested-not-paren" => format!("{}t{}", repeat("not (", n), repeat(")", n)),
        "nested-calls" => format!("{}s{} == \"a\"", repeat("lower(", n), repeat(")", n)),
        "nested-calls-b2b" => format!("{}t{}", repeat("b2b(", n), repeat(")", n)),
        "nested-any" => format!("{}arr_b{}", repeat("any(b2a(", n), repeat("))", n)),
        "nested-mixed" => format!("{}t{}", repeat("not (b2b(any(b2a(", n / 4), repeat("))))", n / 4)),
        "open-brackets" => format!("arr_n{}", repeat("[", n)),
        "index-chain" => format!("aan{} == 1", repeat("[0]", n)),
        "open-braces" => format!("n in {}", repeat("{", n)),
        "long-int-list" => format!("n in {{{}}}", repeat("1 2..3 ", n)),
        "long-ip-list" => format!("ip in {{{}}}", repeat("10.0.0.0/8 ::1 1.2.3.4..1.2.3.9 ", n / 4)),
        "quotes" => format!("s == {}", repeat("\"", n)),
        "escaped-quotes" => format!("s == \"{}\"", repeat("\\\"", n)),
        "backslashes" => format!("s == \"{}", repeat("\\", n)),
        "raw-hashes" => format!("s == r{}\"x\"", repeat("#", n)),
        "raw-255-hashes-long-body" => format!("s == r{}\"{}\"{}", repeat("#", 255), repeat("\"#", n / 2), repeat("#", 255)),
        "long-string" => format!("s == \"{}\"", repeat("a", 10 * n)),
        "long-hex-bytes" => format!("s == {}", repeat("ab:", n) + "cd"),
        "long-identifier" => format!("{} == 1", repeat("a.", n) + "b"),
        "long-regex" => format!("s matches \"{}\"", repeat("(a|b)", 2000)),
        "deep-regex" => format!("s matches \"{}a{}\"", repeat("(", 2000), repeat(")", 2000)),
        "deeper-regex" => format!("s matches \"{}a{}\"", repeat("(", n), repeat(")", n)),
        "wildcard-stars" => format!("s wildcard \"{}\"", repeat("a*", n)),
        "many-lines" => format!("{}t and", repeat("\n", n)),
        "many-lines-crlf" => format!("t and{}(", repeat("\r\n ", n)),
        "multibyte-run" => format!("s == \"{}\" and \u{e9}", repeat("\u{e9}\u{4e2d}\u{1f600}", n / 4)),
        "args-list" => format!("concat({}s) == \"a\"", repeat("s, ", n)),
        "value-nested-calls" => format!("{}s{}", repeat("lower(", n), repeat(")", n)),
        "nested-quantified-comparison" => format!("{}arr_n[*] == 1{}", repeat("any(b2a(", n), repeat("))", n)),
        "in-list-chain" => {
            let mut s = String::from("n in $a");
            for _ in 0..n / 2 {
                s.push_str(" or ip in $b.c");
            }
            s
        }
        _ => panic!("unknown stress input {name}"),
    }
}

fn stress_count() -> usize {
    STRESS_NAMES.len() * 2
}

fn stress_input(i: usize) -> (String, String) {
    let name = STRESS_NAMES[i / 2];
    let s = stress_build(name);
    if i % 2 == 0 {
        (name.to_string(), s)
    } else {
        // truncated in the middle (at a char boundary)
        let mut k = s.len() / 2;
        while !s.is_char_boundary(k) {
            k += 1;
        }
        (format!("{name}-truncated"), s[..k].to_string())
    }
}

pub fn child(args: &[String]) -> i32 {
    if args.first().map(|s| s.as_str()) == Some("corpus") {
        // write a seed corpus of valid inputs over the matrix scheme
        let dir = std::path::PathBuf::from(&args[1]);
        let _ = std::fs::create_dir_all(&dir);
        let mut n = 0;
        for (i, t) in crate::c04::accepted_texts().iter().enumerate() {
            if i % 7 == 0 {
                let _ = std::fs::write(dir.join(format!("seed-{n:04}")), t.as_bytes());
                n += 1;
            }
        }
        println!("wrote {n} seeds");
        return 0;
    }
    if args.first().map(|s| s.as_str()) != Some("stress") {
        return 2;
    }
    let i: usize = args[1].parse().unwrap_or(0);
    let (name, input) = stress_input(i);
    let h = std::thread::Builder::new()
        .stack_size(8 << 20)
        .spawn(move || {
            let s = matrix_recipe().build();
            let mut st = Stats::default();
            let r = check_input(&s, &input, &mut st, "stress");
            match r {
                Ok(()) => {
                    println!("OK {name} len={} classes={:?}", input.len(), st.classes.keys().collect::<Vec<_>>());
                    0
                }
                Err(f) => {
                    let msg: String = f.msg.chars().take(600).collect();
                    println!("FAIL {} {}", f.sig, msg.replace('\n', " | "));
                    1
                }
            }
        })
        .unwrap();
    h.join().unwrap_or(3)
}

fn stress_case(ch: &mut Choices<'_>, st: &mut Stats) -> CaseResult {
    let i = ch.draw(stress_count());
    let name = format!("{}{}", STRESS_NAMES[i / 2], if i % 2 == 1 { "-truncated" } else { "" });
    let (code, sig, out, err) = spawn_child(&["c05", "stress", &i.to_string()], &[], None);
    let out = String::from_utf8_lossy(&out).to_string();
    let case = json!({"stress_input": name, "index": i, "built_by": "c05::stress_build"});
    st.eval();
    match (code, sig) {
        (Some(0), _) => {
            st.class("stress-ok");
            st.nontrivial(&name);
            st.sample("stress", || json!({"name": name, "outcome": out.trim()}));
            Ok(())
        }
        (Some(1), _) => Err(Fail::new("stress-oracle-failed", out, case)),
        (c, s) => Err(Fail::new(
            "stress-crash",
            format!("child exited abnormally (code {c:?}, signal {s:?}) - stack overflow or abort\nstdout: {out}\nstderr: {}", String::from_utf8_lossy(&err).chars().take(800).collect::<String>()),
            case,
        )),
    }
}

// ---------------------------------------------------------------------------
// sub-check "growth": parsing must also terminate *in practice* at the permitted
// nesting depth.  A function definition counts how often its parameter check is
// invoked while well-typed nests of depth 4, 8 and 16 are parsed: the count may
// grow polynomially with the depth; a count that doubles with every level
// (>= 2^16 at depth 16) would need 2^128 steps at the default limit.

thread_local! {
    static WORK: std::cell::Cell<u64> = const { std::cell::Cell::new(0) };
}

#[derive(Debug)]
struct WorkFn;

impl wirefilter::FunctionDefinition for WorkFn {
    fn check_param(
        &self,
        _: &wirefilter::ParserSettings,
        _params: &mut dyn ExactSizeIterator<Item = wirefilter::FunctionParam<'_>>,
        next_param: &wirefilter::FunctionParam<'_>,
        _: Option<&mut wirefilter::FunctionDefinitionContext>,
    ) -> Result<(), wirefilter::FunctionParamError> {
        WORK.with(|w| w.set(w.get() + 1));
        next_param.expect_val_type(std::iter::once(wirefilter::ExpectedType::Type(wirefilter::Type::Bool)))?;
        Ok(())
    }

    fn return_type(&self, _: &mut dyn ExactSizeIterator<Item = wirefilter::FunctionParam<'_>>, _: Option<&wirefilter::FunctionDefinitionContext>) -> wirefilter::Type {
        wirefilter::Type::Int
    }

    fn arg_count(&self) -> (usize, Option<usize>) {
        (1, Some(0))
    }

    fn compile(
        &self,
        _: &mut dyn ExactSizeIterator<Item = wirefilter::FunctionParam<'_>>,
        _: Option<wirefilter::FunctionDefinitionContext>,
    ) -> wirefilter::CompiledFunction {
        Box::new(|_| Some(wirefilter::LhsValue::Int(1)))
    }
}

fn growth_scheme() -> &'static Scheme {
    static S: OnceLock<Scheme> = OnceLock::new();
    S.get_or_init(|| {
        let mut b = wirefilter::SchemeBuilder::new();
        b.add_field("t", wirefilter::Type::Bool).unwrap();
        b.add_field("n", wirefilter::Type::Int).unwrap();
        b.add_field("s", wirefilter::Type::Bytes).unwrap();
        b.add_function("score", WorkFn).unwrap();
        b.add_function("lower", crate::funcs::definition(&crate::funcs::sig("lower").unwrap())).unwrap();
        b.add_function("len", crate::funcs::definition(&crate::funcs::sig("len").unwrap())).unwrap();
        b.add_function("pick", crate::funcs::definition(&crate::funcs::sig("pick").unwrap())).unwrap();
        b.build()
    })
}

/// A well-typed nest of `depth` levels in one of the nesting shapes.
fn growth_text(shape: usize, depth: usize) -> String {
    match shape {
        // unparenthesised comparison whose left-hand side is the inner call
        0 => {
            let mut s = "n == 80".to_string();
            for _ in 0..depth {
                s = format!("score({s}) == 1");
            }
            s
        }
        1 => {
            let mut s = "t".to_string();
            for _ in 0..depth {
                s = format!("score(({s})) >= 1");
            }
            s
        }
        2 => {
            let mut s = "t".to_string();
            for _ in 0..depth {
                s = format!("score(not {s}) in {{1 2}}");
            }
            s
        }
        3 => format!("{}s{} == \"a\"", "lower(".repeat(depth), ")".repeat(depth)),
        4 => {
            let mut s = "n == 1".to_string();
            for i in 0..depth {
                s = if i % 2 == 0 { format!("score(({s} or t)) == 1") } else { format!("score((t and {s})) != 0") };
            }
            s
        }
        5 => {
            let mut s = "len(s) == 1".to_string();
            for _ in 0..depth {
                s = format!("score((score({s}) == 1 xor t)) == 1");
            }
            s
        }
        // nests that must be REJECTED (the fault sits at the bottom, a counted call beside it at
        // every level): an error must not be retried level by level either
        6 => {
            let mut s = "no.such.field".to_string();
            for _ in 0..depth {
                s = format!("pick(score(t) == 1, \"x\", {s})");
            }
            format!("{s} == \"x\"")
        }
        7 => {
            let mut s = "nosuchfn(1)".to_string();
            for _ in 0..depth {
                s = format!("pick(score(t) == 1, \"x\", {s})");
            }
            format!("{s} == \"x\"")
        }
        _ => {
            let mut s = "17".to_string();
            for _ in 0..depth {
                s = format!("pick(score(t) == 1, \"x\", {s})");
            }
            format!("{s} == \"x\"")
        }
    }
}

const GROWTH_SHAPES: usize = 9;

fn growth_case(ch: &mut Choices<'_>, st: &mut Stats) -> CaseResult {
    let shape = ch.draw(GROWTH_SHAPES);
    let value = ch.boolean();
    let scheme = growth_scheme();
    let mut counts = Vec::new();
    for depth in [4usize, 8, 16] {
        let mut text = growth_text(shape, depth);
        if value {
            // as a value expression: one more call around the filter
            text = format!("score({text})");
        }
        WORK.with(|w| w.set(0));
        st.eval();
        let ok = if value {
            catch(|| scheme.parse_value(&text).map(|_| ()).map_err(|e| e.to_string()))
        } else {
            catch(|| scheme.parse(&text).map(|_| ()).map_err(|e| e.to_string()))
        };
        match ok {
            Err(p) => return Err(Fail::new("parse-panic", p, json!({"input": text}))),
            Ok(Err(e)) if shape < 6 => return Err(Fail::new("growth:well-typed-nest-rejected", e, json!({"input": text, "depth": depth}))),
            Ok(Ok(())) if shape >= 6 => return Err(Fail::new("growth:ill-formed-nest-accepted", "a nest with an unknown identifier / ill-typed literal at the bottom was accepted".to_string(), json!({"input": text, "depth": depth}))),
            _ => {}
        }
        counts.push((depth, WORK.with(|w| w.get())));
    }
    let show = json!({
        "shape": growth_text(shape, 2), "entry_point": if value { "parse_value" } else { "parse" },
        "parameter_checks_at_depth_4_8_16": counts.iter().map(|c| c.1).collect::<Vec<_>>(),
    });
    let (c4, c16) = (counts[0].1.max(1), counts[2].1);
    // polynomial up to degree 3 gives at most a factor 64 between depth 4 and 16; 2^depth gives 4096
    if shape != 3 && c16 > 200 * c4 {
        return Err(Fail::new(
            "growth:work-doubles-with-every-nesting-level",
            format!("parameter checks while parsing grow from {c4} (depth 4) to {c16} (depth 16): exponential in the nesting depth, i.e. no termination in practice at the permitted depth 128"),
            show,
        ));
    }
    st.class(&format!("growth:shape-{shape}"));
    st.nontrivial(&(shape, value));
    st.sample("growth", || show.clone());
    Ok(())
}

pub fn subs() -> Vec<Sub> {
    vec![
        Sub { name: "unicode", f: Box::new(unicode_case) },
        Sub { name: "soup", f: Box::new(soup_case) },
        Sub { name: "strings", f: Box::new(strings_case) },
        Sub { name: "growth", f: Box::new(growth_case) },
        Sub { name: "mutated", f: Box::new(mutated_case) },
        Sub { name: "illtyped", f: Box::new(illtyped_case) },
        Sub { name: "matrix", f: Box::new(matrix_case) },
        Sub { name: "stress", f: Box::new(stress_case) },
    ]
}

pub fn run(run: &Run) {
    run.rule(
        "unicode: random strings over ASCII / language punctuation / whitespace incl. tab and CR / multi-byte and arbitrary code points; soup: 1-30 tokens from the language's alphabet (identifiers, operators and aliases, literal fragments, brackets, quote/raw-string/escape fragments, multi-byte chars); strings: a quoted / raw / unterminated literal assembled from letters, \\\" \\\\ \\xHH \\OOO escapes (valid and invalid, bytes >= 0x80), multi-byte characters and stray quotes, placed as map key, comparison / set / regex / wildcard right-hand side or function argument; mutated: valid filters printed from the full generator with 1-4 edits (insert/delete/duplicate/transpose/truncate/replace-with-multibyte/insert-token/drop-prefix); illtyped: filters from the typed generator after 0-3 type-breaking structural mutations (wrong index kind, field of another type, [*] moved, literal of another kind, operand kinds mixed, arguments dropped / duplicated), a third of them with character edits on top; matrix: every text of C04's typing matrices (accepted or rejected); growth: six shapes of well-typed call nests and three of nests that must be rejected (unknown field / unknown function / ill-typed literal at the bottom, a counted call beside it at every level) (comparison / parenthesised / negated / chained logical arguments, as filter and as value expression) parsed at depth 4, 8 and 16 over a scheme whose function definition counts its parameter checks - the count must not grow by more than a factor 200 from depth 4 to 16 (any cubic polynomial stays below 64, doubling per level gives 4096); stress: 1e5-operand chains and 1e5-deep nestings (and their truncations) parsed in a child process on an 8 MiB-stack thread; each input goes through Scheme::parse and Scheme::parse_value; \
         non-trivial = the input is accepted, or rejected with an error column > 1 (not at its first token); distinct by (entry point, input)",
    );
    run.assume("an abnormal child exit is a violation; a child that exceeds the watchdog is inconclusive");
    run.assume("8 MiB stack budget (Linux main-thread default) at the default nesting limit, in the harness profile (opt-level 2, debug assertions)");
    let subs = subs();
    run_regressions(run, &subs);
    run.enumerate("stress", stress_count() as u64, &|i| vec![i as u32], &*find_sub(&subs, "stress").unwrap().f);
    run.enumerate("growth", (GROWTH_SHAPES * 2) as u64, &|i| vec![(i / 2) as u32, (i % 2) as u32], &*find_sub(&subs, "growth").unwrap().f);
    let n = run.tier.pick(150_000, 3_000_000);
    run.random("unicode", n, 80, &*find_sub(&subs, "unicode").unwrap().f);
    run.random("soup", n, 80, &*find_sub(&subs, "soup").unwrap().f);
    run.random("strings", n, 60, &*find_sub(&subs, "strings").unwrap().f);
    let n = run.tier.pick(200_000, 4_000_000);
    run.random("mutated", n, 300, &*find_sub(&subs, "mutated").unwrap().f);
    run.random("illtyped", n, 300, &*find_sub(&subs, "illtyped").unwrap().f);
    run.enumerate("matrix", matrix_total(), &|i| vec![i as u32], &*find_sub(&subs, "matrix").unwrap().f);
    let _ = g::INT_POOL;
    if run.tier == Tier::Thorough {
        fuzz_campaign(run, "parse_total", 8, 300_000, 2048, Some("parse.dict"));
    }
}

//! C06 - every literal form denotes its documented value; malformed forms are rejected.

use crate::ast::{BytesForm, BytesLit, IntForm, IntLit, quote_bytes};
use crate::c04::matrix_recipe;
use crate::choices::Choices;
use crate::engine::*;
use crate::eval::ip_in_cidr;
use crate::genr as g;
use crate::model::*;
use crate::runner::*;
use serde_json::{Value, json};
use std::net::{IpAddr, Ipv4Addr, Ipv6Addr};
use std::sync::OnceLock;
use wirefilter::Scheme;

fn scheme() -> &'static Scheme {
    static S: OnceLock<Scheme> = OnceLock::new();
    S.get_or_init(|| matrix_recipe().build())
}

fn parse_json(text: &str) -> Result<Result<Value, String>, String> {
    catch(|| scheme().parse(text).map(|a| serde_json::to_value(&a).unwrap()).map_err(|e| e.to_string()))
}

fn parse_value_json(text: &str) -> Result<Result<Value, String>, String> {
    catch(|| scheme().parse_value(text).map(|a| serde_json::to_value(&a).unwrap()).map_err(|e| e.to_string()))
}

fn expect_json(text: &str, want: &Value, what: &str) -> CaseResult {
    let case = || json!({"filter": text, "literal": what});
    match parse_json(text) {
        Err(p) => Err(Fail::new("parse-panic", p, case())),
        Ok(Err(e)) => Err(Fail::new("valid-literal-rejected", format!("{what}: {text:?} was rejected:\n{e}"), case())),
        Ok(Ok(got)) => {
            if &got == want {
                Ok(())
            } else {
                Err(Fail::new("literal-value-mismatch", format!("{what}: {text:?}\n got {got}\nwant {want}"), case()))
            }
        }
    }
}

fn expect_reject(text: &str, what: &str) -> CaseResult {
    let case = || json!({"filter": text, "malformed": what});
    match parse_json(text) {
        Err(p) => Err(Fail::new("parse-panic", p, case())),
        Ok(Err(e)) => error_wellformed(text, &e).map(|_| ()).map_err(|m| Fail::new("malformed-parse-error", format!("{m}\n{e}"), case())),
        Ok(Ok(got)) => Err(Fail::new("malformed-literal-accepted", format!("{what}: {text:?} must be rejected but parsed to {got}"), case())),
    }
}

// ---------------------------------------------------------------------------
// Embedding positions: (prefix, suffix, json builder)

fn cmp(lhs: &str, op: &str, rhs: Value) -> Value {
    json!({"lhs": lhs, "op": op, "rhs": rhs})
}

fn t_leaf() -> Value {
    json!({"lhs": "t", "op": "IsTrue"})
}

/// Wrap a comparison `field OP lit` into one of the "next token" contexts.
fn embed(ch: &mut Choices<'_>, core_text: String, core_json: Value) -> (String, Value) {
    match ch.draw(6) {
        0 => (core_text, core_json),
        1 => (format!("{core_text} and t"), json!({"op": "And", "items": [core_json, t_leaf()]})),
        2 => (format!("({core_text})"), core_json),
        3 => (format!("t or {core_text}\n"), json!({"op": "Or", "items": [t_leaf(), core_json]})),
        4 => (format!("{core_text}||t"), json!({"op": "Or", "items": [core_json, t_leaf()]})),
        _ => (format!("not ({core_text}) xor t"), json!({"op": "Xor", "items": [{"op": "Not", "arg": core_json}, t_leaf()]})),
    }
}

// ---------------------------------------------------------------------------
// Integers

fn int_text(ch: &mut Choices<'_>, v: i64, form: usize) -> String {
    if v < 0 {
        return format!("{v}");
    }
    match form {
        0 => format!("{v}"),
        1 => format!("0x{v:x}"),
        2 => format!("0x{v:X}"),
        3 => format!("0{v:o}"),
        4 => format!("0x{}{v:x}", "0".repeat(ch.draw(4))),
        _ => format!("0{}{v:o}", "0".repeat(ch.draw(4))),
    }
}

fn int_case(ch: &mut Choices<'_>, st: &mut Stats) -> CaseResult {
    let v = if ch.chance(1, 2) { *ch.pick(g::INT_POOL) } else { g::gen_int(ch, &[]) };
    let form = ch.draw(6);
    let text = int_text(ch, v, form);
    let ops = [("==", "Equal"), ("<", "LessThan"), (">=", "GreaterThanEqual"), ("!=", "NotEqual"), ("&", "BitwiseAnd"), ("bitwise_and", "BitwiseAnd")];
    let pos = ch.draw(5);
    let (filter, want) = match pos {
        0 | 1 => {
            let (o, name) = *ch.pick(&ops);
            let sp = *ch.pick(&[" ", "", "  "]);
            let sp = if o.chars().all(|c| c.is_ascii_alphabetic() || c == '_') { " " } else { sp };
            embed(ch, format!("n {o}{sp}{text}"), cmp("n", name, json!(v)))
        }
        2 => {
            // in a set, alone, next to other items, as range endpoints
            let w = g::gen_int(ch, &[v]);
            let (lo, hi) = if v <= w { (v, w) } else { (w, v) };
            let wform = ch.draw(6);
            let lo_t = if lo == v { text.clone() } else { int_text(ch, lo, wform) };
            let hi_t = if hi == v && lo != v { text.clone() } else { int_text(ch, hi, wform) };
            match ch.draw(3) {
                0 => embed(ch, format!("n in {{{text}}}"), cmp("n", "OneOf", json!([{"start": v, "end": v}]))),
                1 => embed(ch, format!("n in {{7 {text} 0x10}}"), cmp("n", "OneOf", json!([{"start": 7, "end": 7}, {"start": v, "end": v}, {"start": 16, "end": 16}]))),
                _ => embed(ch, format!("n in {{ {lo_t}..{hi_t} }}"), cmp("n", "OneOf", json!([{"start": lo, "end": hi}]))),
            }
        }
        3 => {
            // function literal argument: decimal and octal are the permitted forms there
            let t = if v < 0 || form == 0 { format!("{v}") } else if form == 3 || form == 5 { format!("0{v:o}") } else { format!("{v}") };
            let core = json!({"lhs": {"name": "addi", "args": [{"kind": "IndexExpr", "value": "n"}, {"kind": "Literal", "value": v}]}, "op": "Equal", "rhs": 1});
            embed(ch, format!("addi(n, {t}) == 1"), core)
        }
        _ => {
            // optional literal parameter followed by another literal
            let t = if v < 0 || form != 3 { format!("{v}") } else { format!("0{v:o}") };
            let core = json!({"lhs": {"name": "opt2", "args": [{"kind": "IndexExpr", "value": "s"}, {"kind": "Literal", "value": v}, {"kind": "Literal", "value": "z"}]}, "op": "Equal", "rhs": "q"});
            embed(ch, format!("opt2(s,{t},\"z\") == \"q\""), core)
        }
    };
    st.eval();
    expect_json(&filter, &want, "integer")?;
    st.class(["int-dec", "int-hex", "int-HEX", "int-oct", "int-hex-leading-zeros", "int-oct-leading-zeros"][if v < 0 { 0 } else { form }]);
    if v < 0 || form != 0 || pos >= 2 {
        st.nontrivial(&filter);
    }
    st.sample("int", || json!({"filter": filter, "value": v}));
    Ok(())
}

// ---------------------------------------------------------------------------
// Byte strings

fn bytes_json(v: &[u8], hex_form: bool) -> Value {
    if hex_form { Value::Array(v.iter().map(|b| json!(b)).collect()) } else { crate::model::bytes_json(v) }
}

fn raw_text(body: &str, hashes: usize) -> String {
    let h = "#".repeat(hashes);
    format!("r{h}\"{body}\"{h}")
}

fn bytes_case(ch: &mut Choices<'_>, st: &mut Stats) -> CaseResult {
    let form = ch.draw(8);
    let (text, v, hex): (String, Vec<u8>, bool) = match form {
        0..=3 => {
            let v = g::gen_bytes(ch, &[]);
            (quote_bytes(&v, form as u8), v, false)
        }
        4 => {
            // per-byte escape choice
            let n = ch.draw(8);
            let mut v = Vec::new();
            let mut t = String::from("\"");
            for _ in 0..n {
                let b = ch.byte();
                v.push(b);
                match ch.draw(4) {
                    0 => t.push_str(&format!("\\x{b:02x}")),
                    1 => t.push_str(&format!("\\x{b:02X}")),
                    2 => t.push_str(&format!("\\{b:03o}")),
                    _ => {
                        if b < 0x80 && b != b'"' && b != b'\\' {
                            t.push(b as char)
                        } else {
                            t.push_str(&format!("\\x{b:02x}"))
                        }
                    }
                }
            }
            t.push('"');
            (t, v, false)
        }
        5 | 6 => {
            // raw strings: bodies with quotes followed by fewer hashes than the delimiter
            let hashes = *ch.pick(&[0usize, 1, 2, 3, 254, 255]);
            let n = ch.draw(8);
            let mut body = String::new();
            for _ in 0..n {
                match ch.draw(6) {
                    0 if hashes > 0 => {
                        body.push('"');
                        let k = ch.draw(hashes.min(4));
                        body.push_str(&"#".repeat(if hashes > 4 && ch.boolean() { hashes - 1 } else { k }));
                        body.push('x');
                    }
                    1 => body.push('\\'),
                    2 => body.push('#'),
                    3 => body.push(*ch.pick(&['é', '\n', '中', ' '])),
                    _ => body.push(*ch.pick(&['a', 'b', 'r', 'x'])),
                }
            }
            // the body must not end in a way that merges with the closing delimiter
            if hashes > 0 && body.ends_with('"') {
                body.push('.');
            }
            (raw_text(&body, hashes), body.into_bytes(), false)
        }
        _ => {
            let n = ch.range(2, 9);
            let v: Vec<u8> = (0..n).map(|_| ch.byte()).collect();
            let mut t = String::new();
            let upper = ch.boolean();
            for (i, b) in v.iter().enumerate() {
                if i > 0 {
                    t.push(*ch.pick(&[':', '-', '.']));
                }
                if upper { t.push_str(&format!("{b:02X}")) } else { t.push_str(&format!("{b:02x}")) }
            }
            (t, v, true)
        }
    };
    let bj = bytes_json(&v, hex);
    let pos = ch.draw(6);
    let ends_wordish = hex;
    let (filter, want) = match pos {
        0 => embed(ch, format!("s == {text}"), cmp("s", "Equal", bj)),
        1 => embed(ch, format!("s contains {text}"), cmp("s", "Contains", bj)),
        2 => {
            let sep = if ends_wordish { " " } else { *ch.pick(&["", " "]) };
            embed(ch, format!("s in {{{text}{sep}\"q\" {text}}}"), cmp("s", "OneOf", json!([bj, "q", bj])))
        }
        3 => embed(ch, format!("s >= {text}"), cmp("s", "GreaterThanEqual", bj)),
        4 if !hex => {
            let core = json!({"lhs": {"name": "pick", "args": [{"kind": "IndexExpr", "value": "t"}, {"kind": "Literal", "value": bj}, {"kind": "IndexExpr", "value": "s"}]}, "op": "NotEqual", "rhs": "q"});
            embed(ch, format!("pick(t, {text}, s) != \"q\""), core)
        }
        5 if !hex => {
            let core = json!({"lhs": {"name": "opt2", "args": [{"kind": "IndexExpr", "value": "s"}, {"kind": "Literal", "value": 5}, {"kind": "Literal", "value": bj}]}, "op": "NotEqual", "rhs": "q"});
            embed(ch, format!("opt2(s, 5, {text}) != \"q\""), core)
        }
        _ => embed(ch, format!("s != {text}"), cmp("s", "NotEqual", bj)),
    };
    st.eval();
    expect_json(&filter, &want, "byte string")?;
    st.class(["bytes-quoted-min", "bytes-quoted-hex", "bytes-quoted-oct", "bytes-quoted-raw-ctl", "bytes-quoted-mixed", "bytes-raw", "bytes-raw", "bytes-hex-pairs"][form]);
    st.nontrivial(&filter);
    st.sample(["q", "q", "q", "q", "mixed", "raw", "raw", "hex"][form], || json!({"filter": filter, "bytes": show_bytes(&v)}));
    Ok(())
}

/// All 256 byte values in each escape form (exhaustive). key = [byte, form]
fn escape_case(ch: &mut Choices<'_>, st: &mut Stats) -> CaseResult {
    let b = ch.draw(256) as u8;
    let form = ch.draw(6);
    let lit = match form {
        0 => format!("\"\\x{b:02x}\""),
        1 => format!("\"\\x{b:02X}\""),
        2 => format!("\"\\{b:03o}\""),
        3 => format!("\"a\\x{b:02x}b\""),
        4 => format!("\"\\{b:03o}7\""),
        _ => {
            if b < 0x80 && b != b'"' && b != b'\\' {
                format!("\"{}\"", b as char)
            } else if b == b'"' {
                "\"\\\"\"".to_string()
            } else if b == b'\\' {
                "\"\\\\\"".to_string()
            } else {
                return Ok(());
            }
        }
    };
    let v: Vec<u8> = match form {
        3 => vec![b'a', b, b'b'],
        4 => vec![b, b'7'],
        _ => vec![b],
    };
    st.eval();
    let filter = format!("s == {lit}");
    expect_json(&filter, &cmp("s", "Equal", bytes_json(&v, false)), "escaped byte")?;
    // as a map key only when the result is UTF-8
    if let Ok(k) = std::str::from_utf8(&v) {
        let f2 = format!("map_n[{lit}] == 1");
        expect_json(&f2, &json!({"lhs": ["map_n", {"kind": "MapKey", "value": k}], "op": "Equal", "rhs": 1}), "escaped map key")?;
    } else {
        expect_reject(&format!("map_n[{lit}] == 1"), "non-UTF-8 map key")?;
    }
    st.class("escape-form");
    st.nontrivial(&(b, form));
    Ok(())
}

// ---------------------------------------------------------------------------
// IP addresses

fn ip_text(ch: &mut Choices<'_>, ip: &IpAddr) -> String {
    match ip {
        IpAddr::V4(a) => a.to_string(),
        IpAddr::V6(a) => match ch.draw(4) {
            0 => a.to_string(),
            1 => a.to_string().to_uppercase(),
            2 => {
                // full form, no compression
                let s = a.segments();
                s.iter().map(|x| format!("{x:x}")).collect::<Vec<_>>().join(":")
            }
            _ => {
                let s = a.segments();
                s.iter().map(|x| format!("{x:04X}")).collect::<Vec<_>>().join(":")
            }
        },
    }
}

fn json_ip_eq(v: &Value, ip: &IpAddr) -> bool {
    v.as_str().and_then(|s| s.parse::<IpAddr>().ok()).map(|x| x == *ip).unwrap_or(false)
}

fn mask_ip(ip: &IpAddr, n: u8) -> IpAddr {
    match ip {
        IpAddr::V4(a) => {
            let m: u32 = if n == 0 { 0 } else { u32::MAX << (32 - n as u32) };
            IpAddr::V4(Ipv4Addr::from(u32::from(*a) & m))
        }
        IpAddr::V6(a) => {
            let m: u128 = if n == 0 { 0 } else { u128::MAX << (128 - n as u32) };
            IpAddr::V6(Ipv6Addr::from(u128::from(*a) & m))
        }
    }
}

fn last_ip(ip: &IpAddr, n: u8) -> IpAddr {
    match ip {
        IpAddr::V4(a) => {
            let m: u32 = if n == 0 { 0 } else { u32::MAX << (32 - n as u32) };
            IpAddr::V4(Ipv4Addr::from(u32::from(*a) | !m))
        }
        IpAddr::V6(a) => {
            let m: u128 = if n == 0 { 0 } else { u128::MAX << (128 - n as u32) };
            IpAddr::V6(Ipv6Addr::from(u128::from(*a) | !m))
        }
    }
}

fn succ_ip(ip: &IpAddr, d: i64) -> Option<IpAddr> {
    match ip {
        IpAddr::V4(a) => (u32::from(*a) as i64 + d).try_into().ok().map(|x: u32| IpAddr::V4(Ipv4Addr::from(x))),
        IpAddr::V6(a) => {
            let x = u128::from(*a);
            if d >= 0 { x.checked_add(d as u128) } else { x.checked_sub((-d) as u128) }.map(|x| IpAddr::V6(Ipv6Addr::from(x)))
        }
    }
}

/// Execute `ip in {item}` on probes and compare with the model's containment.
fn probe_set(filter: &str, probes: &[(IpAddr, bool)], what: &str) -> CaseResult {
    let r = matrix_recipe();
    let s = scheme();
    let case = || json!({"filter": filter, "literal": what});
    let ast = catch(|| s.parse(filter).map_err(|e| e.to_string())).map_err(|p| Fail::new("parse-panic", p, case()))?;
    let ast = ast.map_err(|e| Fail::new("valid-literal-rejected", format!("{what}: {filter:?} rejected:\n{e}"), case()))?;
    let f = catch(|| ast.compile()).map_err(|p| Fail::new("compile-panic", p, case()))?;
    for (p, want) in probes {
        let mut ctx = MCtx { vals: vec![None; r.fields.len()] };
        let (i, _) = r.field("ip").unwrap();
        ctx.vals[i] = Some(MVal::Ip(*p));
        let ec = r.make_ctx(s, &ctx, &Default::default());
        let got = catch(|| f.execute(&ec)).map_err(|p| Fail::new("execute-panic", p, case()))?;
        if got != Ok(*want) {
            return Err(Fail::new("literal-value-mismatch", format!("{what}: {filter:?} on ip = {p}: engine {got:?}, documented value gives {want}"), case()));
        }
    }
    Ok(())
}

fn ip_case(ch: &mut Choices<'_>, st: &mut Stats) -> CaseResult {
    let ip = g::gen_ip(ch, &[]);
    let text = ip_text(ch, &ip);
    st.eval();
    match ch.draw(5) {
        0 => {
            let (o, name) = *ch.pick(&[("==", "Equal"), ("!=", "NotEqual"), ("<=", "LessThanEqual"), ("gt", "GreaterThan")]);
            let filter = format!("ip {o} {text}");
            let case = || json!({"filter": filter});
            match parse_json(&filter) {
                Err(p) => return Err(Fail::new("parse-panic", p, case())),
                Ok(Err(e)) => return Err(Fail::new("valid-literal-rejected", format!("address {text:?} rejected:\n{e}"), case())),
                Ok(Ok(got)) => {
                    if got["op"] != name || got["lhs"] != "ip" || !json_ip_eq(&got["rhs"], &ip) {
                        return Err(Fail::new("literal-value-mismatch", format!("{filter:?} parsed to {got}, expected address {ip}"), case()));
                    }
                }
            }
            st.class("ip-address");
        }
        1 => {
            // function literal argument; an address whose leading run of identifier characters is a name of the
            // scheme (`aab:0::1` where `aab` is a field) is read as that identifier - the argument grammar is
            // documented as ambiguous there, so the form is not judged
            let run: String = text.chars().take_while(|c| c.is_ascii_alphanumeric() || *c == '_' || *c == '.').collect();
            let run = run.trim_end_matches('.');
            if !run.is_empty() && (scheme().get_field(run).is_ok() || scheme().get_function(run).is_ok()) {
                st.excluded();
                st.class("ip-argument-reads-as-identifier");
                return Ok(());
            }
            let filter = format!("ipid({text}) == 1.2.3.4");
            let case = || json!({"filter": filter});
            match parse_json(&filter) {
                Err(p) => return Err(Fail::new("parse-panic", p, case())),
                Ok(Err(e)) => return Err(Fail::new("valid-literal-rejected", format!("address argument {text:?} rejected:\n{e}"), case())),
                Ok(Ok(got)) => {
                    let a = &got["lhs"]["args"][0];
                    if a["kind"] != "Literal" || !json_ip_eq(&a["value"], &ip) {
                        return Err(Fail::new("literal-value-mismatch", format!("{filter:?} parsed to {got}, expected literal {ip}"), case()));
                    }
                }
            }
            st.class("ip-argument");
        }
        2 => {
            let filter = format!("ip in {{{text}}}");
            let mut probes = vec![(ip, true)];
            for d in [-1i64, 1] {
                if let Some(p) = succ_ip(&ip, d) {
                    probes.push((p, false));
                }
            }
            probe_set(&filter, &probes, "address in a set")?;
            st.class("ip-set-item");
        }
        3 => {
            // CIDR: every prefix length is reachable
            let full = if ip.is_ipv4() { 32 } else { 128 };
            let n = ch.draw(full + 1) as u8;
            let net = mask_ip(&ip, n);
            let nt = ip_text(ch, &net);
            let filter = format!("ip in {{{nt}/{n}}}");
            let last = last_ip(&net, n);
            let mut probes = vec![(net, true), (last, true), (ip, true)];
            if let Some(p) = succ_ip(&net, -1) {
                probes.push((p, false));
            }
            if let Some(p) = succ_ip(&last, 1) {
                probes.push((p, false));
            }
            let other = if ip.is_ipv4() { v6(1) } else { v4(1, 2, 3, 4) };
            probes.push((other, false));
            debug_assert!(ip_in_cidr(&ip, &net, n));
            probe_set(&filter, &probes, "CIDR")?;
            st.class(if ip.is_ipv4() { "cidr-v4" } else { "cidr-v6" });
            st.class(&format!("cidr-prefix-{}", n / 16 * 16));
        }
        _ => {
            // explicit range
            let d = ch.draw(1000) as i64;
            let Some(hi) = succ_ip(&ip, d) else { return Ok(()) };
            let ht = ip_text(ch, &hi);
            let filter = format!("ip in {{{text}..{ht}}}");
            let mut probes = vec![(ip, true), (hi, true)];
            if let Some(p) = succ_ip(&ip, -1) {
                probes.push((p, false));
            }
            if let Some(p) = succ_ip(&hi, 1) {
                probes.push((p, false));
            }
            probe_set(&filter, &probes, "explicit range")?;
            st.class("ip-range");
        }
    }
    st.nontrivial(&(&text, ch.consumed()));
    st.sample("ip", || json!({"literal": text}));
    Ok(())
}

/// Every prefix length for a v4 and a v6 base address (exhaustive). key = [family, prefix]
fn cidr_case(ch: &mut Choices<'_>, st: &mut Stats) -> CaseResult {
    let fam = ch.draw(2);
    let n = ch.draw(if fam == 0 { 33 } else { 129 }) as u8;
    let base = if fam == 0 { v4(0xa5, 0x5a, 0xc3, 0x3c) } else { v6(0xa55a_c33c_0ff0_f00f_1234_5678_9abc_def1) };
    let net = mask_ip(&base, n);
    let last = last_ip(&net, n);
    let filter = format!("ip in {{{net}/{n}}}");
    let mut probes = vec![(net, true), (last, true), (base, true)];
    if let Some(p) = succ_ip(&net, -1) {
        probes.push((p, false));
    }
    if let Some(p) = succ_ip(&last, 1) {
        probes.push((p, false));
    }
    st.eval();
    probe_set(&filter, &probes, "CIDR (every prefix length)")?;
    // host bits set must be rejected (when there are host bits)
    let full = if fam == 0 { 32 } else { 128 };
    if n < full && base != net {
        expect_reject(&format!("ip in {{{base}/{n}}}"), "CIDR with host bits set")?;
    }
    st.class("cidr-every-prefix");
    st.nontrivial(&(fam, n));
    Ok(())
}

// ---------------------------------------------------------------------------
// Indexes and keys

fn index_case(ch: &mut Choices<'_>, st: &mut Stats) -> CaseResult {
    let vals: [u64; 10] = [0, 1, 2, 7, 0x7fff_fffe, 0x7fff_ffff, 0x8000_0000, 0x8000_0001, 0xffff_fffe, 0xffff_ffff];
    let v = *ch.pick(&vals);
    let form = ch.draw(4);
    let t = match form {
        0 => format!("{v}"),
        1 => format!("0x{v:x}"),
        2 => format!("0x{v:X}"),
        _ => format!("0{v:o}"),
    };
    let sp = *ch.pick(&["", " "]);
    st.eval();
    let filter = format!("arr_n[{sp}{t}{sp}] == 1");
    expect_json(&filter, &json!({"lhs": ["arr_n", {"kind": "ArrayIndex", "value": v}], "op": "Equal", "rhs": 1}), "array index")?;
    let vt = format!("aan[{t}][{sp}0{sp}]");
    match parse_value_json(&vt) {
        Ok(Ok(got)) if got == json!(["aan", {"kind": "ArrayIndex", "value": v}, {"kind": "ArrayIndex", "value": 0}]) => {}
        other => return Err(Fail::new("literal-value-mismatch", format!("value expression {vt:?}: {other:?}"), json!({"value_expr": vt}))),
    }
    // keys
    let k = g::KEY_POOL[ch.draw(g::KEY_POOL.len())];
    let kt = quote_bytes(k.as_bytes(), ch.draw(4) as u8);
    let f2 = format!("map_n[{sp}{kt}{sp}] == 1");
    expect_json(&f2, &json!({"lhs": ["map_n", {"kind": "MapKey", "value": k}], "op": "Equal", "rhs": 1}), "map key")?;
    st.class("index-and-key");
    st.nontrivial(&(&filter, &f2));
    Ok(())
}

// ---------------------------------------------------------------------------
// Malformed literals (curated classes; each must be rejected in its position)

fn malformed_list() -> &'static Vec<(String, &'static str)> {
    static L: OnceLock<Vec<(String, &'static str)>> = OnceLock::new();
    L.get_or_init(|| {
        let mut v: Vec<(String, &'static str)> = Vec::new();
        let mut int = |t: &str, what: &'static str| {
            v.push((format!("n == {t}"), what));
            v.push((format!("n in {{{t}}}"), what));
            v.push((format!("n in {{1 {t} 3}}"), what));
            v.push((format!("addi(n, {t}) == 1"), what));
        };
        int("9223372036854775808", "decimal above i64::MAX");
        int("-9223372036854775809", "decimal below i64::MIN");
        int("99999999999999999999999", "decimal far out of range");
        int("0x8000000000000000", "hex above i64::MAX");
        int("0xffffffffffffffffff", "hex far out of range");
        int("01000000000000000000000", "octal above i64::MAX");
        int("08", "octal with digit 8");
        int("019", "octal with digit 9");
        int("0x", "hex prefix without digits");
        int("0xg", "hex with a non-hex digit");
        int("1e5", "exponent notation");
        int("12ab", "decimal with letters");
        int("--5", "double minus");
        int("-", "lone minus");
        for t in ["5..1", "1..", "0x10..0xf", "-1..-2", "9223372036854775807..9223372036854775808"] {
            v.push((format!("n in {{{t}}}"), "reversed / incomplete / overflowing integer range"));
        }
        let mut bytes = |t: &str, what: &'static str| {
            v.push((format!("s == {t}"), what));
            v.push((format!("s contains {t}"), what));
            v.push((format!("s in {{{t}}}"), what));
            v.push((format!("s in {{\"a\" {t}}}"), what));
            v.push((format!("pick(t, {t}, s) == \"a\""), what));
        };
        bytes("\"\\x\"", "\\x without digits");
        bytes("\"\\x4\"", "\\x with one digit");
        bytes("\"\\xg1\"", "\\x with a non-hex digit");
        bytes("\"\\x1g\"", "\\x with a non-hex second digit");
        bytes("\"\\x+1\"", "\\x with a sign instead of a digit");
        bytes("\"\\x-1\"", "\\x with a minus sign");
        bytes("\"a\\x +\"", "\\x followed by a space");
        bytes("\"\\8\"", "\\8 is not an octal escape");
        bytes("\"\\9ab\"", "\\9 is not an octal escape");
        bytes("\"\\1\"", "one-digit octal escape");
        bytes("\"\\12\"", "two-digit octal escape");
        bytes("\"\\12x\"", "two-digit octal escape followed by a letter");
        bytes("\"\\400\"", "octal escape above 255");
        bytes("\"\\777\"", "octal escape above 255");
        bytes("\"\\1+2\"", "octal escape with a sign");
        bytes("\"\\a\"", "unknown escape \\a");
        bytes("\"\\n\"", "unknown escape \\n");
        bytes("\"\\u0041\"", "unknown escape \\u");
        bytes("\"\\é\"", "escape of a multi-byte character");
        bytes("\"abc", "unterminated quoted string");
        bytes("\"abc\\\"", "quoted string ending in an escaped quote");
        bytes("\"", "lone quote");
        bytes("r\"abc", "unterminated raw string");
        bytes("r#\"abc\"", "raw string closed with fewer hashes");
        bytes("r##\"abc\"#", "raw string closed with fewer hashes");
        bytes("r#abc#", "raw string without quotes");
        bytes("r", "lone r");
        let h256 = "#".repeat(256);
        v.push((format!("s == r{h256}\"a\"{h256}"), "raw string with 256 hashes"));
        let h300 = "#".repeat(300);
        v.push((format!("s contains r{h300}\"a\"{h300}"), "raw string with 300 hashes"));
        for (t, what) in [
            ("ab", "single hex pair"),
            ("ab:", "trailing separator"),
            ("ab:cd:", "trailing separator"),
            ("ab:cd-", "trailing separator"),
            (":ab:cd", "leading separator"),
            ("+1:02", "signed hex pair"),
            ("01:+2", "signed hex pair"),
            ("a:bc", "one-digit hex pair"),
            ("ab:c", "one-digit hex pair"),
            ("abc:de", "three-digit hex pair"),
            ("ab;cd", "invalid separator"),
            ("ab::cd", "doubled separator"),
            ("ag:cd", "non-hex digit"),
        ] {
            v.push((format!("s == {t}"), what));
            v.push((format!("s in {{{t}}}"), what));
        }
        for (t, what) in [
            ("10.0.0.9..10.0.0.1", "reversed IPv4 range"),
            ("::2..::1", "reversed IPv6 range"),
            ("10.0.0.1..::1", "mixed-family range"),
            ("::1..10.0.0.1", "mixed-family range"),
            ("10.1.2.3/8", "IPv4 CIDR with host bits set"),
            ("10.0.0.1/31", "IPv4 CIDR with host bits set"),
            ("2001:db8::1/32", "IPv6 CIDR with host bits set"),
            ("::1/127", "IPv6 CIDR with host bits set"),
            ("10.0.0.0/33", "IPv4 prefix length 33"),
            ("::/129", "IPv6 prefix length 129"),
            ("10.0.0.0/", "CIDR without a length"),
            ("10.0.0.0/x", "CIDR with a non-numeric length"),
            ("10.0.0.0/-1", "CIDR with a negative length"),
            ("1.2.3.4.5", "five-octet address"),
            ("256.1.1.1", "octet above 255"),
            ("1.2.3.-4", "negative octet"),
            (":::1", "triple colon"),
            ("1::2::3", "two compressions"),
            ("12345::1", "group above ffff"),
            ("::g", "non-hex group"),
            ("1:2:3:4:5:6:7:8:9", "nine groups"),
            ("10.0.0.1..", "range without an end"),
            ("..10.0.0.1", "range without a start"),
        ] {
            v.push((format!("ip in {{{t}}}"), what));
            v.push((format!("ip in {{10.0.0.1 {t}}}"), what));
        }
        for (t, what) in [
            ("10.0.0.0/8", "CIDR where an address is required"),
            ("10.0.0.1..10.0.0.2", "range where an address is required"),
            ("1.2.3", "three-octet address"),
            ("256.1.1.1", "octet above 255"),
            ("::g", "non-hex group"),
            ("1:2:3:4:5:6:7:8:9", "nine groups"),
        ] {
            v.push((format!("ip == {t}"), what));
            v.push((format!("ipid({t}) == 1.2.3.4"), what));
        }
        for (t, what) in [
            ("-1", "negative index"),
            ("4294967296", "index 2^32"),
            ("0x100000000", "index 2^32 in hex"),
            ("040000000000", "index 2^32 in octal"),
            ("99999999999999999999", "index far out of range"),
            ("1.5", "fractional index"),
            ("1..2", "range as index"),
            ("", "empty index"),
            ("\"k\"", "string key on an array"),
        ] {
            v.push((format!("arr_n[{t}] == 1"), what));
        }
        for (t, what) in [
            ("\"\\xff\"", "non-UTF-8 key"),
            ("\"\\xc3\"", "truncated UTF-8 key"),
            ("\"a\\377\"", "non-UTF-8 key (octal escape)"),
            ("r\"k\"", "raw-string key"),
            ("6b:6b", "hex-pair key"),
            ("k", "unquoted key"),
            ("0", "integer key on a map"),
            ("\"k", "unterminated key"),
        ] {
            v.push((format!("map_n[{t}] == 1"), what));
        }
        v
    })
}

fn malformed_case(ch: &mut Choices<'_>, st: &mut Stats) -> CaseResult {
    let l = malformed_list();
    let (text, what) = &l[ch.draw(l.len())];
    st.eval();
    expect_reject(text, what)?;
    st.class("malformed-rejected");
    st.nontrivial(text);
    if ch.consumed() > 0 && text.len() % 5 == 0 {
        st.sample("malformed", || json!({"filter": text, "why": what}));
    }
    Ok(())
}

// ---------------------------------------------------------------------------
// Reference decoder for quoted strings: arbitrary bodies over a hostile
// alphabet, the engine must accept exactly what the documented escapes allow.

fn decode_quoted(body: &str) -> Option<(Vec<u8>, usize)> {
    // returns decoded bytes and the number of chars consumed including the closing quote
    let chars: Vec<char> = body.chars().collect();
    let mut out = Vec::new();
    let mut i = 0;
    loop {
        let c = *chars.get(i)?;
        i += 1;
        match c {
            '"' => return Some((out, i)),
            '\\' => {
                let e = *chars.get(i)?;
                i += 1;
                match e {
                    '"' => out.push(b'"'),
                    '\\' => out.push(b'\\'),
                    'x' => {
                        let h = chars.get(i)?.to_digit(16)?;
                        let l = chars.get(i + 1)?.to_digit(16)?;
                        i += 2;
                        out.push((h * 16 + l) as u8);
                    }
                    '0'..='7' => {
                        let a = e.to_digit(8)?;
                        let b = chars.get(i)?.to_digit(8)?;
                        let c = chars.get(i + 1)?.to_digit(8)?;
                        i += 2;
                        let v = a * 64 + b * 8 + c;
                        if v > 255 {
                            return None;
                        }
                        out.push(v as u8);
                    }
                    _ => return None,
                }
            }
            c => {
                let mut buf = [0u8; 4];
                out.extend_from_slice(c.encode_utf8(&mut buf).as_bytes());
            }
        }
    }
}

fn hostile_quoted_case(ch: &mut Choices<'_>, st: &mut Stats) -> CaseResult {
    let n = ch.draw(8);
    let alphabet: Vec<char> = "a\"\\\\xxX0123789fFgG+- é\n#r".chars().collect();
    let tokens = ["a", "\\\"", "\\\\", "\\x41", "\\xfF", "\\101", "\\377", "é", " ", "\\x4", "\\x", "\\10", "\\8", "\\400", "\\x+1", "+", "\\"];
    let mut body = String::new();
    for _ in 0..n {
        match ch.weighted(&[6, 2]) {
            0 => body.push_str(tokens[ch.weighted(&[3, 3, 3, 3, 2, 3, 2, 2, 2, 1, 1, 1, 1, 1, 1, 1, 1])]),
            _ => body.push(*ch.pick(&alphabet)),
        }
    }
    if ch.chance(4, 5) {
        body.push('"');
        if ch.chance(1, 8) {
            body.push_str(*ch.pick(&[" ", "\n", "x", "\"", " a"]));
        }
    }
    let text = format!("s == \"{body}");
    st.eval();
    // the parser trims surrounding whitespace of the whole filter
    let want = match decode_quoted(&body) {
        Some((v, used)) if body.chars().skip(used).all(|c| c == ' ' || c == '\n') => Some(v),
        _ => None,
    };
    let case = || json!({"filter": text, "decoded_by_reference": want.as_ref().map(|v| show_bytes(v))});
    match (parse_json(&text), &want) {
        (Err(p), _) => return Err(Fail::new("parse-panic", p, case())),
        (Ok(Ok(got)), Some(v)) => {
            if got != cmp("s", "Equal", bytes_json(v, false)) {
                return Err(Fail::new("literal-value-mismatch", format!("{text:?}: got {got}, reference decodes {}", show_bytes(v)), case()));
            }
            st.class("hostile-quoted-accepted");
        }
        (Ok(Err(_)), None) => st.class("hostile-quoted-rejected"),
        (Ok(Ok(got)), None) => {
            return Err(Fail::new("malformed-literal-accepted", format!("{text:?} is not a well-formed quoted literal followed by nothing, but parsed to {got}"), case()));
        }
        (Ok(Err(e)), Some(v)) => {
            return Err(Fail::new("valid-literal-rejected", format!("{text:?} denotes {} but was rejected:\n{e}", show_bytes(v)), case()));
        }
    }
    st.nontrivial(&text);
    Ok(())
}

/// Hostile hex-pair texts against a reference decoder.
fn hostile_hex_case(ch: &mut Choices<'_>, st: &mut Stats) -> CaseResult {
    let n = ch.range(1, 6);
    let pairs = ["ab", "0F", "00", "ff", "7e", "1", "+1", "g0", "abc", "a", ""];
    let seps = [":", "-", ".", "::", "", ";", " "];
    let mut body = String::new();
    for i in 0..n {
        if i > 0 {
            body.push_str(seps[ch.weighted(&[5, 4, 4, 1, 1, 1, 1])]);
        }
        body.push_str(pairs[ch.weighted(&[5, 5, 4, 4, 4, 1, 1, 1, 1, 1, 1])]);
    }
    if ch.chance(1, 10) {
        body.push_str(seps[ch.draw(3)]);
    }
    let body = body.trim().to_string();
    if body.is_empty() || body.starts_with('"') || body.starts_with('r') {
        return Ok(());
    }
    let text = format!("s == {body}");
    // reference: HH (sep HH)+ and nothing else
    let chars: Vec<char> = body.chars().collect();
    let want: Option<Vec<u8>> = (|| {
        let mut out = Vec::new();
        let mut i = 0;
        loop {
            let h = chars.get(i)?.to_digit(16)?;
            let l = chars.get(i + 1)?.to_digit(16)?;
            out.push((h * 16 + l) as u8);
            i += 2;
            if i == chars.len() {
                break;
            }
            if !matches!(chars[i], ':' | '-' | '.') {
                return None;
            }
            i += 1;
        }
        if out.len() >= 2 { Some(out) } else { None }
    })();
    st.eval();
    let case = || json!({"filter": text});
    match (parse_json(&text), &want) {
        (Err(p), _) => return Err(Fail::new("parse-panic", p, case())),
        (Ok(Ok(got)), Some(v)) => {
            if got != cmp("s", "Equal", bytes_json(v, true)) {
                return Err(Fail::new("literal-value-mismatch", format!("{text:?}: got {got}"), case()));
            }
            st.class("hostile-hex-accepted");
        }
        (Ok(Err(_)), None) => st.class("hostile-hex-rejected"),
        (Ok(Ok(got)), None) => {
            return Err(Fail::new("malformed-literal-accepted", format!("{text:?} is not a separator-delimited list of hex pairs, but parsed to {got}"), case()));
        }
        (Ok(Err(e)), Some(_)) => return Err(Fail::new("valid-literal-rejected", format!("{text:?} rejected:\n{e}"), case())),
    }
    st.nontrivial(&text);
    Ok(())
}

/// Every short / overflowing escape (exhaustive): `\D`, `\DD`, `\DDD` above 255, `\x`, `\xH`, `\xHG`.
fn short_escape_texts() -> &'static Vec<String> {
    static L: OnceLock<Vec<String>> = OnceLock::new();
    L.get_or_init(|| {
        let mut v = Vec::new();
        let digits = "0123456789";
        for a in digits.chars() {
            v.push(format!("\\{a}"));
            for b in digits.chars() {
                v.push(format!("\\{a}{b}"));
                for c in digits.chars() {
                    let oct = a < '8' && b < '8' && c < '8';
                    let val = if oct { (a as u32 - 48) * 64 + (b as u32 - 48) * 8 + (c as u32 - 48) } else { 999 };
                    if val > 255 {
                        v.push(format!("\\{a}{b}{c}"));
                    }
                }
            }
        }
        v.push("\\x".to_string());
        for h in "0123456789abcdefABCDEFgxG+- ".chars() {
            v.push(format!("\\x{h}"));
            for g in "gG+-xz ".chars() {
                v.push(format!("\\x{h}{g}"));
                v.push(format!("\\x{g}{h}"));
            }
        }
        v
    })
}

fn short_escape_case(ch: &mut Choices<'_>, st: &mut Stats) -> CaseResult {
    let l = short_escape_texts();
    let e = &l[ch.draw(l.len())];
    st.eval();
    // the escape followed by the closing quote, by a letter, and by nothing
    for tail in ["\"", "z\"", " \"", ""] {
        let body = format!("{e}{tail}");
        let text = format!("s == \"{body}");
        // judged by the reference decoder (a two-digit octal followed by an octal digit would be a valid 3-digit one - not generated here)
        let want = match decode_quoted(&body) {
            Some((v, used)) if body.chars().skip(used).all(|c| c == ' ') => Some(v),
            _ => None,
        };
        match (parse_json(&text), want) {
            (Err(p), _) => return Err(Fail::new("parse-panic", p, json!({"filter": text}))),
            (Ok(Ok(got)), None) => {
                return Err(Fail::new("malformed-literal-accepted", format!("{text:?} contains a malformed escape but parsed to {got}"), json!({"filter": text})));
            }
            (Ok(Err(e2)), Some(v)) => {
                return Err(Fail::new("valid-literal-rejected", format!("{text:?} denotes {} but was rejected:\n{e2}", show_bytes(&v)), json!({"filter": text})));
            }
            (Ok(Ok(got)), Some(v)) => {
                if got != cmp("s", "Equal", bytes_json(&v, false)) {
                    return Err(Fail::new("literal-value-mismatch", format!("{text:?}: got {got}"), json!({"filter": text})));
                }
            }
            (Ok(Err(_)), None) => {}
        }
    }
    st.class("short-or-overflowing-escape");
    st.nontrivial(e);
    Ok(())
}

/// Every character (U+0000..U+017F and a few beyond) in every digit position of
/// the escapes and of hex pairs (exhaustive): only hex / octal digits are digits.
const DIGIT_ALPHABET_EXTRA: [char; 6] = ['\u{2028}', '\u{ff10}', '\u{ff21}', '\u{0660}', '\u{1f600}', '\u{fffd}'];
const DIGIT_TEMPLATES: usize = 13;

fn digit_alphabet_total() -> u64 {
    ((0x180 + DIGIT_ALPHABET_EXTRA.len()) * DIGIT_TEMPLATES) as u64
}

fn digit_alphabet_case(ch: &mut Choices<'_>, st: &mut Stats) -> CaseResult {
    let ci = ch.draw(0x180 + DIGIT_ALPHABET_EXTRA.len());
    let c = if ci < 0x180 { char::from_u32(ci as u32).unwrap() } else { DIGIT_ALPHABET_EXTRA[ci - 0x180] };
    let t = ch.draw(DIGIT_TEMPLATES);
    st.eval();
    let case = |text: &str| json!({"filter": text, "character": format!("U+{:04X}", c as u32), "template": t});
    if t < 6 {
        // quoted escapes, judged by the reference decoder
        let body = match t {
            0 => format!("\\x{c}4\""),
            1 => format!("\\x4{c}\""),
            2 => format!("\\{c}01\""),
            3 => format!("\\1{c}1\""),
            4 => format!("\\10{c}\""),
            _ => format!("a\\x{c}{c}b\""),
        };
        let text = format!("s == \"{body}");
        let want = match decode_quoted(&body) {
            Some((v, used)) if body.chars().skip(used).all(|c| c == ' ') => Some(v),
            _ => None,
        };
        match (parse_json(&text), want) {
            (Err(p), _) => return Err(Fail::new("parse-panic", p, case(&text))),
            (Ok(Ok(got)), None) => {
                return Err(Fail::new("malformed-literal-accepted", format!("{text:?}: U+{:04X} is not a digit of this escape, but the literal parsed to {got}", c as u32), case(&text)));
            }
            (Ok(Err(e)), Some(v)) => {
                return Err(Fail::new("valid-literal-rejected", format!("{text:?} denotes {} but was rejected:\n{e}", show_bytes(&v)), case(&text)));
            }
            (Ok(Ok(got)), Some(v)) => {
                if got != cmp("s", "Equal", bytes_json(&v, false)) {
                    return Err(Fail::new("literal-value-mismatch", format!("{text:?}: got {got}, reference decodes {}", show_bytes(&v)), case(&text)));
                }
                st.class("digit-alphabet:accepted");
            }
            (Ok(Err(_)), None) => st.class("digit-alphabet:rejected"),
        }
    } else if t >= 10 {
        // integer literals: the character right after the radix prefix / between digits
        let (text, want): (String, Option<i64>) = match t {
            10 => (format!("n == 0x{c}1"), c.to_digit(16).map(|d| (d * 16 + 1) as i64)),
            11 => (format!("n == 0{c}7"), if c == 'x' || c == 'X' { return Ok(()) } else { c.to_digit(8).map(|d| (d * 8 + 7) as i64) }),
            _ => (format!("n == 1{c}7"), c.to_digit(10).map(|d| (100 + d * 10 + 7) as i64)),
        };
        match (parse_json(&text), want) {
            (Err(p), _) => return Err(Fail::new("parse-panic", p, case(&text))),
            (Ok(Ok(got)), None) => {
                return Err(Fail::new("malformed-literal-accepted", format!("{text:?}: U+{:04X} is not a digit of this integer literal, but it parsed to {got}", c as u32), case(&text)));
            }
            (Ok(Err(e)), Some(v)) => return Err(Fail::new("valid-literal-rejected", format!("{text:?} denotes {v} but was rejected:\n{e}"), case(&text))),
            (Ok(Ok(got)), Some(v)) => {
                if got != cmp("n", "Equal", json!(v)) {
                    return Err(Fail::new("literal-value-mismatch", format!("{text:?}: got {got}, expected {v}"), case(&text)));
                }
                st.class("digit-alphabet:accepted");
            }
            (Ok(Err(_)), None) => st.class("digit-alphabet:rejected"),
        }
    } else {
        // hex pairs: a non-first digit position holds the character
        let text = match t {
            6 => format!("s == 4{c}:41"),
            7 => format!("s == 41:{c}4"),
            8 => format!("s == 41:4{c}"),
            _ => format!("s == 41:42:{c}{c}"),
        };
        let hex = c.is_ascii_hexdigit();
        match parse_json(&text) {
            Err(p) => return Err(Fail::new("parse-panic", p, case(&text))),
            Ok(Ok(got)) if !hex && !c.is_whitespace() => {
                // a blank at the very end is trimmed with the filter text (judged below)
                return Err(Fail::new("malformed-literal-accepted", format!("{text:?}: U+{:04X} is not a hex digit, but the literal parsed to {got}", c as u32), case(&text)));
            }
            Ok(Err(e)) if hex => return Err(Fail::new("valid-literal-rejected", format!("{text:?} rejected:\n{e}"), case(&text))),
            Ok(Ok(got)) if hex => {
                let d = c.to_digit(16).unwrap() as u8;
                let want: Vec<u8> = match t {
                    6 => vec![0x40 + d, 0x41],
                    7 => vec![0x41, d * 16 + 4],
                    8 => vec![0x41, 0x40 + d],
                    _ => vec![0x41, 0x42, d * 17],
                };
                if got != cmp("s", "Equal", bytes_json(&want, true)) {
                    return Err(Fail::new("literal-value-mismatch", format!("{text:?}: got {got}"), case(&text)));
                }
                st.class("digit-alphabet:accepted");
            }
            Ok(Ok(got)) => {
                // whitespace: only acceptable as trimmed trailing blank leaving a well-formed literal
                let trimmed = text.trim_end();
                let ok_after_trim = t == 9 && false || (t == 8 && false);
                if !ok_after_trim && trimmed.len() == text.len() {
                    return Err(Fail::new("malformed-literal-accepted", format!("{text:?} parsed to {got}"), case(&text)));
                }
                // `41:4 ` -> `41:4` (one digit) and `41:42:  ` -> trailing separator: both malformed
                return Err(Fail::new("malformed-literal-accepted", format!("{text:?} (blank in a digit position) parsed to {got}"), case(&text)));
            }
            Ok(Err(_)) => st.class("digit-alphabet:rejected"),
        }
    }
    st.nontrivial(&(c, t));
    Ok(())
}

pub fn subs() -> Vec<Sub> {
    vec![
        Sub { name: "digit-alphabet", f: Box::new(digit_alphabet_case) },
        Sub { name: "short-escapes", f: Box::new(short_escape_case) },
        Sub { name: "int", f: Box::new(int_case) },
        Sub { name: "bytes", f: Box::new(bytes_case) },
        Sub { name: "escapes", f: Box::new(escape_case) },
        Sub { name: "ip", f: Box::new(ip_case) },
        Sub { name: "cidr", f: Box::new(cidr_case) },
        Sub { name: "index", f: Box::new(index_case) },
        Sub { name: "malformed", f: Box::new(malformed_case) },
        Sub { name: "hostile-quoted", f: Box::new(hostile_quoted_case) },
        Sub { name: "hostile-hex", f: Box::new(hostile_hex_case) },
    ]
}

pub fn run(run: &Run) {
    run.rule(
        "int/bytes/ip/index: (value, form) rendered by an independent printer, embedded at every literal position (comparison RHS, set item, range endpoint, function literal argument, index/key) followed by each kind of next token; decoded value read back from the AST JSON, CIDR/range items additionally probed by execution at their boundaries; escapes (all 256 bytes x 6 escape forms) and cidr (every prefix length) are exhaustive; malformed: curated malformed classes, each in every position it can occur; hostile-*: random bodies over a hostile alphabet judged by a reference decoder of the documented escape / hex-pair grammar (accept exactly the well-formed ones); \
         non-trivial = literal needs an escape, a non-decimal radix, a # delimiter, a non-default position, or is malformed; distinct by filter text",
    );
    run.assume("forms whose meaning the documentation leaves open are not generated: short IPv4 forms such as `1.2.3` inside a set (the CIDR parser reads them as 1.2.3.0), `0X` prefix, `+5`, `-017`, IPv4 octets with leading zeros, hex ints as function arguments (the argument grammar reads them as identifiers)");
    let subs = subs();
    let get = |n: &str| &*find_sub(&subs, n).unwrap().f;
    run_regressions(run, &subs);
    run.enumerate("escapes", 256 * 6, &|i| vec![(i / 6) as u32, (i % 6) as u32], get("escapes"));
    run.enumerate("cidr", 33 + 129, &|i| if i < 33 { vec![0, i as u32] } else { vec![1, (i - 33) as u32] }, get("cidr"));
    run.enumerate("malformed", malformed_list().len() as u64, &|i| vec![i as u32], get("malformed"));
    run.enumerate("short-escapes", short_escape_texts().len() as u64, &|i| vec![i as u32], get("short-escapes"));
    run.enumerate("digit-alphabet", digit_alphabet_total(), &|i| vec![(i / DIGIT_TEMPLATES as u64) as u32, (i % DIGIT_TEMPLATES as u64) as u32], get("digit-alphabet"));
    let q = run.tier.pick(100_000, 2_000_000);
    run.random("int", q, 40, get("int"));
    run.random("bytes", q, 80, get("bytes"));
    run.random("ip", q / 2, 40, get("ip"));
    run.random("index", q / 10, 20, get("index"));
    run.random("hostile-quoted", q * 2, 30, get("hostile-quoted"));
    run.random("hostile-hex", q, 30, get("hostile-hex"));
    let _ = (BytesLit::quoted(b""), IntLit::dec(0), IntForm::Dec, BytesForm::Quoted(0));
    if run.tier == Tier::Thorough {
        // coverage-guided search over the same generators (libFuzzer drives the choice sequences)
        fuzz_campaign_sub(run, "choices", Some(("hostile-quoted", get("hostile-quoted"))), 4, 120_000, 120, None);
        fuzz_campaign_sub(run, "choices", Some(("bytes", get("bytes"))), 4, 80_000, 320, None);
    }
}

//! Regex subset model: AST, pattern printer, literal renderings (quoted / raw)
//! and a backtracking reference matcher on bytes (unanchored, byte-oriented,
//! `.` does not match `\n`, case-sensitive).  Also the wildcard reference
//! matcher (DP).

use crate::ast::RegexForm;
use crate::choices::Choices;

#[derive(Clone, PartialEq, Eq, Hash, Debug)]
pub enum ClassItem {
    One(u8),
    Range(u8, u8),
}

#[derive(Clone, PartialEq, Eq, Hash, Debug)]
pub enum Node {
    /// a literal byte (printed as a char, escaped, or \xHH)
    Lit(u8),
    Any,
    Class { neg: bool, items: Vec<ClassItem> },
    Group(Vec<Vec<Node>>),
    /// 0 = ?, 1 = *, 2 = +
    Repeat(Box<Node>, u8),
    Start,
    End,
}

#[derive(Clone, PartialEq, Eq, Hash, Debug)]
pub struct Rx {
    pub alts: Vec<Vec<Node>>,
}

fn lit_text(b: u8, in_class: bool, out: &mut String) {
    let c = b as char;
    if b.is_ascii_alphanumeric() || c == ' ' || c == '_' {
        out.push(c);
    } else if c == '"' {
        if in_class {
            // both `"` and `\"` are legal inside a class; use the escaped one
            out.push_str("\\\"");
        } else {
            out.push('"');
        }
    } else if b.is_ascii_punctuation() && c != '<' && c != '>' {
        out.push('\\');
        out.push(c);
    } else {
        out.push_str(&format!("\\x{b:02X}"));
    }
}

fn node_text(n: &Node, out: &mut String) {
    match n {
        Node::Lit(b) => lit_text(*b, false, out),
        Node::Any => out.push('.'),
        Node::Class { neg, items } => {
            out.push('[');
            if *neg {
                out.push('^');
            }
            for it in items {
                match it {
                    ClassItem::One(b) => lit_text(*b, true, out),
                    ClassItem::Range(a, b) => {
                        lit_text(*a, true, out);
                        out.push('-');
                        lit_text(*b, true, out);
                    }
                }
            }
            out.push(']');
        }
        Node::Group(alts) => {
            out.push('(');
            alts_text(alts, out);
            out.push(')');
        }
        Node::Repeat(inner, k) => {
            node_text(inner, out);
            out.push(['?', '*', '+'][*k as usize % 3]);
        }
        Node::Start => out.push('^'),
        Node::End => out.push('$'),
    }
}

fn alts_text(alts: &[Vec<Node>], out: &mut String) {
    for (i, seq) in alts.iter().enumerate() {
        if i > 0 {
            out.push('|');
        }
        for n in seq {
            node_text(n, out);
        }
    }
}

impl Rx {
    pub fn literal(s: &[u8]) -> Rx {
        Rx { alts: vec![s.iter().map(|b| Node::Lit(*b)).collect()] }
    }

    /// The pattern exactly as the regex engine must receive it.
    pub fn pattern(&self) -> String {
        let mut s = String::new();
        alts_text(&self.alts, &mut s);
        s
    }

    pub fn has_class_or_repeat(&self) -> bool {
        fn go(alts: &[Vec<Node>]) -> bool {
            alts.iter().flatten().any(|n| match n {
                Node::Class { .. } | Node::Repeat(..) => true,
                Node::Group(a) => go(a),
                _ => false,
            })
        }
        go(&self.alts)
    }

    pub fn is_match(&self, hay: &[u8]) -> bool {
        let all = vec![true; hay.len() + 1];
        ends_alts(&self.alts, hay, &all).iter().any(|b| *b)
    }
}

/// How the pattern is written in a filter.
pub fn regex_literal(p: &str, form: &RegexForm) -> String {
    match form {
        RegexForm::Raw(h) => {
            // need more hashes than any run following a quote in the body
            let b = p.as_bytes();
            let mut need = 0usize;
            for i in 0..b.len() {
                if b[i] == b'"' {
                    let mut n = 0;
                    while i + 1 + n < b.len() && b[i + 1 + n] == b'#' {
                        n += 1;
                    }
                    need = need.max(n + 1);
                }
            }
            let h = (*h as usize).max(need);
            let hs = "#".repeat(h);
            format!("r{hs}\"{p}\"{hs}")
        }
        RegexForm::Quoted => {
            // `"` outside a character class must be written `\"`
            let mut out = String::from("\"");
            let mut in_class = false;
            let mut chars = p.chars();
            while let Some(c) = chars.next() {
                match c {
                    '\\' => {
                        out.push('\\');
                        if let Some(n) = chars.next() {
                            out.push(n);
                        }
                    }
                    '"' if !in_class => out.push_str("\\\""),
                    '[' if !in_class => {
                        in_class = true;
                        out.push('[');
                    }
                    ']' if in_class => {
                        in_class = false;
                        out.push(']');
                    }
                    c => out.push(c),
                }
            }
            out.push('"');
            out
        }
    }
}

fn class_has(items: &[ClassItem], b: u8) -> bool {
    items.iter().any(|it| match it {
        ClassItem::One(x) => *x == b,
        ClassItem::Range(lo, hi) => *lo <= b && b <= *hi,
    })
}

// Position-set semantics: `ends(x, S)` is the set of positions reachable by
// matching x starting from any position in S.  Exact for regular expressions.
type PosSet = Vec<bool>;

fn step(hay: &[u8], s: &PosSet, ok: impl Fn(u8) -> bool) -> PosSet {
    let mut out = vec![false; s.len()];
    for p in 0..hay.len() {
        if s[p] && ok(hay[p]) {
            out[p + 1] = true;
        }
    }
    out
}

fn union(a: &mut PosSet, b: &PosSet) -> bool {
    let mut changed = false;
    for i in 0..a.len() {
        if b[i] && !a[i] {
            a[i] = true;
            changed = true;
        }
    }
    changed
}

fn ends_alts(alts: &[Vec<Node>], hay: &[u8], s: &PosSet) -> PosSet {
    let mut out = vec![false; s.len()];
    for seq in alts {
        let mut cur = s.clone();
        for n in seq {
            cur = ends_node(n, hay, &cur);
        }
        union(&mut out, &cur);
    }
    out
}

fn ends_node(n: &Node, hay: &[u8], s: &PosSet) -> PosSet {
    match n {
        Node::Lit(b) => step(hay, s, |x| x == *b),
        Node::Any => step(hay, s, |x| x != b'\n'),
        Node::Class { neg, items } => step(hay, s, |x| class_has(items, x) != *neg),
        Node::Start => {
            let mut out = vec![false; s.len()];
            out[0] = s[0];
            out
        }
        Node::End => {
            let mut out = vec![false; s.len()];
            out[hay.len()] = s[hay.len()];
            out
        }
        Node::Group(alts) => ends_alts(alts, hay, s),
        Node::Repeat(inner, kind) => {
            let star = |from: &PosSet| -> PosSet {
                let mut r = from.clone();
                loop {
                    let nx = ends_node(inner, hay, &r);
                    if !union(&mut r, &nx) {
                        return r;
                    }
                }
            };
            match kind % 3 {
                0 => {
                    let mut r = s.clone();
                    let nx = ends_node(inner, hay, s);
                    union(&mut r, &nx);
                    r
                }
                1 => star(s),
                _ => star(&ends_node(inner, hay, s)),
            }
        }
    }
}

// ---------------------------------------------------------------------------
// Generator

const LIT_POOL: &[u8] = b"abcABC012 _\"].[\\-xyz/#";

fn gen_lit(ch: &mut Choices<'_>) -> u8 {
    match ch.weighted(&[10, 1]) {
        0 => *ch.pick(LIT_POOL),
        _ => *ch.pick(&[0x00u8, 0x0a, 0x80, 0xff, 0xc3, 0x7f]),
    }
}

fn gen_class(ch: &mut Choices<'_>) -> Node {
    let neg = ch.chance(1, 4);
    let n = ch.range(1, 3);
    let mut items = Vec::new();
    for _ in 0..n {
        if ch.chance(1, 3) {
            let ranges: [(u8, u8); 5] = [(b'a', b'c'), (b'A', b'Z'), (b'0', b'9'), (b'a', b'z'), (0x80, 0xff)];
            let (a, b) = *ch.pick(&ranges);
            items.push(ClassItem::Range(a, b));
        } else {
            items.push(ClassItem::One(gen_lit(ch)));
        }
    }
    Node::Class { neg, items }
}

fn gen_atom(ch: &mut Choices<'_>, depth: usize) -> Node {
    match ch.weighted(&[8, 2, 3, if depth > 0 { 2 } else { 0 }]) {
        0 => Node::Lit(gen_lit(ch)),
        1 => Node::Any,
        2 => gen_class(ch),
        _ => {
            let n = ch.range(1, 2);
            Node::Group((0..n).map(|_| gen_seq(ch, depth - 1, 2)).collect())
        }
    }
}

fn gen_seq(ch: &mut Choices<'_>, depth: usize, max: usize) -> Vec<Node> {
    let n = ch.range(1, max);
    (0..n)
        .map(|_| {
            let a = gen_atom(ch, depth);
            if ch.chance(1, 4) { Node::Repeat(Box::new(a), ch.draw(3) as u8) } else { a }
        })
        .collect()
}

pub fn gen_rx(ch: &mut Choices<'_>, depth: usize) -> Rx {
    let n = ch.weighted(&[5, 1]) + 1;
    let mut alts: Vec<Vec<Node>> = (0..n).map(|_| gen_seq(ch, depth, 4)).collect();
    if ch.chance(1, 6) {
        alts[0].insert(0, Node::Start);
    }
    if ch.chance(1, 6) {
        let l = alts.len() - 1;
        alts[l].push(Node::End);
    }
    Rx { alts }
}

/// Generate a byte string likely (but not certain) to match: expand the first
/// alternative, then optionally perturb.
pub fn gen_sample(rx: &Rx, ch: &mut Choices<'_>) -> Vec<u8> {
    fn expand(seq: &[Node], ch: &mut Choices<'_>, out: &mut Vec<u8>) {
        for n in seq {
            expand_node(n, ch, out);
        }
    }
    fn expand_node(n: &Node, ch: &mut Choices<'_>, out: &mut Vec<u8>) {
        match n {
            Node::Lit(b) => out.push(*b),
            Node::Any => out.push(*ch.pick(b"aZ0 \xff")),
            Node::Class { neg, items } => {
                if *neg {
                    for cand in [b'q', b'Q', b'7', 0xfe, b'\n'] {
                        if !class_has(items, cand) {
                            out.push(cand);
                            return;
                        }
                    }
                    out.push(b'!');
                } else {
                    match ch.pick(items) {
                        ClassItem::One(b) => out.push(*b),
                        ClassItem::Range(a, b) => out.push(a + (ch.draw((*b - *a) as usize + 1) as u8)),
                    }
                }
            }
            Node::Group(alts) => {
                let seq = ch.pick(alts);
                expand(seq, ch, out);
            }
            Node::Repeat(inner, k) => {
                let reps = match k % 3 {
                    0 => ch.draw(2),
                    1 => ch.draw(3),
                    _ => 1 + ch.draw(2),
                };
                for _ in 0..reps {
                    expand_node(inner, ch, out);
                }
            }
            Node::Start | Node::End => {}
        }
    }
    let mut out = Vec::new();
    let seq = ch.pick(&rx.alts);
    expand(seq, ch, &mut out);
    match ch.draw(5) {
        0 => {}
        1 => {
            // surround (unanchored search must still find it)
            let mut v = vec![*ch.pick(b"xA\n\xff")];
            v.extend(out);
            v.push(*ch.pick(b"yB\n\x00"));
            out = v;
        }
        2 => {
            if !out.is_empty() {
                let i = ch.draw(out.len());
                out[i] = out[i].wrapping_add(1 + ch.draw(3) as u8);
            }
        }
        3 => {
            if !out.is_empty() {
                let i = ch.draw(out.len());
                out[i] ^= 0x20; // case flip
            }
        }
        _ => {
            if !out.is_empty() {
                let i = ch.draw(out.len());
                out.remove(i);
            }
        }
    }
    out
}

// ---------------------------------------------------------------------------
// Wildcards

#[derive(Clone, PartialEq, Eq, Debug)]
pub enum WTok {
    Star,
    Byte(u8),
}

/// Parse a wildcard pattern per the documented rules: `*` any byte sequence,
/// `\*` and `\\` literal, `?` ordinary; any other escape or a trailing `\` is
/// invalid.  Returns Err for invalid escapes.
pub fn wild_parse(p: &[u8]) -> Result<Vec<WTok>, ()> {
    let mut out = Vec::new();
    let mut i = 0;
    while i < p.len() {
        match p[i] {
            b'\\' => {
                if i + 1 < p.len() && (p[i + 1] == b'*' || p[i + 1] == b'\\') {
                    out.push(WTok::Byte(p[i + 1]));
                    i += 2;
                } else {
                    return Err(());
                }
            }
            b'*' => {
                out.push(WTok::Star);
                i += 1;
            }
            b => {
                out.push(WTok::Byte(b));
                i += 1;
            }
        }
    }
    Ok(out)
}

pub fn wild_stars(t: &[WTok]) -> usize {
    t.iter().filter(|t| **t == WTok::Star).count()
}

pub fn wild_double_star(t: &[WTok]) -> bool {
    t.windows(2).any(|w| w[0] == WTok::Star && w[1] == WTok::Star)
}

/// Whole-value match; ASCII case folding unless strict.
pub fn wild_match(t: &[WTok], v: &[u8], strict: bool) -> bool {
    let n = t.len();
    let m = v.len();
    // dp[i][j]: t[i..] matches v[j..]
    let mut dp = vec![vec![false; m + 1]; n + 1];
    dp[n][m] = true;
    for i in (0..n).rev() {
        for j in (0..=m).rev() {
            dp[i][j] = match &t[i] {
                WTok::Star => dp[i + 1][j] || (j < m && dp[i][j + 1]),
                WTok::Byte(b) => {
                    j < m
                        && (if strict { *b == v[j] } else { b.eq_ignore_ascii_case(&v[j]) })
                        && dp[i + 1][j + 1]
                }
            };
        }
    }
    dp[0][0]
}

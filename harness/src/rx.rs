//! Regex subset model: AST, pattern printer, literal renderings (quoted / raw)
//! and a backtracking reference matcher on bytes (unanchored, byte-oriented,
//! `.` does not match `\n`, case-sensitive).  Also the wildcard reference
//! matcher (DP).

use crate::ast::RegexForm;
use crate::choices::Choices;

#[derive(Clone, PartialEq, Eq, Hash, Debug)]
pub enum ClassItem {
    One(u8),
    Range(u8, u8),
}

#[derive(Clone, PartialEq, Eq, Hash, Debug)]
pub enum Node {
    /// a literal byte (printed as a char, escaped, or \xHH)
    Lit(u8),
    /// a non-ASCII character written as itself in the pattern (outside classes): its UTF-8 bytes, as one unit
    Char(char),
    Any,
    Class { neg: bool, items: Vec<ClassItem> },
    Group(Vec<Vec<Node>>),
    /// 0 = ?, 1 = *, 2 = +
    Repeat(Box<Node>, u8),
    Start,
    End,
    /// 0 = \b, 1 = \B, 2 = \< (word start), 3 = \> (word end), 4 = \A, 5 = \z
    Assert(u8),
    /// 0 = \d, 1 = \w, 2 = \s; negated = upper-case letter
    Perl(u8, bool),
    /// counted repetition {min}, {min,}, {min,max}
    Count(Box<Node>, u8, Option<u8>),
    /// (?flags:...) with flags among i (ASCII case-insensitive), s (dot matches \n), m (multi-line anchors)
    Flags { ci: bool, dotall: bool, multi: bool, alts: Vec<Vec<Node>> },
}

#[derive(Clone, Copy, Default)]
struct Mode {
    ci: bool,
    dotall: bool,
    multi: bool,
}

#[derive(Clone, PartialEq, Eq, Hash, Debug)]
pub struct Rx {
    pub alts: Vec<Vec<Node>>,
}

fn lit_text(b: u8, in_class: bool, out: &mut String) {
    let c = b as char;
    if b.is_ascii_alphanumeric() || c == ' ' || c == '_' {
        out.push(c);
    } else if c == '"' {
        if in_class {
            // both `"` and `\"` are legal inside a class; use the escaped one
            out.push_str("\\\"");
        } else {
            out.push('"');
        }
    } else if b.is_ascii_punctuation() && c != '<' && c != '>' {
        out.push('\\');
        out.push(c);
    } else {
        out.push_str(&format!("\\x{b:02X}"));
    }
}

fn node_text(n: &Node, out: &mut String) {
    match n {
        Node::Lit(b) => lit_text(*b, false, out),
        Node::Char(c) => out.push(*c),
        Node::Any => out.push('.'),
        Node::Class { neg, items } => {
            out.push('[');
            if *neg {
                out.push('^');
            }
            for it in items {
                match it {
                    ClassItem::One(b) => lit_text(*b, true, out),
                    ClassItem::Range(a, b) => {
                        lit_text(*a, true, out);
                        out.push('-');
                        lit_text(*b, true, out);
                    }
                }
            }
            out.push(']');
        }
        Node::Group(alts) => {
            out.push('(');
            alts_text(alts, out);
            out.push(')');
        }
        Node::Repeat(inner, k) => {
            node_text(inner, out);
            out.push(['?', '*', '+'][*k as usize % 3]);
            if *k % 6 >= 3 {
                // lazy variant: same language
                out.push('?');
            }
        }
        Node::Start => out.push('^'),
        Node::End => out.push('$'),
        Node::Assert(k) => out.push_str(["\\b", "\\B", "\\<", "\\>", "\\A", "\\z"][*k as usize % 6]),
        Node::Perl(k, neg) => {
            let c = [['d', 'D'], ['w', 'W'], ['s', 'S']][*k as usize % 3][*neg as usize];
            out.push('\\');
            out.push(c);
        }
        Node::Count(inner, min, max) => {
            node_text(inner, out);
            match max {
                Some(m) if m == min => out.push_str(&format!("{{{min}}}")),
                Some(m) => out.push_str(&format!("{{{min},{m}}}")),
                None => out.push_str(&format!("{{{min},}}")),
            }
        }
        Node::Flags { ci, dotall, multi, alts } => {
            out.push_str("(?");
            if *ci {
                out.push('i');
            }
            if *dotall {
                out.push('s');
            }
            if *multi {
                out.push('m');
            }
            out.push(':');
            alts_text(alts, out);
            out.push(')');
        }
    }
}

fn alts_text(alts: &[Vec<Node>], out: &mut String) {
    for (i, seq) in alts.iter().enumerate() {
        if i > 0 {
            out.push('|');
        }
        for n in seq {
            node_text(n, out);
        }
    }
}

impl Rx {
    pub fn literal(s: &[u8]) -> Rx {
        Rx { alts: vec![s.iter().map(|b| Node::Lit(*b)).collect()] }
    }

    /// The pattern exactly as the regex engine must receive it.
    pub fn pattern(&self) -> String {
        let mut s = String::new();
        alts_text(&self.alts, &mut s);
        s
    }

    pub fn has_class_or_repeat(&self) -> bool {
        fn go(alts: &[Vec<Node>]) -> bool {
            alts.iter().flatten().any(|n| match n {
                Node::Class { .. } | Node::Repeat(..) | Node::Perl(..) | Node::Count(..) => true,
                Node::Group(a) | Node::Flags { alts: a, .. } => go(a),
                _ => false,
            })
        }
        go(&self.alts)
    }

    pub fn is_match(&self, hay: &[u8]) -> bool {
        let all = vec![true; hay.len() + 1];
        ends_alts(&self.alts, hay, &all, Mode::default()).iter().any(|b| *b)
    }
}

/// How the pattern is written in a filter.
pub fn regex_literal(p: &str, form: &RegexForm) -> String {
    match form {
        RegexForm::Raw(h) => {
            // need more hashes than any run following a quote in the body
            let b = p.as_bytes();
            let mut need = 0usize;
            for i in 0..b.len() {
                if b[i] == b'"' {
                    let mut n = 0;
                    while i + 1 + n < b.len() && b[i + 1 + n] == b'#' {
                        n += 1;
                    }
                    need = need.max(n + 1);
                }
            }
            let h = (*h as usize).max(need);
            let hs = "#".repeat(h);
            format!("r{hs}\"{p}\"{hs}")
        }
        RegexForm::Quoted => {
            // `"` outside a character class must be written `\"`
            let mut out = String::from("\"");
            let mut in_class = false;
            let mut chars = p.chars();
            while let Some(c) = chars.next() {
                match c {
                    '\\' => {
                        out.push('\\');
                        if let Some(n) = chars.next() {
                            out.push(n);
                        }
                    }
                    '"' if !in_class => out.push_str("\\\""),
                    '[' if !in_class => {
                        in_class = true;
                        out.push('[');
                    }
                    ']' if in_class => {
                        in_class = false;
                        out.push(']');
                    }
                    c => out.push(c),
                }
            }
            out.push('"');
            out
        }
    }
}

fn class_has(items: &[ClassItem], b: u8) -> bool {
    items.iter().any(|it| match it {
        ClassItem::One(x) => *x == b,
        ClassItem::Range(lo, hi) => *lo <= b && b <= *hi,
    })
}

// Position-set semantics: `ends(x, S)` is the set of positions reachable by
// matching x starting from any position in S.  Exact for regular expressions.
type PosSet = Vec<bool>;

fn step(hay: &[u8], s: &PosSet, ok: impl Fn(u8) -> bool) -> PosSet {
    let mut out = vec![false; s.len()];
    for p in 0..hay.len() {
        if s[p] && ok(hay[p]) {
            out[p + 1] = true;
        }
    }
    out
}

fn union(a: &mut PosSet, b: &PosSet) -> bool {
    let mut changed = false;
    for i in 0..a.len() {
        if b[i] && !a[i] {
            a[i] = true;
            changed = true;
        }
    }
    changed
}

fn ends_alts(alts: &[Vec<Node>], hay: &[u8], s: &PosSet, m: Mode) -> PosSet {
    let mut out = vec![false; s.len()];
    for seq in alts {
        let mut cur = s.clone();
        for n in seq {
            cur = ends_node(n, hay, &cur, m);
        }
        union(&mut out, &cur);
    }
    out
}

fn is_word(b: u8) -> bool {
    b.is_ascii_alphanumeric() || b == b'_'
}

fn swap_case(b: u8) -> u8 {
    if b.is_ascii_alphabetic() { b ^ 0x20 } else { b }
}

fn keep(s: &PosSet, ok: impl Fn(usize) -> bool) -> PosSet {
    (0..s.len()).map(|p| s[p] && ok(p)).collect()
}

fn ends_node(n: &Node, hay: &[u8], s: &PosSet, m: Mode) -> PosSet {
    let before = |p: usize| p > 0 && is_word(hay[p - 1]);
    let after = |p: usize| p < hay.len() && is_word(hay[p]);
    match n {
        Node::Lit(b) => step(hay, s, |x| x == *b || (m.ci && swap_case(x) == *b)),
        Node::Char(c) => {
            // byte-oriented, non-Unicode: exactly these bytes (no case folding beyond ASCII)
            let mut cur = s.clone();
            for b in c.to_string().bytes() {
                cur = step(hay, &cur, |x| x == b);
            }
            cur
        }
        Node::Any => step(hay, s, |x| m.dotall || x != b'\n'),
        Node::Class { neg, items } => step(hay, s, |x| (class_has(items, x) || (m.ci && class_has(items, swap_case(x)))) != *neg),
        Node::Perl(k, neg) => step(hay, s, |x| {
            let inside = match k % 3 {
                0 => x.is_ascii_digit(),
                1 => is_word(x),
                _ => matches!(x, b'\t' | b'\n' | 0x0b | 0x0c | b'\r' | b' '),
            };
            inside != *neg
        }),
        Node::Start => keep(s, |p| p == 0 || (m.multi && hay[p - 1] == b'\n')),
        Node::End => keep(s, |p| p == hay.len() || (m.multi && hay[p] == b'\n')),
        Node::Assert(k) => match k % 6 {
            0 => keep(s, |p| before(p) != after(p)),
            1 => keep(s, |p| before(p) == after(p)),
            2 => keep(s, |p| !before(p) && after(p)),
            3 => keep(s, |p| before(p) && !after(p)),
            4 => keep(s, |p| p == 0),
            _ => keep(s, |p| p == hay.len()),
        },
        Node::Group(alts) => ends_alts(alts, hay, s, m),
        Node::Flags { ci, dotall, multi, alts } => {
            let m2 = Mode { ci: m.ci || *ci, dotall: m.dotall || *dotall, multi: m.multi || *multi };
            ends_alts(alts, hay, s, m2)
        }
        Node::Count(inner, min, max) => {
            let mut cur = s.clone();
            for _ in 0..*min {
                cur = ends_node(inner, hay, &cur, m);
            }
            match max {
                None => star(inner, hay, &cur, m),
                Some(mx) => {
                    let mut acc = cur.clone();
                    for _ in *min..*mx {
                        cur = ends_node(inner, hay, &cur, m);
                        union(&mut acc, &cur);
                    }
                    acc
                }
            }
        }
        Node::Repeat(inner, kind) => match kind % 3 {
            0 => {
                let mut r = s.clone();
                let nx = ends_node(inner, hay, s, m);
                union(&mut r, &nx);
                r
            }
            1 => star(inner, hay, s, m),
            _ => star(inner, hay, &ends_node(inner, hay, s, m), m),
        },
    }
}

fn star(inner: &Node, hay: &[u8], from: &PosSet, m: Mode) -> PosSet {
    let mut r = from.clone();
    loop {
        let nx = ends_node(inner, hay, &r, m);
        if !union(&mut r, &nx) {
            return r;
        }
    }
}

// ---------------------------------------------------------------------------
// Generator

const LIT_POOL: &[u8] = b"abcABC012 _\"].[\\-xyz/#";

fn gen_lit(ch: &mut Choices<'_>) -> u8 {
    match ch.weighted(&[10, 1]) {
        0 => *ch.pick(LIT_POOL),
        _ => *ch.pick(&[0x00u8, 0x0a, 0x80, 0xff, 0xc3, 0x7f]),
    }
}

fn gen_class(ch: &mut Choices<'_>) -> Node {
    let neg = ch.chance(1, 4);
    let n = ch.range(1, 3);
    let mut items = Vec::new();
    for _ in 0..n {
        if ch.chance(1, 3) {
            let ranges: [(u8, u8); 5] = [(b'a', b'c'), (b'A', b'Z'), (b'0', b'9'), (b'a', b'z'), (0x80, 0xff)];
            let (a, b) = *ch.pick(&ranges);
            items.push(ClassItem::Range(a, b));
        } else {
            items.push(ClassItem::One(gen_lit(ch)));
        }
    }
    Node::Class { neg, items }
}

fn gen_atom(ch: &mut Choices<'_>, depth: usize) -> Node {
    let deep = if depth > 0 { 2 } else { 0 };
    match ch.weighted(&[16, 4, 6, deep * 2, 3, deep, 2]) {
        6 => Node::Char(*ch.pick(&['\u{e9}', '\u{df}', '\u{20ac}', '\u{1f622}', '\u{c4}', '\u{80}', '\u{ff}', '\u{3a9}'])),
        0 => Node::Lit(gen_lit(ch)),
        1 => Node::Any,
        2 => gen_class(ch),
        3 => {
            let n = ch.range(1, 2);
            Node::Group((0..n).map(|_| gen_seq(ch, depth - 1, 2)).collect())
        }
        4 => Node::Perl(ch.draw(3) as u8, ch.chance(1, 3)),
        _ => {
            let f = 1 + ch.draw(7);
            let n = ch.range(1, 2);
            Node::Flags { ci: f & 1 != 0, dotall: f & 2 != 0, multi: f & 4 != 0, alts: (0..n).map(|_| gen_seq(ch, depth - 1, 3)).collect() }
        }
    }
}

fn gen_seq(ch: &mut Choices<'_>, depth: usize, max: usize) -> Vec<Node> {
    let n = ch.range(1, max);
    (0..n)
        .map(|_| {
            if ch.chance(1, 12) {
                // zero-width assertions and inner anchors
                return match ch.draw(8) {
                    6 => Node::Start,
                    7 => Node::End,
                    k => Node::Assert(k as u8),
                };
            }
            let a = gen_atom(ch, depth);
            match ch.weighted(&[9, 3, 1]) {
                0 => a,
                1 => Node::Repeat(Box::new(a), ch.draw(6) as u8),
                _ => {
                    let min = ch.draw(3) as u8;
                    let max = match ch.draw(3) {
                        0 => None,
                        1 => Some(min),
                        _ => Some(min + ch.draw(3) as u8),
                    };
                    Node::Count(Box::new(a), min, max)
                }
            }
        })
        .collect()
}

pub fn gen_rx(ch: &mut Choices<'_>, depth: usize) -> Rx {
    let n = ch.weighted(&[5, 1]) + 1;
    let mut alts: Vec<Vec<Node>> = (0..n).map(|_| gen_seq(ch, depth, 4)).collect();
    if ch.chance(1, 6) {
        alts[0].insert(0, Node::Start);
    }
    if ch.chance(1, 6) {
        let l = alts.len() - 1;
        alts[l].push(Node::End);
    }
    Rx { alts }
}

/// Generate a byte string likely (but not certain) to match: expand the first
/// alternative, then optionally perturb.
pub fn gen_sample(rx: &Rx, ch: &mut Choices<'_>) -> Vec<u8> {
    fn expand(seq: &[Node], ch: &mut Choices<'_>, out: &mut Vec<u8>) {
        for n in seq {
            expand_node(n, ch, out);
        }
    }
    fn expand_node(n: &Node, ch: &mut Choices<'_>, out: &mut Vec<u8>) {
        match n {
            Node::Lit(b) => out.push(*b),
            Node::Char(c) => out.extend(c.to_string().bytes()),
            Node::Any => out.push(*ch.pick(b"aZ0 \xff\r\x00\x0b\x85")),
            Node::Class { neg, items } => {
                if *neg {
                    for cand in [b'q', b'Q', b'7', 0xfe, b'\n'] {
                        if !class_has(items, cand) {
                            out.push(cand);
                            return;
                        }
                    }
                    out.push(b'!');
                } else {
                    match ch.pick(items) {
                        ClassItem::One(b) => out.push(*b),
                        ClassItem::Range(a, b) => out.push(a + (ch.draw((*b - *a) as usize + 1) as u8)),
                    }
                }
            }
            Node::Group(alts) => {
                let seq = ch.pick(alts);
                expand(seq, ch, out);
            }
            Node::Repeat(inner, k) => {
                let reps = match k % 3 {
                    0 => ch.draw(2),
                    1 => ch.draw(3),
                    _ => 1 + ch.draw(2),
                };
                for _ in 0..reps {
                    expand_node(inner, ch, out);
                }
            }
            Node::Start | Node::End | Node::Assert(_) => {}
            Node::Perl(k, neg) => {
                let inside: &[u8] = [&b"07"[..], &b"a_Z5"[..], &b" \t\n"[..]][*k as usize % 3];
                let outside: &[u8] = [&b"a \xff"[..], &b" -\xff"[..], &b"a0\x80"[..]][*k as usize % 3];
                out.push(*ch.pick(if *neg { outside } else { inside }));
            }
            Node::Count(inner, min, max) => {
                let extra = match max {
                    None => ch.draw(2) as u8,
                    Some(m) => ch.draw((*m - *min) as usize + 1) as u8,
                };
                for _ in 0..(*min + extra) {
                    expand_node(inner, ch, out);
                }
            }
            Node::Flags { alts, ci, .. } => {
                let seq = ch.pick(alts);
                let from = out.len();
                expand(seq, ch, out);
                if *ci && out.len() > from && ch.boolean() {
                    let i = from + ch.draw(out.len() - from);
                    out[i] = swap_case(out[i]);
                }
            }
        }
    }
    let mut out = Vec::new();
    let seq = ch.pick(&rx.alts);
    expand(seq, ch, &mut out);
    match ch.draw(5) {
        0 => {}
        1 => {
            // surround (unanchored search must still find it)
            let mut v = vec![*ch.pick(b"xA\n\xff\r")];
            v.extend(out);
            v.push(*ch.pick(b"yB\n\x00\r"));
            out = v;
        }
        2 => {
            if !out.is_empty() {
                let i = ch.draw(out.len());
                out[i] = out[i].wrapping_add(1 + ch.draw(3) as u8);
            }
        }
        3 => {
            if !out.is_empty() {
                let i = ch.draw(out.len());
                out[i] ^= 0x20; // case flip
            }
        }
        _ => {
            if !out.is_empty() {
                let i = ch.draw(out.len());
                out.remove(i);
            }
        }
    }
    out
}

// ---------------------------------------------------------------------------
// Wildcards

#[derive(Clone, PartialEq, Eq, Debug)]
pub enum WTok {
    Star,
    Byte(u8),
}

/// Parse a wildcard pattern per the documented rules: `*` any byte sequence,
/// `\*` and `\\` literal, `?` ordinary; any other escape or a trailing `\` is
/// invalid.  Returns Err for invalid escapes.
pub fn wild_parse(p: &[u8]) -> Result<Vec<WTok>, ()> {
    let mut out = Vec::new();
    let mut i = 0;
    while i < p.len() {
        match p[i] {
            b'\\' => {
                if i + 1 < p.len() && (p[i + 1] == b'*' || p[i + 1] == b'\\') {
                    out.push(WTok::Byte(p[i + 1]));
                    i += 2;
                } else {
                    return Err(());
                }
            }
            b'*' => {
                out.push(WTok::Star);
                i += 1;
            }
            b => {
                out.push(WTok::Byte(b));
                i += 1;
            }
        }
    }
    Ok(out)
}

pub fn wild_stars(t: &[WTok]) -> usize {
    t.iter().filter(|t| **t == WTok::Star).count()
}

pub fn wild_double_star(t: &[WTok]) -> bool {
    t.windows(2).any(|w| w[0] == WTok::Star && w[1] == WTok::Star)
}

/// Whole-value match; ASCII case folding unless strict.
pub fn wild_match(t: &[WTok], v: &[u8], strict: bool) -> bool {
    let n = t.len();
    let m = v.len();
    // dp[i][j]: t[i..] matches v[j..]
    let mut dp = vec![vec![false; m + 1]; n + 1];
    dp[n][m] = true;
    for i in (0..n).rev() {
        for j in (0..=m).rev() {
            dp[i][j] = match &t[i] {
                WTok::Star => dp[i + 1][j] || (j < m && dp[i][j + 1]),
                WTok::Byte(b) => {
                    j < m
                        && (if strict { *b == v[j] } else { b.eq_ignore_ascii_case(&v[j]) })
                        && dp[i + 1][j + 1]
                }
            };
        }
    }
    dp[0][0]
}

//! C17 - `in $list` delegates exactly to the context's list matcher.

use crate::ast::*;
use crate::choices::Choices;
use crate::engine::*;
use crate::eval::{self, Env};
use crate::genr::{self as g, Gen, GenCfg};
use crate::lists::{self, LV, ListKind, SetMatcher};
use crate::model::*;
use crate::runner::*;
use crate::scheme::{ListState, Recipe, show_lists};
use serde::de::DeserializeSeed;
use serde_json::json;
use std::collections::{BTreeMap, BTreeSet};
use wirefilter::ExecutionContext;

fn list_types() -> [MType; 3] {
    [MType::Int, MType::Ip, MType::Bytes]
}

/// Register lists for all three types in a generated order with generated kinds.
fn gen_list_setup(ch: &mut Choices<'_>, r: &mut Recipe, want_set: &MType) {
    let mut order = list_types().to_vec();
    let k = ch.draw(3);
    order.rotate_left(k);
    if ch.boolean() {
        order.swap(0, 1);
    }
    r.lists.clear();
    for t in order {
        if t != *want_set && ch.chance(1, 4) {
            continue; // not registered
        }
        let kind = if t == *want_set {
            *ch.pick(&[ListKind::Set, ListKind::Set, ListKind::Set, ListKind::Always, ListKind::Never])
        } else {
            *ch.pick(&[ListKind::Set, ListKind::Always, ListKind::Never])
        };
        r.lists.push((t, kind));
    }
}

fn filter_case(ch: &mut Choices<'_>, st: &mut Stats) -> CaseResult {
    let mut gen_ = Gen::new(ch, GenCfg { lists: false, ..GenCfg::full() });
    let t = gen_.ch.pick(&list_types()).clone();
    let stars = gen_.ch.weighted(&[3, 2, 1]);
    let lhs = gen_.gen_index(&t, stars, 0);
    let stars = lhs.stars();
    let name = g::gen_list_name(gen_.ch);
    gen_.hints.list_names.push((t.clone(), name.clone()));
    let leaf = MExpr::Cmp { lhs, op: MOp::InList(name.clone()) };
    let unconditional;
    let mut expr = if stars > 0 {
        unconditional = true;
        MExpr::Quant { any: gen_.ch.boolean(), arg: Box::new(MQArg::Logical(leaf)) }
    } else {
        unconditional = true;
        leaf
    };
    let mut exact = unconditional;
    if gen_.ch.chance(1, 3) {
        // combine with a second list comparison on another (or the same) type
        let t2 = gen_.ch.pick(&list_types()).clone();
        let l2 = gen_.gen_index(&t2, 0, 0);
        let n2 = if gen_.ch.boolean() { name.clone() } else { g::gen_list_name(gen_.ch) };
        gen_.hints.list_names.push((t2.clone(), n2.clone()));
        let other = MExpr::Cmp { lhs: l2, op: MOp::InList(n2) };
        let op = *gen_.ch.pick(&LOp::ALL);
        expr = MExpr::Comb { op, items: vec![expr, other] };
        exact = op == LOp::Xor;
    }
    if gen_.ch.chance(1, 5) {
        expr = MExpr::Not(Box::new(MExpr::Paren(Box::new(expr))));
    }
    gen_.finish_scheme();
    let mut recipe = gen_.r.clone();
    gen_list_setup(gen_.ch, &mut recipe, &t);
    // make sure every list type used in the filter is registered
    let mut used_types = BTreeSet::new();
    fn collect(e: &MExpr, r: &Recipe, out: &mut BTreeSet<MType>) {
        match e {
            MExpr::Cmp { lhs, op: MOp::InList(_) } => {
                if let Ok(t) = crate::typeck::index_type(r, lhs) {
                    out.insert(t);
                }
            }
            MExpr::Cmp { .. } => {}
            MExpr::Not(a) | MExpr::Paren(a) => collect(a, r, out),
            MExpr::Comb { items, .. } => items.iter().for_each(|i| collect(i, r, out)),
            MExpr::Quant { arg, .. } => {
                if let MQArg::Logical(e) = &**arg {
                    collect(e, r, out)
                }
            }
        }
    }
    collect(&expr, &recipe, &mut used_types);
    for ut in &used_types {
        if recipe.list_kind(ut).is_none() {
            recipe.lists.push((ut.clone(), ListKind::Set));
        }
    }
    let hints = gen_.hints.clone();
    let lists = g::gen_lists(gen_.ch, &recipe, &hints);
    let ctxs: Vec<MCtx> = (0..6).map(|_| g::gen_ctx(gen_.ch, &recipe, &hints)).collect();
    let text = print_expr(&expr, &Style { alias: vec![gen_.ch.draw(2) as u8], space: vec![1, 0, 2] });
    let case = Case { recipe: &recipe, expr: &expr, text: &text, ctxs: &ctxs, lists: &lists };
    let scheme = recipe.build();
    let ast = parse_checked(&scheme, &case)?;
    json_checked(&ast, &case)?;
    let filter = compile_checked(ast, &case)?;
    let type_order: Vec<&MType> = recipe.lists.iter().map(|(t, _)| t).collect();
    let registered_out_of_type_order = type_order.windows(2).any(|w| w[0] > w[1]);
    let mut outcomes = BTreeSet::new();
    for (ci, c) in ctxs.iter().enumerate() {
        let ec = recipe.make_ctx(&scheme, c, &lists);
        lists::list_log_start();
        let out = exec_checked(&filter, &ec, &case, ci);
        let observed = lists::list_log_take();
        let out = out?;
        st.eval();
        if let ExecOutcome::Grey(_) = out {
            st.excluded();
            continue;
        }
        let env = Env::new(&recipe, c, &lists);
        let _ = eval::eval_expr(&env, &expr);
        let predicted = env.list_queries.borrow().clone();
        // every query the matcher received is one the semantics predicts (name without `$`, the value itself)
        for q in &observed {
            if !predicted.contains(q) {
                return Err(Fail::new(
                    "matcher-queried-with-unexpected-arguments",
                    format!("context #{ci}: the matcher was asked ({:?}, {}) which the semantics never asks; predicted {:?}", q.0, q.1.show(), predicted.iter().map(|(n, v)| (n.clone(), v.show())).collect::<Vec<_>>()),
                    case.show(),
                ));
            }
        }
        if exact && observed != predicted {
            return Err(Fail::new(
                "matcher-query-sequence-mismatch",
                format!(
                    "context #{ci}: queries {:?}, expected {:?}",
                    observed.iter().map(|(n, v)| (n.clone(), v.show())).collect::<Vec<_>>(),
                    predicted.iter().map(|(n, v)| (n.clone(), v.show())).collect::<Vec<_>>()
                ),
                case.show(),
            ));
        }
        if let ExecOutcome::Agree(b) = out {
            outcomes.insert(b);
        }
        if !predicted.is_empty() {
            st.class("set-matcher-queried");
        }
        if stars > 0 && predicted.len() >= 2 {
            st.class("per-element-queries");
        }
    }
    let queried_nonempty = lists.values().any(|s| s.values().any(|v| !v.is_empty()));
    if recipe.lists.len() >= 2 && registered_out_of_type_order && queried_nonempty && outcomes.len() == 2 {
        st.nontrivial(&text);
        st.sample("nontrivial", || json!({"filter": text, "lists_registered": recipe.lists.iter().map(|(t, k)| format!("{}:{k:?}", t.show())).collect::<Vec<_>>(), "state": show_lists(&lists)}));
    }
    for (t, k) in &recipe.lists {
        if used_types.contains(t) {
            st.class(&format!("list-kind-{k:?}"));
        }
    }
    Ok(())
}

fn valid_name(n: &str) -> bool {
    !n.is_empty()
        && n.chars().all(|c| c.is_ascii_lowercase() || c.is_ascii_digit() || c == '_' || c == '.')
        && !n.starts_with('.')
        && !n.ends_with('.')
}

/// Names over the permitted alphabet and invalid ones; registration present or not.
fn name_case(ch: &mut Choices<'_>, st: &mut Stats) -> CaseResult {
    let n = ch.draw(7);
    let hostile = ch.boolean();
    let name: String = (0..n)
        .map(|_| {
            if hostile {
                *ch.pick(&['a', 'z', 'q', '0', '9', '_', '.', '.', 'A', 'Z', '-', '$', ' ', 'é', '/', ':'])
            } else {
                *ch.pick(&['a', 'z', 'q', '0', '9', '_', '.', 'm', 'x'])
            }
        })
        .collect();
    let registered = ch.chance(3, 4);
    let tix = ch.draw(3);
    let t = list_types()[tix].clone();
    let kinds = [ListKind::Set, ListKind::Always, ListKind::Never];
    let mut recipe = Recipe::empty();
    recipe.fields.push(FieldSpec { name: "x".into(), ty: t.clone(), optional: true });
    recipe.fields.push(FieldSpec { name: "ax".into(), ty: MType::array(t.clone()), optional: true });
    for (i, lt) in list_types().iter().enumerate() {
        if (*lt == t && registered) || (*lt != t && ch.boolean()) {
            recipe.lists.push((lt.clone(), kinds[(i + n) % 3]));
        }
    }
    // trailing blanks are not part of the name (surrounding whitespace is skipped)
    let name = name.trim_end_matches(' ').to_string();
    let expect = registered && valid_name(&name);
    let starred = ch.chance(1, 4);
    let text = if starred { format!("any(ax[*] in ${name})") } else { format!("x in ${name}") };
    let show = || json!({"filter": text, "list_registered_for_type": registered, "lists": recipe.lists.iter().map(|(t, k)| format!("{}:{k:?}", t.show())).collect::<Vec<_>>()});
    let scheme = recipe.build();
    st.eval();
    let res = catch(|| scheme.parse(&text).map(|a| serde_json::to_value(&a).unwrap()).map_err(|e| e.to_string())).map_err(|p| Fail::new("parse-panic", p, show()))?;
    match (res, expect) {
        (Ok(j), true) => {
            // the name reaches the AST without the `$`
            let rhs = if starred { j["arg"]["value"]["rhs"].clone() } else { j["rhs"].clone() };
            if rhs != json!(name) {
                return Err(Fail::new("list-name-mangled", format!("{text:?}: AST carries the name {rhs}"), show()));
            }
            st.class("valid-name-accepted");
        }
        (Err(e), false) => {
            error_wellformed(&text, &e).map_err(|m| Fail::new("malformed-parse-error", format!("{m}\n{e}"), show()))?;
            st.class(if !registered { "rejected-no-list-for-type" } else { "rejected-invalid-name" });
        }
        (Ok(_), false) => {
            return Err(Fail::new(
                "invalid-list-comparison-accepted",
                format!("{text:?} must be rejected ({})", if !registered { "no list registered for the type" } else { "invalid list name" }),
                show(),
            ));
        }
        (Err(e), true) => return Err(Fail::new("valid-list-comparison-rejected", format!("{text:?}:\n{e}"), show())),
    }
    st.nontrivial(&(&text, registered));
    Ok(())
}

// ---------------------------------------------------------------------------
// Histories: matcher state on a context

#[derive(Clone, Debug)]
enum Op {
    Put(usize, String, LV),
    Remove(usize, String),
    Clear,
    RoundTrip(u8),
    CloneAndContinue,
    Exec(usize),
}

fn history_case(ch: &mut Choices<'_>, st: &mut Stats) -> CaseResult {
    let mut arena = Arena::new();
    // scheme: one field per list type, SetList for a generated subset (>=1), Always/Never for the rest
    let mut recipe = Recipe::empty();
    for (i, t) in list_types().iter().enumerate() {
        recipe.fields.push(FieldSpec { name: format!("f{i}"), ty: t.clone(), optional: true });
    }
    let mut order: Vec<usize> = vec![0, 1, 2];
    let k = ch.draw(3);
    order.rotate_left(k);
    if ch.boolean() {
        order.swap(1, 2);
    }
    let forced = ch.draw(3);
    for i in order {
        let kind = if i == forced { ListKind::Set } else { *ch.pick(&[ListKind::Set, ListKind::Set, ListKind::Always, ListKind::Never]) };
        recipe.lists.push((list_types()[i].clone(), kind));
    }
    let names = ["a", "b.c", "x_1"];
    let pool = |ch: &mut Choices<'_>, i: usize| -> LV {
        match i {
            0 => LV::I(*ch.pick(&[0i64, 1, -1, i64::MAX, 42])),
            1 => LV::P(*ch.pick(&[v4(1, 2, 3, 4), v4(10, 0, 0, 1), v6(1), v6(0xffff_0102_0304)])),
            _ => LV::B(ch.pick(&[&b"a"[..], b"", b"\xff\x00", b"hello"]).to_vec()),
        }
    };
    let nops = ch.range(2, 14);
    let mut ops = Vec::new();
    for _ in 0..nops {
        ops.push(match ch.weighted(&[5, 1, 1, 3, 1, 6]) {
            0 => {
                let i = ch.draw(3);
                Op::Put(i, ch.pick(&names).to_string(), pool(ch, i))
            }
            1 => Op::Remove(ch.draw(3), ch.pick(&names).to_string()),
            2 => Op::Clear,
            3 => Op::RoundTrip(ch.draw(3) as u8),
            4 => Op::CloneAndContinue,
            _ => Op::Exec(ch.draw(3)),
        });
    }
    ops.push(Op::Exec(forced));
    // field values
    let vals: Vec<Option<MVal>> = (0..3).map(|i| if ch.chance(1, 6) { None } else { Some(pool(ch, i).to_mval()) }).collect();
    let mctx = MCtx { vals };
    let scheme = recipe.build();
    let mut ec: ExecutionContext<'static> = recipe.make_ctx(&scheme, &mctx, &ListState::new());
    let mut model: ListState = BTreeMap::new();
    let show = |ops: &[Op]| json!({"lists": recipe.lists.iter().map(|(t, k)| format!("{}:{k:?}", t.show())).collect::<Vec<_>>(), "fields": mctx.show(&recipe.fields), "history": ops.iter().map(|o| format!("{o:?}")).collect::<Vec<_>>()});
    let mut saw = BTreeSet::new();
    let mut nontrivial_exec = false;
    for (step, op) in ops.iter().enumerate() {
        let fail = |sig: &str, msg: String| Fail::new(sig, format!("step {step} {op:?}: {msg}"), show(&ops[..=step]));
        match op {
            Op::Put(i, name, v) => {
                let t = &list_types()[*i];
                if recipe.list_kind(t) == Some(ListKind::Set) {
                    let list = scheme.get_list(&t.to_engine()).unwrap();
                    let m = ec.get_list_matcher_mut(list).as_any_mut().downcast_mut::<SetMatcher>().ok_or_else(|| fail("matcher-type", "matcher for a SetList type is not a SetMatcher".into()))?;
                    m.sets.entry(name.clone()).or_default().insert(v.clone());
                    model.entry(t.clone()).or_default().entry(name.clone()).or_default().insert(v.clone());
                }
            }
            Op::Remove(i, name) => {
                let t = &list_types()[*i];
                if recipe.list_kind(t) == Some(ListKind::Set) {
                    let list = scheme.get_list(&t.to_engine()).unwrap();
                    let m = ec.get_list_matcher_mut(list).as_any_mut().downcast_mut::<SetMatcher>().unwrap();
                    m.sets.remove(name);
                    if let Some(s) = model.get_mut(t) {
                        s.remove(name);
                    }
                }
            }
            Op::Clear => {
                ec.clear();
                model.clear();
                // clear also empties the fields: set them again so executions stay meaningful
                for (f, v) in recipe.fields.iter().zip(&mctx.vals) {
                    if let Some(v) = v {
                        ec.set_field_value(scheme.get_field(&f.name).unwrap(), v.to_lhs()).unwrap();
                    }
                }
            }
            Op::RoundTrip(how) => {
                let js = serde_json::to_string(&ec).map_err(|e| fail("serialize-error", e.to_string()))?;
                let js: &'static str = arena.keep_str(js);
                let mut fresh: ExecutionContext<'static> = ExecutionContext::new(&scheme);
                let r = catch(|| match how {
                    0 => fresh.deserialize(&mut serde_json::Deserializer::from_str(js)).map_err(|e| e.to_string()),
                    1 => fresh.deserialize(&mut serde_json::Deserializer::from_slice(js.as_bytes())).map_err(|e| e.to_string()),
                    _ => fresh.deserialize(&mut serde_json::Deserializer::from_reader(js.as_bytes())).map_err(|e| e.to_string()),
                });
                match r {
                    Err(p) => return Err(fail("deserialize-panic", p)),
                    Ok(Err(e)) => return Err(fail("roundtrip-rejected", format!("own serialisation rejected: {e}\n{js}"))),
                    Ok(Ok(())) => {}
                }
                if fresh != ec {
                    return Err(fail("roundtrip-context-differs", format!("deserialised context differs from the original\n{js}")));
                }
                ec = fresh;
                st.class("roundtrip");
            }
            Op::CloneAndContinue => {
                let c = ec.clone_with(());
                if c != ec {
                    return Err(fail("clone-differs", "clone_with gives a different context".into()));
                }
                ec = c;
            }
            Op::Exec(i) => {
                let t = &list_types()[*i];
                let kind = recipe.list_kind(t).unwrap();
                let name = names[(step + i) % 3];
                let text = format!("f{i} in ${name}");
                let f = scheme.parse(&text).map_err(|e| fail("valid-list-comparison-rejected", e.to_string()))?.compile();
                lists::list_log_start();
                let got = catch(|| f.execute(&ec));
                let log = lists::list_log_take();
                let got = got.map_err(|p| fail("execute-panic", p))?.map_err(|e| fail("execute-error", e.to_string()))?;
                let val = &mctx.vals[*i];
                let want = match (val, kind) {
                    (None, _) => false,
                    (Some(_), ListKind::Always) => true,
                    (Some(_), ListKind::Never) => false,
                    (Some(v), ListKind::Set) => model.get(t).and_then(|s| s.get(name)).map(|s| s.contains(&LV::from_mval(v).unwrap())).unwrap_or(false),
                };
                st.eval();
                if got != want {
                    return Err(fail("list-result-mismatch", format!("{text:?} = {got}, the matcher state of this context gives {want}")));
                }
                let want_log: Vec<(String, MVal)> = match (val, kind) {
                    (Some(v), ListKind::Set) => vec![(name.to_string(), v.clone())],
                    _ => vec![],
                };
                if log != want_log {
                    return Err(fail("matcher-query-sequence-mismatch", format!("queries {log:?}, expected {want_log:?}")));
                }
                saw.insert(got);
                if kind == ListKind::Set && !model.is_empty() {
                    nontrivial_exec = true;
                }
                st.class(&format!("exec-{kind:?}"));
            }
        }
    }
    if nontrivial_exec && saw.len() == 2 {
        st.nontrivial(&format!("{ops:?}{:?}", recipe.lists));
        st.sample("history", || show(&ops));
    }
    Ok(())
}

pub fn subs() -> Vec<Sub> {
    vec![
        Sub { name: "filters", f: Box::new(filter_case) },
        Sub { name: "names", f: Box::new(name_case) },
        Sub { name: "history", f: Box::new(history_case) },
    ]
}

pub fn run(run: &Run) {
    run.rule(
        "filters: `lhs in $name` with lhs a field / index path / [*] path under any()/all() / function call, lists registered for Int/Ip/Bytes in a generated order with kinds Set(harness matcher with named sets)/Always/Never, 6 contexts + generated matcher state: result = model lookup, matcher query log = predicted (name, value) sequence; names: generated names over and outside the permitted alphabet x list registered or not: accepted exactly when registered and valid; history: sequences of put/remove/clear/serialise+deserialise (str, slice, reader)/clone/execute on one context against a model of the matcher state; \
         non-trivial (filters) = >= 2 lists registered in an order different from the type order, some queried set non-empty and both outcomes observed over the contexts; (history) = an execution against non-empty Set state with both outcomes observed; (names) every distinct (text, registered) pair",
    );
    run.assume("the harness matcher's own set lookup is trusted; AlwaysList/NeverList semantics are taken from their documentation");
    let subs = subs();
    let get = |n: &str| &*find_sub(&subs, n).unwrap().f;
    run_regressions(run, &subs);
    let n = run.tier.pick(200_000, 10_000_000);
    run.random("filters", n, 250, get("filters"));
    run.random("names", n / 2, 30, get("names"));
    run.random("history", n / 2, 120, get("history"));
}

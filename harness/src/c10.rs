//! C10 - `contains` is exact substring search on every code path.
//!
//! The SIMD-vs-scalar choice is latched once per process from the environment,
//! so the workload runs in two helper processes (`wfcheck --child c10 run ...`,
//! one with `WIREFILTER_USE_AVX2=0`, one with SIMD allowed); each prints a
//! summary that the parent merges.  Every case function is a pure function of
//! its `Choices`; a sub-check named `*-simd` / `*-scalar` that is replayed in a
//! process latched to the other mode re-runs that one case in a helper process
//! of the right mode (`wfcheck --child c10 one ...`).

use crate::ast::quote_bytes;
use crate::choices::Choices;
use crate::engine::catch;
use crate::model::show_bytes;
use crate::runner::*;
use serde_json::{Value, json};
use std::collections::BTreeMap;
use std::sync::atomic::Ordering;
use wirefilter::{ExecutionContext, Filter, LhsValue, Scheme, SchemeBuilder, Type};

const ENV_SWITCH: &str = "WIREFILTER_USE_AVX2";
const ENV_CHILD: &str = "WFCHECK_C10_CHILD";
pub const MAX_NEEDLE: usize = 40;
pub const MAX_HAY: usize = 300;

// ---------------------------------------------------------------------------
// oracle

/// Naive window scan written from the property text.
pub fn naive_contains(h: &[u8], n: &[u8]) -> bool {
    if n.is_empty() {
        return true;
    }
    if h.len() < n.len() {
        return false;
    }
    let mut i = 0;
    while i + n.len() <= h.len() {
        let mut j = 0;
        while j < n.len() && h[i + j] == n[j] {
            j += 1;
        }
        if j == n.len() {
            return true;
        }
        i += 1;
    }
    false
}

/// Shape of one (haystack, needle, anchor) triple - statistics only.
#[derive(Default, Clone, Copy)]
struct Ana {
    shorter: bool,
    first_match: Option<usize>,
    match_at_end: bool,
    false_candidate: bool,
    cross16: bool,
    cross32: bool,
}

/// `anchor == None` (production path, anchor unknown): a false candidate is a
/// position matching the first byte and at least one other needle byte.
fn analyse(h: &[u8], n: &[u8], anchor: Option<usize>) -> Ana {
    let mut a = Ana::default();
    if n.is_empty() {
        a.first_match = Some(0);
        a.match_at_end = h.is_empty();
        return a;
    }
    if h.len() < n.len() {
        a.shorter = true;
        return a;
    }
    let last = h.len() - n.len();
    for p in 0..=last {
        if h[p] != n[0] {
            continue;
        }
        if &h[p..p + n.len()] == n {
            if a.first_match.is_none() {
                a.first_match = Some(p);
            }
            if p == last {
                a.match_at_end = true;
            }
            let e = p + n.len() - 1;
            if p / 16 != e / 16 {
                a.cross16 = true;
            }
            if p / 32 != e / 32 {
                a.cross32 = true;
            }
        } else if n.len() >= 2 {
            let cand = match anchor {
                Some(k) => h[p + k] == n[k],
                None => (1..n.len()).any(|k| h[p + k] == n[k]),
            };
            if cand {
                a.false_candidate = true;
            }
        }
    }
    a
}

// ---------------------------------------------------------------------------
// engine side

fn scheme() -> Scheme {
    let mut b = SchemeBuilder::new();
    b.add_field("s", Type::Bytes).expect("field s");
    b.add_optional_field("a", Type::Array(Type::Bytes.into())).expect("field a");
    b.build()
}

fn simd_active() -> bool {
    wirefilter::verif::simd_contains_active()
}

fn mode_name(active: bool) -> &'static str {
    if active { "avx2" } else { "scalar" }
}

/// Which searcher the documented selection rules pick (class names only).
fn path_name(len: usize, active: bool) -> &'static str {
    match len {
        0 => "path:empty-needle",
        1 => "path:single-byte",
        _ if !active => "path:scalar-memmem",
        2..=16 => "path:simd-fixed-size-2..16",
        _ => "path:simd-boxed->16",
    }
}

struct Hay {
    bytes: Vec<u8>,
    fam: &'static str,
}

fn hay(bytes: Vec<u8>, fam: &'static str) -> Hay {
    Hay { bytes, fam }
}

fn case_json(text: &str, needle: &[u8], anchor: Option<usize>, h: Option<&[u8]>, extra: Value) -> Value {
    let active = simd_active();
    json!({
        "filter": text,
        "needle": show_bytes(needle),
        "needle_len": needle.len(),
        "anchor_override": anchor,
        "haystack": h.map(show_bytes),
        "haystack_len": h.map(|h| h.len()),
        "simd_active": active,
        "mode": mode_name(active),
        "replay_env": if active { format!("{ENV_SWITCH} unset") } else { format!("{ENV_SWITCH}=0") },
        "detail": extra,
    })
}

fn compile(scheme: &Scheme, text: &str, anchor: Option<usize>, needle: &[u8]) -> Result<Filter, Fail> {
    wirefilter::verif::set_contains_anchor(anchor);
    let r = catch(|| scheme.parse(text).map(|ast| ast.compile()).map_err(|e| e.to_string()));
    wirefilter::verif::set_contains_anchor(None);
    match r {
        Ok(Ok(f)) => Ok(f),
        Ok(Err(e)) => Err(Fail::new(
            "contains-literal-rejected",
            format!("parser rejected a well-formed contains filter:\n{e}"),
            case_json(text, needle, anchor, None, Value::Null),
        )),
        Err(p) => Err(Fail::new(
            "contains-compile-panic",
            format!("parse/compile panicked: {p}"),
            case_json(text, needle, anchor, None, Value::Null),
        )),
    }
}

/// Compile `s contains <needle>` (`ncompile` times) and execute it on every
/// haystack; the answers must equal the naive scan.
fn check_needle(
    needle: &[u8],
    anchor: Option<usize>,
    form: u8,
    ncompile: usize,
    hays: &[Hay],
    array_any: bool,
    st: &mut Stats,
) -> CaseResult {
    let active = simd_active();
    let scheme = scheme();
    let lit = quote_bytes(needle, form);
    let text = format!("s contains {lit}");
    let mut filters = Vec::with_capacity(ncompile);
    for _ in 0..ncompile {
        filters.push(compile(&scheme, &text, anchor, needle)?);
    }
    let field = scheme.get_field("s").expect("field s");
    let path = path_name(needle.len(), active);
    let mut counts: BTreeMap<&'static str, u64> = BTreeMap::new();
    let mut truths = Vec::with_capacity(hays.len());
    for h in hays {
        let want = naive_contains(&h.bytes, needle);
        truths.push(want);
        let mut ec: ExecutionContext<'_> = ExecutionContext::new(&scheme);
        ec.set_field_value(field, LhsValue::Bytes(h.bytes.clone().into())).expect("bytes value for a Bytes field");
        for (ci, f) in filters.iter().enumerate() {
            let got = catch(|| f.execute(&ec));
            st.eval();
            let got = match got {
                Err(p) => {
                    return Err(Fail::new(
                        format!("contains-execute-panic/{}", &path[5..]),
                        format!("execution panicked: {p}"),
                        case_json(&text, needle, anchor, Some(&h.bytes), json!({"family": h.fam, "compile_index": ci})),
                    ));
                }
                Ok(Err(e)) => {
                    return Err(Fail::new(
                        "contains-execute-error",
                        e.to_string(),
                        case_json(&text, needle, anchor, Some(&h.bytes), json!({"family": h.fam})),
                    ));
                }
                Ok(Ok(b)) => b,
            };
            if got != want {
                let dir = if want { "false-negative" } else { "false-positive" };
                return Err(Fail::new(
                    format!("contains-{dir}/{}", &path[5..]),
                    format!(
                        "`{}` on a haystack of {} bytes: engine {got}, naive scan {want} (compilation #{ci} of {ncompile}, anchor override {anchor:?}, mode {})",
                        text,
                        h.bytes.len(),
                        mode_name(active)
                    ),
                    case_json(&text, needle, anchor, Some(&h.bytes), json!({"family": h.fam, "expected": want, "got": got, "compile_index": ci, "compilations": ncompile})),
                ));
            }
        }
        // statistics
        let n = filters.len() as u64;
        let a = analyse(&h.bytes, needle, anchor);
        *counts.entry(path).or_insert(0) += n;
        *counts.entry(h.fam).or_insert(0) += n;
        *counts.entry(if want { "truth:true" } else { "truth:false" }).or_insert(0) += n;
        for (c, name) in [
            (a.shorter, "shape:haystack-shorter-than-needle"),
            (a.first_match == Some(0) && !needle.is_empty(), "shape:match-at-offset-0"),
            (a.match_at_end && !needle.is_empty(), "shape:match-at-the-very-end"),
            (a.false_candidate, "nt:false-candidate(first+anchor-byte)"),
            (a.false_candidate && !want, "nt:false-candidate-and-no-match"),
            (a.cross16, "nt:match-crosses-16-byte-boundary"),
            (a.cross32, "nt:match-crosses-32-byte-boundary"),
        ] {
            if c {
                *counts.entry(name).or_insert(0) += n;
            }
        }
        if a.false_candidate || a.cross16 {
            st.nontrivial(&(active, needle, anchor, &h.bytes));
            st.sample(if active { "nontrivial-avx2" } else { "nontrivial-scalar" }, || {
                json!({"filter": text, "anchor": anchor, "haystack": show_bytes(&h.bytes), "result": want, "family": h.fam, "mode": mode_name(active)})
            });
        }
    }
    if array_any {
        // the same searcher reached through `any(a[*] contains ...)`
        let text2 = format!("any(a[*] contains {lit})");
        let f = compile(&scheme, &text2, anchor, needle)?;
        let fa = scheme.get_field("a").expect("field a");
        let arr = wirefilter::Array::try_from_iter(Type::Bytes, hays.iter().map(|h| LhsValue::Bytes(h.bytes.clone().into())))
            .expect("homogeneous array");
        let mut ec: ExecutionContext<'_> = ExecutionContext::new(&scheme);
        ec.set_field_value(fa, LhsValue::Array(arr)).expect("array value");
        ec.set_field_value(field, LhsValue::Bytes(Vec::new().into())).expect("bytes value");
        let want = truths.iter().any(|t| *t);
        let got = catch(|| f.execute(&ec));
        st.eval();
        *counts.entry("form:any(a[*] contains ..)").or_insert(0) += 1;
        let show_arr = || json!(hays.iter().map(|h| show_bytes(&h.bytes)).collect::<Vec<_>>());
        match got {
            Ok(Ok(b)) if b == want => {}
            Ok(Ok(b)) => {
                return Err(Fail::new(
                    "contains-under-any-mismatch",
                    format!("`{text2}`: engine {b}, naive scan over the elements {want}"),
                    case_json(&text2, needle, anchor, None, json!({"array": show_arr(), "element_truths": truths})),
                ));
            }
            Ok(Err(e)) => return Err(Fail::new("contains-execute-error", e.to_string(), case_json(&text2, needle, anchor, None, Value::Null))),
            Err(p) => {
                return Err(Fail::new(
                    "contains-execute-panic/under-any",
                    format!("execution panicked: {p}"),
                    case_json(&text2, needle, anchor, None, json!({"array": show_arr()})),
                ));
            }
        }
    }
    for (k, v) in counts {
        st.class_n(k, v);
    }
    st.class(&format!("needle-len:{:02}", needle.len()));
    Ok(())
}

// ---------------------------------------------------------------------------
// grid: needle length x anchor x needle kind x batch, haystacks by construction

pub const NKINDS: usize = 6;
pub const NBATCH: usize = 6;

/// Deterministic mixing of indices (filler content is a pure function of the key).
fn mix(a: u64, b: u64) -> u64 {
    let mut z = a.wrapping_mul(0x9E37_79B9_7F4A_7C15) ^ b.wrapping_add(0xD1B5_4A32_D192_ED03);
    z = (z ^ (z >> 30)).wrapping_mul(0xBF58_476D_1CE4_E5B9);
    z = (z ^ (z >> 27)).wrapping_mul(0x94D0_49BB_1331_11EB);
    z ^ (z >> 31)
}

fn grid_needle(len: usize, anchor: Option<usize>, kind: usize) -> Vec<u8> {
    let mut n: Vec<u8> = match kind {
        // all bytes distinct
        0 => (0..len).map(|i| b'A' + i as u8).collect(),
        // Thue-Morse word over {a,b}: many repeated factors
        1 => (0..len).map(|i| if (i as u32).count_ones() % 2 == 0 { b'a' } else { b'b' }).collect(),
        // one symbol only
        2 => vec![b'a'; len],
        // first == anchor == last byte, the rest distinct (patched below)
        3 => (0..len).map(|i| b'0' + i as u8).collect(),
        // bytes that need escaping / are not UTF-8 / look negative as i8
        4 => {
            const AWK: [u8; 10] = [0x00, 0xff, 0x80, 0x22, 0x5c, 0x7f, 0x0a, 0xc3, 0x28, 0x20];
            (0..len).map(|i| AWK[(i * 3 + len) % AWK.len()]).collect()
        }
        // ternary pseudo-random word
        _ => (0..len).map(|i| b"abc"[(mix(len as u64, i as u64) % 3) as usize]).collect(),
    };
    if kind == 3 && len >= 1 {
        n[0] = b'x';
        n[len - 1] = b'x';
        if let Some(a) = anchor {
            n[a] = b'x';
        }
    }
    n
}

fn foreign_byte(needle: &[u8]) -> u8 {
    for c in [b'.', b'-', b'_', b'~', b'#'] {
        if !needle.contains(&c) {
            return c;
        }
    }
    (1..=255u8).find(|c| !needle.contains(c)).unwrap_or(0)
}

fn alphabet(needle: &[u8]) -> Vec<u8> {
    let mut alpha: Vec<u8> = needle.to_vec();
    alpha.sort_unstable();
    alpha.dedup();
    alpha
}

/// A byte different from `orig`, preferring the needle's own alphabet `alpha`.
fn other_byte(alpha: &[u8], orig: u8, foreign: u8, salt: u64) -> u8 {
    let n = alpha.len() - alpha.contains(&orig) as usize;
    if n == 0 || salt % 3 == 0 {
        if foreign != orig { foreign } else { orig ^ 1 }
    } else {
        let k = (salt as usize / 3) % n;
        *alpha.iter().filter(|c| **c != orig).nth(k).unwrap()
    }
}

fn filler(needle: &[u8], anchor: Option<usize>, style: usize, seed: u64, len: usize) -> Vec<u8> {
    let f = foreign_byte(needle);
    match style {
        0 => vec![f; len],
        1 => {
            let mut alpha: Vec<u8> = needle.to_vec();
            alpha.push(f);
            alpha.sort_unstable();
            alpha.dedup();
            (0..len).map(|i| alpha[(mix(seed, i as u64) % alpha.len() as u64) as usize]).collect()
        }
        _ => {
            // flood of the needle's first byte mixed with its anchor byte: many false candidates
            let n0 = needle.first().copied().unwrap_or(f);
            let na = anchor.map(|a| needle[a]).or(needle.last().copied()).unwrap_or(f);
            (0..len)
                .map(|i| match mix(seed, i as u64) % 5 {
                    0 => na,
                    1 => f,
                    _ => n0,
                })
                .collect()
        }
    }
}

fn extras(len: usize) -> Vec<usize> {
    let mut ks: Vec<usize> = (0..=40).collect();
    ks.extend([47, 48, 49, 63, 64, 65, 71, 95, 96, 97, 127, 128, 129, 191, 255, 256, 257]);
    ks.push(MAX_HAY.saturating_sub(len));
    ks.retain(|k| len + k <= MAX_HAY);
    ks.sort_unstable();
    ks.dedup();
    ks
}

fn grid_hays(needle: &[u8], anchor: Option<usize>, batch: usize) -> Vec<Hay> {
    let len = needle.len();
    let style = batch % 3;
    let seed = mix(batch as u64, len as u64 * 64 + anchor.unwrap_or(0) as u64);
    let f = foreign_byte(needle);
    let alpha = alphabet(needle);
    let mut out = Vec::new();
    for k in extras(len) {
        let total = len + k;
        let base = filler(needle, anchor, style, seed ^ k as u64, total);
        out.push(hay(base.clone(), "hay:filler-only"));
        if len == 0 {
            continue;
        }
        let mut offs = vec![0, 1.min(k), k / 2, k.saturating_sub(1), k];
        if batch >= 3 {
            // second half of the batches: other interior offsets
            offs = vec![k / 3, (2 * k) / 3, k.saturating_sub(2), k.min(15), k.min(16), k.min(31), k.min(32)];
        }
        offs.sort_unstable();
        offs.dedup();
        for o in offs {
            let mut h = base.clone();
            h[o..o + len].copy_from_slice(needle);
            out.push(hay(h.clone(), if k == 0 { "hay:equals-needle" } else { "hay:needle-embedded" }));
            // near-misses: one byte of the embedded copy altered
            let mut spots: Vec<(usize, &'static str)> = vec![(0, "hay:near-miss-first-byte"), (len - 1, "hay:near-miss-last-byte")];
            if let Some(a) = anchor {
                spots.push((a, "hay:near-miss-anchor-byte"));
            }
            if len >= 3 {
                spots.push((1 + (o + k) % (len - 2), "hay:near-miss-inner-byte"));
            }
            for (i, (pos, fam)) in spots.into_iter().enumerate() {
                // two of the four kinds per placement, alternating with (k, o)
                if (i + k + o) % 2 == 1 {
                    continue;
                }
                let mut m = h.clone();
                m[o + pos] = other_byte(&alpha, needle[pos], f, (o + k + i) as u64);
                out.push(hay(m, fam));
            }
        }
    }
    if len >= 1 {
        // haystack shorter than the needle: every proper prefix and suffix
        for j in 0..len {
            out.push(hay(needle[..j].to_vec(), "hay:shorter-prefix-of-needle"));
            if j >= 1 {
                out.push(hay(needle[j..].to_vec(), "hay:shorter-suffix-of-needle"));
            }
        }
        // the haystack ends in the middle of an occurrence
        for k in [0usize, 1, 2, 7, 15, 16, 17, 31, 32, 33, 63, 64, 100] {
            let mut js = vec![1, len - 1, len / 2];
            if let Some(a) = anchor {
                js.push(a);
                js.push(a + 1);
            }
            js.sort_unstable();
            js.dedup();
            for j in js {
                if j == 0 || j >= len || k + j > MAX_HAY {
                    continue;
                }
                let mut h = filler(needle, anchor, style, seed ^ 0x55 ^ k as u64, k);
                h.extend_from_slice(&needle[..j]);
                out.push(hay(h, "hay:truncated-occurrence-at-end"));
            }
        }
        // near-miss first, true occurrence later (and the reverse)
        for k in [1usize, 15, 16, 17, 31, 32, 33, 64, 90] {
            if 2 * len + k > MAX_HAY {
                continue;
            }
            let mut miss = needle.to_vec();
            let pos = anchor.unwrap_or(len - 1);
            miss[pos] = other_byte(&alpha, needle[pos], f, k as u64);
            let fill = filler(needle, anchor, style, seed ^ 0xAA ^ k as u64, k);
            let mut h = miss.clone();
            h.extend_from_slice(&fill);
            h.extend_from_slice(needle);
            out.push(hay(h, "hay:near-miss-then-occurrence"));
            let mut h = needle.to_vec();
            h.extend_from_slice(&fill);
            h.extend_from_slice(&miss);
            out.push(hay(h, "hay:occurrence-then-near-miss"));
        }
        // overlapping copies of the needle without its last / first byte
        for reps in [2usize, 3, 5, 9] {
            if (len - 1) * reps <= MAX_HAY && len >= 2 {
                let mut h = Vec::new();
                for _ in 0..reps {
                    h.extend_from_slice(&needle[..len - 1]);
                }
                out.push(hay(h, "hay:repeated-needle-without-last-byte"));
                let mut h = Vec::new();
                for _ in 0..reps {
                    h.extend_from_slice(&needle[1..]);
                }
                out.push(hay(h, "hay:repeated-needle-without-first-byte"));
            }
        }
    }
    if let Some(a) = anchor {
        // planted decoys: first byte and anchor byte in place, nothing else
        for k in [3usize, 8, 16, 32, 33, 64, 100, 200] {
            if len + k > MAX_HAY {
                continue;
            }
            for with_match in [false, true] {
                let mut h = vec![f; len + k];
                for p in [0usize, 1, 7, 15, 16, 17, 31, 32, 33, 63, 64, k] {
                    if p <= k {
                        h[p] = needle[0];
                        h[p + a] = needle[a];
                    }
                }
                if with_match {
                    h[k..k + len].copy_from_slice(needle);
                }
                out.push(hay(h, "hay:planted-decoys"));
            }
        }
    }
    // small-alphabet noise
    for (i, l) in [0usize, 1, 2, 3, 5, 8, 13, 16, 21, 32, 34, 55, 64, 89, 128, 144, 233, 300].into_iter().enumerate() {
        let alpha: &[u8] = if (i + batch) % 2 == 0 { b"ab" } else { b"abc" };
        let h: Vec<u8> = (0..l).map(|j| alpha[(mix(seed ^ 0x77 ^ l as u64, j as u64) % alpha.len() as u64) as usize]).collect();
        out.push(hay(h, "hay:small-alphabet-noise"));
    }
    out
}

fn anchors_of(len: usize) -> usize {
    if len >= 2 { len - 1 } else { 1 }
}

/// key: [needle length 0..=40, anchor index (anchor = index+1), needle kind, batch]
fn grid_case(ch: &mut Choices<'_>, st: &mut Stats) -> CaseResult {
    let len = ch.draw(MAX_NEEDLE + 1);
    let ai = ch.draw(anchors_of(len));
    let kind = ch.draw(NKINDS);
    let batch = ch.draw(NBATCH);
    let anchor = if len >= 2 { Some(ai + 1) } else { None };
    let needle = grid_needle(len, anchor, kind);
    let hays = grid_hays(&needle, anchor, batch);
    st.class(&format!("grid-needle-kind:{kind}"));
    check_needle(&needle, anchor, ((kind + batch) % 2) as u8, 1, &hays, false, st)
}

const FOCUS_LENS: [usize; 10] = [0, 1, 2, 3, 8, 15, 16, 17, 32, 40];

/// Every needle length x every anchor in both tiers.  Quick: one needle kind
/// (rotating) per (length, anchor), all six kinds for the focus lengths, one
/// batch each.  Thorough: all six kinds everywhere with one rotating batch,
/// and all six batches for the focus lengths.
fn grid_keys(tier: Tier) -> Vec<Vec<u32>> {
    let mut keys = Vec::new();
    for len in 0..=MAX_NEEDLE {
        let focus = FOCUS_LENS.contains(&len);
        for ai in 0..anchors_of(len) {
            for kind in 0..NKINDS {
                let rot = (len + ai + kind) % NBATCH;
                match tier {
                    Tier::Quick => {
                        if focus || kind == (len + ai) % NKINDS {
                            keys.push(vec![len as u32, ai as u32, kind as u32, rot as u32]);
                        }
                    }
                    Tier::Thorough => {
                        for b in 0..NBATCH {
                            if focus || b == rot {
                                keys.push(vec![len as u32, ai as u32, kind as u32, b as u32]);
                            }
                        }
                    }
                }
            }
        }
    }
    keys
}

// ---------------------------------------------------------------------------
// random needles and haystacks drawn from the choice sequence

fn sym(alpha: usize, ch: &mut Choices<'_>) -> u8 {
    if alpha >= 256 { ch.byte() } else { b"abcd"[ch.draw(alpha)] }
}

/// `len` symbols; one raw choice supplies 16 two-bit symbols (or 4 bytes).
fn noise(ch: &mut Choices<'_>, alpha: usize, len: usize) -> Vec<u8> {
    let mut out = Vec::with_capacity(len);
    while out.len() < len {
        let mut r = ch.raw();
        if alpha >= 256 {
            for _ in 0..4 {
                out.push((r & 0xff) as u8);
                r >>= 8;
            }
        } else {
            for _ in 0..16 {
                out.push(b"abcd"[(r & 3) as usize % alpha]);
                r >>= 2;
            }
        }
    }
    out.truncate(len);
    out
}

fn hay_len(ch: &mut Choices<'_>, nlen: usize) -> usize {
    match ch.weighted(&[3, 3, 2, 2]) {
        0 => ch.draw(MAX_HAY + 1),
        1 => (nlen + ch.draw(40)).min(MAX_HAY),
        2 => (nlen + *ch.pick(&[0usize, 1, 2, 3, 6, 7, 8, 14, 15, 16, 30, 31, 32, 33, 62, 63, 64, 65])).min(MAX_HAY),
        _ => *ch.pick(&[0usize, 1, 15, 16, 17, 31, 32, 33, 47, 48, 63, 64, 65, 127, 128, 129, 255, 256, 299, 300]),
    }
}

fn random_hay(ch: &mut Choices<'_>, needle: &[u8], anchor: Option<usize>, alpha: usize) -> Hay {
    let n = needle.len();
    let total = hay_len(ch, n);
    match ch.weighted(&[2, 4, 4, 2, 1, 1]) {
        0 => hay(noise(ch, alpha, total), "hay:random-noise"),
        t @ (1 | 2) => {
            let mut h = noise(ch, alpha, total);
            if n == 0 || total < n {
                return hay(h, "hay:random-noise");
            }
            let o = match ch.draw(4) {
                0 => 0,
                1 => total - n,
                _ => ch.draw(total - n + 1),
            };
            h[o..o + n].copy_from_slice(needle);
            if t == 1 {
                return hay(h, "hay:needle-embedded");
            }
            let (pos, fam) = match ch.draw(4) {
                0 => (0, "hay:near-miss-first-byte"),
                1 => (n - 1, "hay:near-miss-last-byte"),
                2 => (anchor.unwrap_or(n - 1), "hay:near-miss-anchor-byte"),
                _ => (ch.draw(n), "hay:near-miss-inner-byte"),
            };
            let orig = needle[pos];
            let mut c = sym(alpha, ch);
            if c == orig {
                c = if alpha == 1 { b'.' } else if alpha >= 256 { orig ^ 0x80 } else { b"abcd"[((orig - b'a') as usize + 1) % alpha] };
            }
            h[o + pos] = c;
            hay(h, fam)
        }
        3 => {
            // a prefix of the needle repeated
            if n == 0 {
                return hay(noise(ch, alpha, total), "hay:random-noise");
            }
            let p = 1 + ch.draw(n);
            let h: Vec<u8> = (0..total).map(|i| needle[i % p]).collect();
            hay(h, "hay:repeated-needle-prefix")
        }
        4 => {
            if n == 0 {
                return hay(Vec::new(), "hay:random-noise");
            }
            let j = ch.draw(n);
            hay(needle[..j].to_vec(), "hay:shorter-prefix-of-needle")
        }
        _ => {
            if n == 0 {
                return hay(Vec::new(), "hay:random-noise");
            }
            let j = 1 + ch.draw(n);
            hay(needle[j.min(n)..].to_vec(), "hay:shorter-suffix-of-needle")
        }
    }
}

fn random_needle(ch: &mut Choices<'_>) -> (Vec<u8>, Option<usize>, usize) {
    let len = match ch.weighted(&[3, 2]) {
        0 => *ch.pick(&[0usize, 1, 2, 3, 4, 7, 8, 9, 15, 16, 17, 18, 31, 32, 33, 39, 40]),
        _ => ch.draw(MAX_NEEDLE + 1),
    };
    let alpha = [2usize, 3, 1, 4, 256][ch.weighted(&[4, 3, 1, 2, 3])];
    let needle: Vec<u8> = (0..len).map(|_| sym(alpha, ch)).collect();
    let anchor = if len >= 2 { Some(1 + ch.draw(len - 1)) } else { None };
    (needle, anchor, alpha)
}

const RANDOM_HAYS: usize = 12;

fn random_case(ch: &mut Choices<'_>, st: &mut Stats) -> CaseResult {
    let (needle, anchor, alpha) = random_needle(ch);
    let form = ch.draw(3) as u8;
    let hays: Vec<Hay> = (0..RANDOM_HAYS).map(|_| random_hay(ch, &needle, anchor, alpha)).collect();
    check_needle(&needle, anchor, form, 1, &hays, true, st)
}

/// The production path: no anchor override, the same filter compiled 8 times.
fn production_case(ch: &mut Choices<'_>, st: &mut Stats) -> CaseResult {
    let (needle, anchor, alpha) = random_needle(ch);
    let form = ch.draw(3) as u8;
    // haystacks are still built around the drawn position so that near-misses exist for some anchor
    let hays: Vec<Hay> = (0..RANDOM_HAYS).map(|_| random_hay(ch, &needle, anchor, alpha)).collect();
    check_needle(&needle, None, form, 8, &hays, false, st)
}

/// Long needles around internal size thresholds (64, 128, 256, 512 ...) with a
/// rare byte far into the pattern, on haystacks where the occurrence sits at
/// the very start / end or is missed by one byte.
fn long_case(ch: &mut Choices<'_>, st: &mut Stats) -> CaseResult {
    let len = match ch.weighted(&[5, 2]) {
        0 => *ch.pick(&[41usize, 48, 63, 64, 65, 100, 127, 128, 129, 200, 254, 255, 256, 257, 258, 300, 400, 511, 512, 513, 600, 1000]),
        _ => 41 + ch.draw(700),
    };
    let alpha = *ch.pick(&[1usize, 2, 3, 26]);
    let mut needle: Vec<u8> = (0..len).map(|_| b'a' + ch.draw(alpha) as u8).collect();
    // one or two rare bytes at chosen depths
    let spots = [0usize, 1, len / 2, len.saturating_sub(40), len - 2, len - 1, 255.min(len - 1), 256.min(len - 1), 280.min(len - 1)];
    let nrare = ch.range(1, 2);
    let mut rare_at = Vec::new();
    for _ in 0..nrare {
        let i = *ch.pick(&spots);
        needle[i] = *ch.pick(&[b'Q', b'Z', 0xff, 0x00, b'#']);
        rare_at.push(i);
    }
    let anchor = Some(1 + ch.draw(len - 1));
    let form = ch.draw(3) as u8;
    let noise = |ch: &mut Choices<'_>, n: usize| -> Vec<u8> { (0..n).map(|_| b'a' + ch.draw(alpha.max(2)) as u8).collect() };
    let mut hays: Vec<Hay> = Vec::new();
    hays.push(hay(needle.clone(), "exact"));
    for pre in [1usize, 15, 16, 31, 255, 256, 300] {
        let mut h = noise(ch, pre);
        h.extend_from_slice(&needle);
        hays.push(hay(h, "at-end"));
    }
    for suf in [1usize, 17, 256] {
        let mut h = needle.clone();
        h.extend(noise(ch, suf));
        hays.push(hay(h, "at-start"));
    }
    {
        let mut h = noise(ch, 40);
        h.extend_from_slice(&needle);
        h.extend(noise(ch, 40));
        hays.push(hay(h, "inside"));
    }
    // near misses: a rare byte / the first / the last byte changed, one byte missing
    for &i in rare_at.iter().chain([0usize, len - 1].iter()) {
        let mut h = noise(ch, 20);
        let mut n2 = needle.clone();
        n2[i] = if n2[i] == b'a' { b'b' } else { b'a' };
        h.extend_from_slice(&n2);
        h.extend(noise(ch, 20));
        hays.push(hay(h, "near-miss"));
    }
    {
        let mut h = noise(ch, 10);
        h.extend_from_slice(&needle[..len - 1]);
        hays.push(hay(h, "cut-off"));
        let mut h2 = needle[1..].to_vec();
        h2.extend(noise(ch, 10));
        hays.push(hay(h2, "first-byte-missing"));
    }
    // near miss followed by a real occurrence
    {
        let mut n2 = needle.clone();
        n2[rare_at[0]] = b'a';
        let mut h = n2;
        h.extend_from_slice(&needle);
        hays.push(hay(h, "near-miss-then-hit"));
    }
    st.class(match len {
        0..=64 => "long-needle-41..64",
        65..=255 => "long-needle-65..255",
        256..=512 => "long-needle-256..512",
        _ => "long-needle-513+",
    });
    check_needle(&needle, anchor, form, 1, &hays, false, st)
}

/// Sibling patterns alive together (production path, no anchor override): a
/// base pattern and patterns that differ from it in one bit (first, middle and
/// last byte; low, middle and high bit), by one appended / dropped byte or by
/// trailing NULs are compiled in a drawn order and all kept; every filter must
/// answer for every sibling's occurrences as the naive scan does, before and
/// after some of them are dropped and compiled again.  Also: one-byte patterns
/// (incl. 0x00 and 0xff) on short haystacks that do not contain the byte.
fn siblings_case(ch: &mut Choices<'_>, st: &mut Stats) -> CaseResult {
    let len = match ch.weighted(&[4, 2, 1]) {
        0 => *ch.pick(&[1usize, 2, 3, 4, 7, 8, 9, 15, 16, 17, 31, 32, 33]),
        1 => 1 + ch.draw(40),
        _ => *ch.pick(&[63usize, 64, 65, 128]),
    };
    let alpha = *ch.pick(&[2usize, 4, 26]);
    let mut base: Vec<u8> = (0..len).map(|_| b'a' + ch.draw(alpha) as u8).collect();
    if ch.chance(1, 4) {
        let i = ch.draw(len);
        base[i] = *ch.pick(&[0x00u8, 0xff, 0x80, b'/', b'.']);
    }
    let mut sibs: Vec<Vec<u8>> = vec![base.clone()];
    let nsib = ch.range(2, 6);
    for _ in 0..nsib {
        let mut v = base.clone();
        match ch.weighted(&[6, 1, 1, 1]) {
            0 => {
                let at = *ch.pick(&[0usize, len / 2, len - 1, len - 1]);
                v[at] ^= 1 << ch.draw(8);
            }
            1 => v.push(*ch.pick(&[0x00u8, b'a', 0xff])),
            2 => {
                if v.len() > 1 {
                    v.pop();
                }
            }
            _ => {
                v.push(0);
                v.push(0);
            }
        }
        if !sibs.contains(&v) {
            sibs.push(v);
        }
    }
    let scheme = scheme();
    let field = scheme.get_field("s").expect("field s");
    let texts: Vec<String> = sibs.iter().map(|n| format!("s contains {}", quote_bytes(n, ch.draw(3) as u8))).collect();
    // compile order
    let mut order: Vec<usize> = (0..sibs.len()).collect();
    if ch.boolean() {
        order.reverse();
    }
    let mut filters: Vec<Option<Filter>> = (0..sibs.len()).map(|_| None).collect();
    for &i in &order {
        filters[i] = Some(compile(&scheme, &texts[i], None, &sibs[i])?);
    }
    // haystacks: every sibling alone, embedded, and short strings free of the (one-byte) pattern
    let mut hays: Vec<Vec<u8>> = Vec::new();
    for n in &sibs {
        hays.push(n.clone());
        let mut h = vec![b'x'; 1 + ch.draw(20)];
        h.extend_from_slice(n);
        h.extend(std::iter::repeat_n(b'y', ch.draw(20)));
        hays.push(h);
    }
    if len == 1 {
        for l in 0..=20usize {
            hays.push(vec![if base[0] == b'q' { b'r' } else { b'q' }; l]);
        }
    }
    let active = simd_active();
    let round = |filters: &Vec<Option<Filter>>, phase: &str, st: &mut Stats| -> CaseResult {
        for h in &hays {
            let mut ec: ExecutionContext<'_> = ExecutionContext::new(&scheme);
            ec.set_field_value(field, LhsValue::Bytes(h.clone().into())).expect("bytes value for a Bytes field");
            for (i, f) in filters.iter().enumerate() {
                let Some(f) = f else { continue };
                let want = naive_contains(h, &sibs[i]);
                st.eval();
                let got = catch(|| f.execute(&ec));
                if !matches!(got, Ok(Ok(b)) if b == want) {
                    let dir = if want { "false-negative" } else { "false-positive" };
                    return Err(Fail::new(
                        format!("contains-{dir}/siblings"),
                        format!("`{}` ({phase}; {} sibling patterns compiled in this process, mode {}): engine {got:?}, naive scan {want}", texts[i], sibs.len(), mode_name(active)),
                        json!({"filters_alive_together": texts, "compile_order": order, "failing_filter": texts[i], "haystack": show_bytes(h), "expected": want}),
                    ));
                }
            }
        }
        Ok(())
    };
    round(&filters, "all alive", st)?;
    // the same comparisons joined in one filter: each keeps its own answer
    {
        let (i, j) = (ch.draw(sibs.len()), ch.draw(sibs.len()));
        let op = *ch.pick(&["and", "or", "xor", "&&", "||", "^^"]);
        let lit = |k: usize| texts[k].trim_start_matches("s contains ").to_string();
        let text = match ch.draw(3) {
            0 => format!("s contains {} {op} s contains {}", lit(i), lit(j)),
            1 => format!("s contains {} {op} not s contains {}", lit(i), lit(j)),
            _ => format!("s contains {} {op} s contains {} {op} s contains {}", lit(i), lit(j), lit(i)),
        };
        let shape = if text.contains(" not ") { 1 } else if text.matches("contains").count() == 3 { 2 } else { 0 };
        let f = compile(&scheme, &text, None, &sibs[i])?;
        for h in &hays {
            let (a, b) = (naive_contains(h, &sibs[i]), naive_contains(h, &sibs[j]));
            let join = |x: bool, y: bool| match op {
                "and" | "&&" => x && y,
                "or" | "||" => x || y,
                _ => x != y,
            };
            let want = match shape {
                0 => join(a, b),
                1 => join(a, !b),
                _ => join(join(a, b), a),
            };
            let mut ec: ExecutionContext<'_> = ExecutionContext::new(&scheme);
            ec.set_field_value(field, LhsValue::Bytes(h.clone().into())).expect("bytes value for a Bytes field");
            st.eval();
            let got = catch(|| f.execute(&ec));
            if !matches!(got, Ok(Ok(b)) if b == want) {
                return Err(Fail::new(
                    "contains-in-chain-mismatch/siblings",
                    format!("`{text}`: engine {got:?}, naive scans joined give {want}"),
                    json!({"filter": text, "haystack": show_bytes(h), "expected": want}),
                ));
            }
        }
        st.class("siblings:joined-in-one-filter");
    }
    // drop some, compile them again (others still alive), check again
    for i in 0..filters.len() {
        if ch.boolean() {
            filters[i] = None;
        }
    }
    round(&filters, "after dropping some", st)?;
    for i in 0..filters.len() {
        if filters[i].is_none() {
            filters[i] = Some(compile(&scheme, &texts[i], None, &sibs[i])?);
        }
    }
    round(&filters, "after recompiling the dropped ones", st)?;
    st.class(&format!("siblings:len-{}", if len <= 16 { "1..16" } else if len <= 32 { "17..32" } else { "33+" }));
    if len == 1 {
        st.class("siblings:one-byte-pattern-on-short-haystacks");
    }
    st.nontrivial(&(active, &sibs, &order));
    st.sample("siblings", || json!({"filters_alive_together": texts, "mode": mode_name(active)}));
    Ok(())
}

fn base_fn(base: &str) -> Option<fn(&mut Choices<'_>, &mut Stats) -> CaseResult> {
    match base {
        "siblings" => Some(siblings_case),
        "long" => Some(long_case),
        "grid" => Some(grid_case),
        "random" => Some(random_case),
        "production" => Some(production_case),
        _ => None,
    }
}

// ---------------------------------------------------------------------------
// mode handling

fn mode_env(want_simd: bool) -> Vec<(&'static str, String)> {
    let mut envs: Vec<(&'static str, String)> = vec![(ENV_CHILD, "1".to_string())];
    if !want_simd {
        envs.push((ENV_SWITCH, "0".to_string()));
    } else if std::env::var_os(ENV_SWITCH).is_some() {
        // the variable cannot be removed through spawn_child; any value outside
        // the documented "0/no/false" leaves SIMD enabled
        envs.push((ENV_SWITCH, "1".to_string()));
    }
    envs
}

fn remaining(ch: &Choices<'_>) -> Vec<u32> {
    let mut c = ch.clone();
    let mut v = Vec::new();
    while !c.exhausted() {
        v.push(c.raw());
    }
    v
}

/// Run `base` in a process whose latch equals `want_simd`: directly when this
/// process qualifies (or is itself a helper), else in a helper process.
fn in_mode(want_simd: bool, base: &'static str, ch: &mut Choices<'_>, st: &mut Stats) -> CaseResult {
    let f = base_fn(base).expect("known base");
    if simd_active() == want_simd || std::env::var_os(ENV_CHILD).is_some() {
        return f(ch, st);
    }
    let choices = remaining(ch);
    let envs = mode_env(want_simd);
    let envs: Vec<(&str, &str)> = envs.iter().map(|(k, v)| (*k, v.as_str())).collect();
    let exact = if ch.is_exact() { "1" } else { "0" };
    let input = serde_json::to_vec(&choices).unwrap();
    let (code, sig, out, err) = spawn_child(&["c10", "one", base, exact], &envs, Some(&input));
    let parsed: Option<Value> = serde_json::from_slice(&out).ok();
    match (code, parsed) {
        (Some(0), Some(v)) if v["ok"] == json!(true) => {
            st.eval();
            st.class("replayed-in-helper-process");
            Ok(())
        }
        (Some(1), Some(v)) if v["fail"].is_object() => Err(Fail::new(
            v["fail"]["sig"].as_str().unwrap_or("?").to_string(),
            v["fail"]["msg"].as_str().unwrap_or("?").to_string(),
            v["fail"]["case"].clone(),
        )),
        _ => Err(Fail::new(
            "contains-helper-process-died",
            format!("helper process for mode {} ended with code {code:?} signal {sig:?}: {}", mode_name(want_simd), String::from_utf8_lossy(&err)),
            json!({"sub": base, "choices": choices}),
        )),
    }
}

pub fn subs() -> Vec<Sub> {
    vec![
        Sub { name: "grid-simd", f: Box::new(|ch, st| in_mode(true, "grid", ch, st)) },
        Sub { name: "grid-scalar", f: Box::new(|ch, st| in_mode(false, "grid", ch, st)) },
        Sub { name: "random-simd", f: Box::new(|ch, st| in_mode(true, "random", ch, st)) },
        Sub { name: "random-scalar", f: Box::new(|ch, st| in_mode(false, "random", ch, st)) },
        Sub { name: "long-simd", f: Box::new(|ch, st| in_mode(true, "long", ch, st)) },
        Sub { name: "long-scalar", f: Box::new(|ch, st| in_mode(false, "long", ch, st)) },
        Sub { name: "production-simd", f: Box::new(|ch, st| in_mode(true, "production", ch, st)) },
        Sub { name: "production-scalar", f: Box::new(|ch, st| in_mode(false, "production", ch, st)) },
        Sub { name: "siblings-simd", f: Box::new(|ch, st| in_mode(true, "siblings", ch, st)) },
        Sub { name: "siblings-scalar", f: Box::new(|ch, st| in_mode(false, "siblings", ch, st)) },
    ]
}

fn tier_of(s: &str) -> Tier {
    if s == "thorough" { Tier::Thorough } else { Tier::Quick }
}

/// The whole workload of one mode (runs inside a helper process).
fn workload(run: &Run, suffix: &str) {
    let keys = grid_keys(run.tier);
    run.enumerate(&format!("grid-{suffix}"), keys.len() as u64, &|i| keys[i as usize].clone(), &grid_case);
    let n = run.tier.pick(50_000, 500_000);
    run.random(&format!("random-{suffix}"), n, 700, &random_case);
    let n = run.tier.pick(5_000, 40_000);
    run.random(&format!("production-{suffix}"), n, 700, &production_case);
    let n = run.tier.pick(4_000, 60_000);
    run.random(&format!("long-{suffix}"), n, 2400, &long_case);
    let n = run.tier.pick(20_000, 400_000);
    run.random(&format!("siblings-{suffix}"), n, 200, &siblings_case);
}

/// Helper-process entry (`wfcheck --child c10 <args>`; `args` start after "c10"):
/// `run <tier> <seed>` | `one <base> <exact>` (choices as JSON on stdin).
pub fn child(args: &[String]) -> i32 {
    use std::io::{Read, Write};
    crate::engine::quiet_panics();
    match args.first().map(|s| s.as_str()) {
        Some("one") => {
            let Some(f) = args.get(1).and_then(|b| base_fn(b)) else { return 2 };
            let exact = args.get(2).map(|s| s == "1").unwrap_or(false);
            let mut input = Vec::new();
            let _ = std::io::stdin().read_to_end(&mut input);
            let Ok(choices) = serde_json::from_slice::<Vec<u32>>(&input) else { return 2 };
            let mut ch = if exact { Choices::exact(&choices) } else { Choices::new(&choices) };
            let mut st = Stats::default();
            let f: &CaseFn<'_> = &f;
            match run_case(f, &mut ch, &mut st) {
                Ok(()) => {
                    println!("{}", json!({"ok": true, "simd_active": simd_active()}));
                    0
                }
                Err(fail) => {
                    println!("{}", json!({"fail": {"sig": fail.sig, "msg": fail.msg, "case": fail.case}, "simd_active": simd_active()}));
                    1
                }
            }
        }
        Some("run") => {
            let tier = tier_of(args.get(1).map(|s| s.as_str()).unwrap_or("quick"));
            let seed: u64 = args.get(2).and_then(|s| s.parse().ok()).unwrap_or(1);
            let active = simd_active();
            let run = Run::new("C10", tier, seed);
            workload(&run, if active { "simd" } else { "scalar" });
            let st = run.stats.lock().unwrap();
            let viol: Vec<Value> = run
                .violations
                .lock()
                .unwrap()
                .iter()
                .map(|v| json!({"sub": v.sub, "sig": v.fail.sig, "msg": v.fail.msg, "case": v.fail.case, "choices": v.choices, "exact": v.exact}))
                .collect();
            let hashes: Vec<u64> = st.nontrivial.iter().copied().collect();
            let summary = json!({
                "simd_active": active,
                "sub_evals": *run.sub_evals.lock().unwrap(),
                "classes": st.classes,
                "samples": st.samples,
                "excluded": st.excluded,
                "violations": viol,
                "inconclusive": run.inconclusive.load(Ordering::Relaxed),
                "exhaustive_all": run.exhaustive_all.load(Ordering::Relaxed),
                "nontrivial": hashes.len(),
            });
            let so = std::io::stdout();
            let mut so = so.lock();
            let _ = writeln!(so, "{summary}");
            let mut raw = Vec::with_capacity(hashes.len() * 8);
            for h in hashes {
                raw.extend_from_slice(&h.to_le_bytes());
            }
            let _ = so.write_all(&raw);
            let _ = so.flush();
            0
        }
        _ => 2,
    }
}

/// Parent side: start the helper of one mode and merge what it reports.
fn run_mode(run: &Run, want_simd: bool, threads: usize) -> Option<bool> {
    let mut envs = mode_env(want_simd);
    envs.push(("VERIF_THREADS", threads.to_string()));
    let envs: Vec<(&str, &str)> = envs.iter().map(|(k, v)| (*k, v.as_str())).collect();
    let seed = run.seed.to_string();
    let (code, sig, out, err) = spawn_child(&["c10", "run", run.tier.name(), &seed], &envs, None);
    let label = mode_name(want_simd);
    if let Some(s) = sig {
        // a crash inside the (unsafe) search code is a violation of the property, not an infrastructure problem
        run.push_violation(Violation {
            sub: format!("grid-{}", if want_simd { "simd" } else { "scalar" }),
            fail: Fail::new(
                format!("contains-process-killed-by-signal/{label}"),
                format!("the helper process running the {label} workload was killed by signal {s}; stderr tail: {}", tail(&err)),
                json!({"mode": label, "signal": s}),
            ),
            choices: vec![],
            exact: true,
        });
        return None;
    }
    let nl = out.iter().position(|b| *b == b'\n');
    let parsed: Option<Value> = nl.and_then(|p| serde_json::from_slice(&out[..p]).ok());
    let (Some(0), Some(nl), Some(v)) = (code, nl, parsed) else {
        eprintln!("C10: helper process ({label}) failed: code {code:?}; stderr tail: {}", tail(&err));
        run.inconclusive.store(true, Ordering::Relaxed);
        return None;
    };
    let active = v["simd_active"].as_bool().unwrap_or(false);
    let mut st = Stats::default();
    if let Some(c) = v["classes"].as_object() {
        for (k, n) in c {
            st.class_n(k, n.as_u64().unwrap_or(0));
        }
    }
    if let Some(s) = v["samples"].as_object() {
        for (k, arr) in s {
            for x in arr.as_array().into_iter().flatten() {
                st.sample(k, || x.clone());
            }
        }
    }
    st.excluded = v["excluded"].as_u64().unwrap_or(0);
    let raw = &out[nl + 1..];
    let n = v["nontrivial"].as_u64().unwrap_or(0) as usize;
    if raw.len() != n * 8 {
        eprintln!("C10: helper process ({label}) sent a truncated summary");
        run.inconclusive.store(true, Ordering::Relaxed);
    }
    for c in raw.chunks_exact(8) {
        st.nontrivial.insert(u64::from_le_bytes(c.try_into().unwrap()));
    }
    let mut first = Some(st);
    if let Some(m) = v["sub_evals"].as_object() {
        for (sub, n) in m {
            let mut s = first.take().unwrap_or_default();
            s.evals = n.as_u64().unwrap_or(0);
            run.add_stats(sub, s);
        }
    }
    if let Some(s) = first.take() {
        run.add_stats(&format!("grid-{}", if want_simd { "simd" } else { "scalar" }), s);
    }
    for x in v["violations"].as_array().into_iter().flatten() {
        run.push_violation(Violation {
            sub: x["sub"].as_str().unwrap_or("").to_string(),
            fail: Fail::new(x["sig"].as_str().unwrap_or("?"), x["msg"].as_str().unwrap_or("?"), x["case"].clone()),
            choices: x["choices"].as_array().map(|a| a.iter().map(|c| c.as_u64().unwrap_or(0) as u32).collect()).unwrap_or_default(),
            exact: x["exact"].as_bool().unwrap_or(false),
        });
    }
    if v["inconclusive"].as_bool().unwrap_or(false) {
        run.inconclusive.store(true, Ordering::Relaxed);
    }
    Some(active)
}

fn tail(b: &[u8]) -> String {
    let s = String::from_utf8_lossy(b);
    let n = s.len().saturating_sub(600);
    let mut i = n;
    while !s.is_char_boundary(i) {
        i += 1;
    }
    s[i..].to_string()
}

pub fn run(run: &Run) {
    run.rule(
        "per mode (AVX2 allowed / WIREFILTER_USE_AVX2=0, one helper process each): \
         grid = needle length 0..=40 x every anchor 1..len-1 (hook override) x 6 needle kinds (distinct bytes, Thue-Morse binary, unary, first=anchor=last byte, bytes needing escapes/non-UTF-8, ternary) x batches of ~1000 haystacks (quick: every length x anchor with one rotating kind, all kinds for lengths {0,1,2,3,8,15,16,17,32,40}; thorough: all kinds everywhere, all 6 batches for those lengths) built by construction \
         (filler only; needle at offsets 0,1,middle,end-1,end for every extra length 0..=40 and around 48/64/96/128/256/300 - i.e. straddling every 16/32-byte block end; near-misses in the first/last/anchor/inner byte; every proper prefix/suffix of the needle; occurrence cut off by the end; near-miss then occurrence; overlapping copies; planted first+anchor-byte decoys; 2-3 symbol noise); \
         random = drawn needles (1-4 symbol alphabets or arbitrary bytes) with drawn anchor x 12 drawn haystacks of length 0..=300 each, plus the same needle under any(a[*] contains ..); \
         production = no override, the same filter compiled 8 times, all must agree; long = needles of 41..1000 bytes around internal size thresholds (63..65, 127..129, 254..258, 511..513) with a rare byte at a chosen depth (start, middle, >= 256, end), haystacks with the occurrence at the very start / end / inside, near-misses in the rare / first / last byte, cut-off copies; \
         siblings = no override: a base pattern (1..128 bytes) and 2..6 patterns differing from it in one bit (first / middle / last byte), one appended or dropped byte or trailing NULs are compiled in a drawn order and kept alive together, every filter checked on every sibling's occurrences, then some dropped and compiled again; one-byte patterns (incl. 0x00, 0xff) on haystacks of 0..20 bytes without that byte; \
         non-trivial = haystack >= needle and (some position matches the needle's first and anchor bytes but not the whole needle | an occurrence crosses a 16-byte block boundary); distinct by (mode, needle, anchor, haystack)",
    );
    run.assume("the hook verif::set_contains_anchor only replaces the randomly drawn anchor position (one shadowing line) and verif::simd_contains_active reports the latched USE_AVX2");
    run.assume("quoted byte-string literals (plain, \\xHH, \\OOO escapes) denote the bytes written (checked by C06)");
    let subs = subs();
    run_regressions(run, &subs);
    run.any_random.store(true, Ordering::Relaxed);
    let half = (run.threads / 2).max(1);
    let (a, b) = std::thread::scope(|s| {
        let ha = s.spawn(|| run_mode(run, true, half));
        let hb = s.spawn(|| run_mode(run, false, half));
        (ha.join().unwrap(), hb.join().unwrap())
    });
    run.note("simd_active", json!({"avx2-helper-process": a, "scalar-helper-process": b}));
    match a {
        Some(true) => run.note("simd_half", json!("exercised")),
        Some(false) => {
            run.note("simd_half", json!("NOT exercised: this CPU has no AVX2, both helper processes ran the scalar path"));
        }
        None => run.note("simd_half", json!("helper process failed")),
    }
    if b == Some(true) {
        // the switch did not take effect: the scalar half was not exercised
        eprintln!("C10: {ENV_SWITCH}=0 did not select the scalar search - scalar half not exercised");
        run.note("scalar_half", json!("NOT exercised: the environment switch did not take effect"));
        run.inconclusive.store(true, Ordering::Relaxed);
    } else if b == Some(false) {
        run.note("scalar_half", json!("exercised"));
    }
}

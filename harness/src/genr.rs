//! Type-directed generator of well-typed filters.  Fields, functions and lists
//! are created on demand while the expression is generated, so every generated
//! (scheme, filter) pair is well-typed by construction.

use crate::ast::*;
use crate::choices::Choices;
use crate::funcs::{self, Kind, Sig};
use crate::lists::{LV, ListKind};
use crate::model::*;
use crate::rx;
use crate::scheme::{ListState, Recipe};
use std::collections::{BTreeMap, BTreeSet};
use std::net::{IpAddr, Ipv4Addr, Ipv6Addr};

#[derive(Clone, Debug)]
pub struct GenCfg {
    pub max_depth: usize,
    pub containers: bool,
    pub stars: bool,
    pub calls: bool,
    pub call_depth: usize,
    pub lists: bool,
    pub sets: bool,
    pub bytes_ops: bool,
    pub chains: bool,
    /// allow (rarely) schemes with 60..140 filler fields
    pub wide: bool,
}

impl GenCfg {
    pub fn scalar() -> Self {
        GenCfg {
            max_depth: 5,
            containers: false,
            stars: false,
            calls: false,
            call_depth: 0,
            lists: false,
            sets: false,
            bytes_ops: false,
            chains: true,
            wide: true,
        }
    }
    pub fn indexing() -> Self {
        GenCfg { containers: true, stars: true, max_depth: 4, ..Self::scalar() }
    }
    pub fn calls() -> Self {
        GenCfg { calls: true, call_depth: 3, ..Self::indexing() }
    }
    pub fn full() -> Self {
        GenCfg { lists: true, sets: true, bytes_ops: true, ..Self::calls() }
    }
}

#[derive(Clone, Debug, Default)]
pub struct Hints {
    pub ints: Vec<i64>,
    pub bytes: Vec<Vec<u8>>,
    pub ips: Vec<IpAddr>,
    pub keys: Vec<String>,
    pub list_names: Vec<(MType, String)>,
    /// array indexes written in the expression (long arrays are sized around them)
    pub idxs: Vec<u32>,
}

pub struct Gen<'c, 'd> {
    pub ch: &'c mut Choices<'d>,
    pub cfg: GenCfg,
    pub r: Recipe,
    pub hints: Hints,
    counter: usize,
    cur_call_depth: usize,
}

pub const INT_POOL: &[i64] = &[
    0,
    1,
    -1,
    2,
    i64::MIN,
    i64::MAX,
    i64::MIN + 1,
    i64::MAX - 1,
    255,
    256,
    0x7fff_ffff,
    0x8000_0000,
    0xffff_ffff,
    -256,
    7,
    8,
    0x1_0000_0000,
    0x1_0000_0001,
    0x1_0000_0050,
    -0x1_0000_0000,
    0xffff,
    0x1_0000,
    1 << 62,
];

pub const BYTES_POOL: &[&[u8]] = &[
    b"",
    b"a",
    b"abc",
    b"ABC",
    b"abd",
    b"ab",
    b"\xff",
    b"\x00",
    b"a\x00b",
    b"\xc3\xa9",
    b"caf\xc3\xa9",
    b"\xfe\xff",
    b"hello world",
    b"a\"b",
    b"a\\b",
    b"x*y",
    b"line\nbreak",
    b"AbC",
    b"zzzzzzzzzzzzzzzzzzzzzzzzzzzzzzzzzzzzzzzz",
];

pub fn ip_pool() -> Vec<IpAddr> {
    vec![
        v4(0, 0, 0, 0),
        v4(255, 255, 255, 255),
        v4(127, 0, 0, 1),
        v4(10, 0, 0, 1),
        v4(10, 0, 0, 2),
        v4(192, 168, 1, 255),
        v4(1, 2, 3, 4),
        v6(0),
        v6(1),
        v6(u128::MAX),
        v6(0xffff_0102_0304),                               // ::ffff:1.2.3.4 (v4-mapped)
        v6(0x2001_0db8_0000_0000_0000_0000_0000_0001),
        v6(0x2001_0db8_0000_0000_0000_0000_0000_0002),
        v6(0xfe80_0000_0000_0000_0000_0000_0000_0001),
        v6(0x0102_0304),                                    // ::1.2.3.4
    ]
}

pub const KEY_POOL: &[&str] = &["", "a", "k", "key", "K", "ab", "b", "zz", "é", "a b", "q\"t", "b\\s"];

const NAME_START: &[u8] = b"ghijklmopqrstuvwxyznabcdef";
const NAME_REST: &[u8] = b"abcdefghijklmnopqrstuvwxyz0123456789_";

pub fn gen_int(ch: &mut Choices<'_>, hints: &[i64]) -> i64 {
    match ch.weighted(&[4, if hints.is_empty() { 0 } else { 5 }, 2, 2]) {
        0 => *ch.pick(INT_POOL),
        1 => {
            let h = *ch.pick(hints);
            match ch.draw(8) {
                0..=3 => h,
                4 => h.wrapping_add(1),
                5 => h.wrapping_sub(1),
                // same low bits, different high bits (truncation / narrow-storage slips)
                6 => h.wrapping_add(1 << 32),
                _ => h ^ *ch.pick(&[1i64 << 32, 1 << 31, 1 << 16, 1 << 33, i64::MIN]),
            }
        }
        2 => ch.draw(20) as i64 - 5,
        _ => ch.u64() as i64,
    }
}

pub fn gen_bytes(ch: &mut Choices<'_>, hints: &[Vec<u8>]) -> Vec<u8> {
    match ch.weighted(&[4, if hints.is_empty() { 0 } else { 5 }, 2]) {
        0 => ch.pick(BYTES_POOL).to_vec(),
        1 => {
            let h = ch.pick(hints).clone();
            match ch.draw(7) {
                0 | 1 => h,
                2 => {
                    let mut v = h;
                    v.push(*ch.pick(b"a\x00\xffZ"));
                    v
                }
                3 => {
                    let mut v = vec![*ch.pick(b"xA\xfe")];
                    v.extend(h);
                    v
                }
                4 => h.iter().map(|b| if b.is_ascii_alphabetic() { b ^ 0x20 } else { *b }).collect(),
                5 if !h.is_empty() => {
                    // the hint stretched across an internal size threshold (63..65, 255..257 bytes)
                    let n = *ch.pick(&[63usize, 64, 65, 84, 127, 128, 255, 256, 257, 300]);
                    let mut v = h.clone();
                    while v.len() < n {
                        let k = v.len();
                        v.push(h[k % h.len()]);
                    }
                    v
                }
                _ => {
                    let mut v = h;
                    v.pop();
                    v
                }
            }
        }
        _ => {
            let n = ch.draw(6);
            (0..n).map(|_| *ch.pick(b"abAB\x00\xff\xc3\xa9 ")).collect()
        }
    }
}

pub fn gen_ip(ch: &mut Choices<'_>, hints: &[IpAddr]) -> IpAddr {
    match ch.weighted(&[4, if hints.is_empty() { 0 } else { 5 }, 1, 1]) {
        0 => *ch.pick(&ip_pool()),
        1 => {
            let h = *ch.pick(hints);
            let d = ch.draw(4);
            match (h, d) {
                (h, 0 | 1) => h,
                (IpAddr::V4(a), 2) => IpAddr::V4(Ipv4Addr::from(u32::from(a).wrapping_add(1))),
                (IpAddr::V4(a), _) => IpAddr::V4(Ipv4Addr::from(u32::from(a).wrapping_sub(1))),
                (IpAddr::V6(a), 2) => IpAddr::V6(Ipv6Addr::from(u128::from(a).wrapping_add(1))),
                (IpAddr::V6(a), _) => IpAddr::V6(Ipv6Addr::from(u128::from(a).wrapping_sub(1))),
            }
        }
        2 => IpAddr::V4(Ipv4Addr::from(ch.raw())),
        _ => IpAddr::V6(Ipv6Addr::from(((ch.u64() as u128) << 64) | ch.u64() as u128)),
    }
}

pub fn gen_val(ch: &mut Choices<'_>, t: &MType, h: &Hints) -> MVal {
    match t {
        MType::Bool => MVal::Bool(ch.boolean()),
        MType::Int => MVal::Int(gen_int(ch, &h.ints)),
        MType::Bytes => MVal::Bytes(gen_bytes(ch, &h.bytes)),
        MType::Ip => MVal::Ip(gen_ip(ch, &h.ips)),
        MType::Array(e) if !h.idxs.is_empty() && ch.chance(1, 3) || ch.chance(1, 40) => {
            // a long array: sized around an index the expression uses (or a round
            // length), two generated elements repeated in a drawn pattern
            let n = if h.idxs.is_empty() {
                *ch.pick(&[17usize, 64, 65, 257])
            } else {
                (*ch.pick(&h.idxs) as usize + ch.draw(3)).saturating_sub(1).max(1)
            };
            // nested containers stay small in total
            let n = if e.depth() > 0 { n.min(20) } else { n };
            let (a, b) = (gen_val(ch, e, h), gen_val(ch, e, h));
            let mask = ch.u64();
            MVal::Array((**e).clone(), (0..n).map(|i| if mask >> (i % 64) & 1 == 1 { a.clone() } else { b.clone() }).collect())
        }
        MType::Array(e) => {
            let n = ch.weighted(&[2, 2, 3, 3, 3, 2, 1]);
            MVal::Array((**e).clone(), (0..n).map(|_| gen_val(ch, e, h)).collect())
        }
        MType::Map(e) => {
            let mut m = BTreeMap::new();
            // keys used by the filter are usually present
            let mut seen = BTreeSet::new();
            for k in &h.keys {
                if seen.insert(k.clone()) && seen.len() <= 4 && ch.chance(2, 3) {
                    m.insert(k.as_bytes().to_vec(), gen_val(ch, e, h));
                }
            }
            if ch.chance(1, 40) {
                // a large map: 30..90 further entries, two generated values in a drawn pattern
                let extra = 30 + ch.draw(61);
                let (a, b) = (gen_val(ch, e, h), gen_val(ch, e, h));
                let mask = ch.u64();
                for i in 0..extra {
                    m.insert(format!("key{i:02}").into_bytes(), if mask >> (i % 64) & 1 == 1 { a.clone() } else { b.clone() });
                }
            }
            let n = ch.weighted(&[3, 3, 2, 1, 1]);
            for _ in 0..n {
                let k: Vec<u8> = match ch.weighted(&[4, 1]) {
                    0 => ch.pick(KEY_POOL).as_bytes().to_vec(),
                    _ => ch.pick(&[&b"\xff"[..], b"a\xfe", b"\x00"]).to_vec(),
                };
                m.insert(k, gen_val(ch, e, h));
            }
            MVal::Map((**e).clone(), m)
        }
    }
}

pub const FILLER_PREFIX: &str = "zw_";

pub fn is_filler(name: &str) -> bool {
    name.starts_with(FILLER_PREFIX)
}

fn filler_value(t: &MType, i: usize) -> MVal {
    match t {
        MType::Int => MVal::Int(i as i64),
        MType::Bytes => MVal::Bytes(format!("w{i}").into_bytes()),
        MType::Bool => MVal::Bool(i % 2 == 0),
        MType::Ip => MVal::Ip(v4(10, 9, (i >> 8) as u8, i as u8)),
        MType::Array(e) => MVal::Array((**e).clone(), vec![MVal::Int(i as i64)]),
        MType::Map(e) => MVal::Map((**e).clone(), Default::default()),
    }
}

pub fn gen_ctx(ch: &mut Choices<'_>, r: &Recipe, h: &Hints) -> MCtx {
    let mut vals = Vec::new();
    let mut filler_mask: Option<u64> = None;
    for (i, f) in r.fields.iter().enumerate() {
        if is_filler(&f.name) {
            // one draw decides the presence of all fillers; values are fixed per field
            let mask = *filler_mask.get_or_insert_with(|| ch.u64());
            vals.push(if mask >> (i % 64) & 1 == 1 { Some(filler_value(&f.ty, i)) } else { None });
            continue;
        }
        if f.optional && ch.chance(1, 3) {
            vals.push(None);
        } else {
            vals.push(Some(gen_val(ch, &f.ty, h)));
        }
    }
    MCtx { vals }
}

pub fn gen_lists(ch: &mut Choices<'_>, r: &Recipe, h: &Hints) -> ListState {
    let mut st = ListState::new();
    for (t, k) in &r.lists {
        if *k != ListKind::Set {
            continue;
        }
        let mut sets: BTreeMap<String, BTreeSet<LV>> = BTreeMap::new();
        for (lt, name) in &h.list_names {
            if lt == t && ch.chance(4, 5) {
                let n = ch.draw(5);
                let mut s = BTreeSet::new();
                for _ in 0..n {
                    if let Some(lv) = LV::from_mval(&gen_val(ch, t, h)) {
                        s.insert(lv);
                    }
                }
                sets.insert(name.clone(), s);
            }
        }
        st.insert(t.clone(), sets);
    }
    st
}

pub fn gen_list_name(ch: &mut Choices<'_>) -> String {
    let n = ch.range(1, 6);
    let mut s = String::new();
    for i in 0..n {
        let c = *ch.pick(b"abcxyz0189_.");
        if c == b'.' && (i == 0 || i == n - 1) {
            s.push('m');
        } else {
            s.push(c as char);
        }
    }
    s
}

impl<'c, 'd> Gen<'c, 'd> {
    pub fn new(ch: &'c mut Choices<'d>, cfg: GenCfg) -> Self {
        let mut r = Recipe::empty();
        r.nil_ne = true;
        Gen { ch, cfg, r, hints: Hints::default(), counter: 0, cur_call_depth: 0 }
    }

    pub fn fresh_name(&mut self) -> String {
        loop {
            let mut s = String::new();
            s.push(*self.ch.pick(NAME_START) as char);
            let n = self.ch.draw(5);
            for _ in 0..n {
                s.push(*self.ch.pick(NAME_REST) as char);
            }
            let segs = self.ch.weighted(&[3, 2, 1]);
            for _ in 0..segs {
                s.push('.');
                let n = self.ch.range(1, 3);
                for _ in 0..n {
                    s.push(*self.ch.pick(NAME_REST) as char);
                }
            }
            // a name made only of hex digits (and dots) could be read as the start of
            // a hex / IPv6 literal in argument position: give it a non-hex character
            if !s.chars().any(|c| matches!(c, 'g'..='z' | '_')) {
                s.push('_');
            }
            self.counter += 1;
            let bad = s.starts_with("not")
                || is_filler(&s)
                || self.r.field(&s).is_some()
                || funcs::sig(&s).is_some()
                || s == "concat"
                || s == "ctxfn";
            if !bad {
                return s;
            }
            if self.counter > 3 && self.ch.exhausted() || self.counter > 200 {
                // choice sequence exhausted: fall back to a counter-based name
                let s = format!("z{}", self.counter);
                if self.r.field(&s).is_none() {
                    return s;
                }
            }
        }
    }

    pub fn field_of(&mut self, ty: &MType) -> String {
        let existing: Vec<String> =
            self.r.fields.iter().filter(|f| f.ty == *ty).map(|f| f.name.clone()).collect();
        if !existing.is_empty() && self.ch.chance(3, 4) {
            return self.ch.pick(&existing).clone();
        }
        let name = self.fresh_name();
        let optional = self.ch.boolean();
        self.r.fields.push(FieldSpec { name: name.clone(), ty: ty.clone(), optional });
        name
    }

    pub fn need_func(&mut self, name: &str) {
        if name == "concat" {
            self.r.concat = true;
        } else if !self.r.funcs.iter().any(|f| f == name) {
            self.r.funcs.push(name.to_string());
        }
    }

    pub fn int_form(&mut self, arg_pos: bool) -> IntForm {
        if arg_pos {
            *self.ch.pick(&[IntForm::Dec, IntForm::Dec, IntForm::Oct])
        } else {
            *self.ch.pick(&[IntForm::Dec, IntForm::Dec, IntForm::Hex, IntForm::HexUpper, IntForm::Oct])
        }
    }

    pub fn int_lit(&mut self, arg_pos: bool) -> IntLit {
        let v = gen_int(self.ch, &self.hints.ints.clone());
        self.hints.ints.push(v);
        IntLit { v, form: self.int_form(arg_pos) }
    }

    pub fn bytes_form(&mut self, arg_pos: bool) -> BytesForm {
        match self.ch.weighted(&[5, 2, if arg_pos { 0 } else { 2 }]) {
            0 => BytesForm::Quoted(self.ch.draw(4) as u8),
            1 => BytesForm::Raw(self.ch.draw(3) as u8),
            _ => BytesForm::Hex(self.ch.draw(6) as u8),
        }
    }

    pub fn bytes_lit(&mut self, arg_pos: bool) -> BytesLit {
        let v = gen_bytes(self.ch, &self.hints.bytes.clone());
        self.hints.bytes.push(v.clone());
        BytesLit { v, form: self.bytes_form(arg_pos) }
    }

    pub fn ip_lit(&mut self) -> IpAddr {
        let v = gen_ip(self.ch, &self.hints.ips.clone());
        self.hints.ips.push(v);
        v
    }

    pub fn lit(&mut self, t: &MType, arg_pos: bool) -> MLit {
        match t {
            MType::Int => MLit::Int(self.int_lit(arg_pos)),
            MType::Bytes => MLit::Bytes(self.bytes_lit(arg_pos)),
            MType::Ip => MLit::Ip(self.ip_lit()),
            t => panic!("no literal of type {t:?}"),
        }
    }

    fn set_items(&mut self, t: &MType) -> Vec<SetItem> {
        let n = self.ch.weighted(&[1, 3, 3, 2, 1, 1]);
        let mut out = Vec::new();
        for _ in 0..n {
            out.push(match t {
                MType::Int => {
                    if self.ch.chance(1, 3) {
                        let a = self.int_lit(false);
                        let b = self.int_lit(false);
                        let (a, b) = if a.v <= b.v { (a, b) } else { (b, a) };
                        SetItem::IntRange(a, b)
                    } else {
                        SetItem::Int(self.int_lit(false))
                    }
                }
                MType::Bytes => SetItem::Bytes(self.bytes_lit(false)),
                MType::Ip => match self.ch.weighted(&[3, 2, 2]) {
                    0 => SetItem::Ip(self.ip_lit()),
                    1 => {
                        let ip = self.ip_lit();
                        match ip {
                            IpAddr::V4(a) => {
                                let n = self.ch.draw(33) as u8;
                                let mask: u32 = if n == 0 { 0 } else { u32::MAX << (32 - n as u32) };
                                SetItem::Cidr(IpAddr::V4(Ipv4Addr::from(u32::from(a) & mask)), n)
                            }
                            IpAddr::V6(a) => {
                                let n = self.ch.draw(129) as u8;
                                let mask: u128 = if n == 0 { 0 } else { u128::MAX << (128 - n as u32) };
                                SetItem::Cidr(IpAddr::V6(Ipv6Addr::from(u128::from(a) & mask)), n)
                            }
                        }
                    }
                    _ => {
                        let a = self.ip_lit();
                        let b0 = self.ip_lit();
                        // same family, ordered
                        let b = match (a, b0) {
                            (IpAddr::V4(_), IpAddr::V4(_)) | (IpAddr::V6(_), IpAddr::V6(_)) => b0,
                            (IpAddr::V4(x), _) => IpAddr::V4(Ipv4Addr::from(u32::from(x).saturating_add(self.ch.draw(300) as u32))),
                            (IpAddr::V6(x), _) => IpAddr::V6(Ipv6Addr::from(u128::from(x).saturating_add(self.ch.draw(300) as u128))),
                        };
                        let (lo, hi) = match (a, b) {
                            (IpAddr::V4(x), IpAddr::V4(y)) => if x <= y { (a, b) } else { (b, a) },
                            (IpAddr::V6(x), IpAddr::V6(y)) => if x <= y { (a, b) } else { (b, a) },
                            _ => unreachable!(),
                        };
                        SetItem::IpRange(lo, hi)
                    }
                },
                t => panic!("no set over {t:?}"),
            });
        }
        out
    }

    fn wild_lit(&mut self) -> BytesLit {
        // a valid wildcard pattern: no `**`, escapes only `\*` and `\\`
        let n = self.ch.draw(6);
        let mut v: Vec<u8> = Vec::new();
        let mut last_star = false;
        let base = if !self.hints.bytes.is_empty() && self.ch.boolean() {
            self.ch.pick(&self.hints.bytes.clone()).clone()
        } else {
            Vec::new()
        };
        for b in base.iter().take(6) {
            if *b == b'*' || *b == b'\\' {
                v.push(b'\\');
            }
            v.push(*b);
            last_star = false;
        }
        for _ in 0..n {
            match self.ch.weighted(&[6, 3, 1, 1]) {
                0 => {
                    v.push(*self.ch.pick(b"abAB?x \xff"));
                    last_star = false;
                }
                1 => {
                    if !last_star {
                        v.push(b'*');
                        last_star = true;
                    }
                }
                2 => {
                    v.extend_from_slice(b"\\*");
                    last_star = false;
                }
                _ => {
                    v.extend_from_slice(b"\\\\");
                    last_star = false;
                }
            }
        }
        let form = match self.ch.weighted(&[3, 1]) {
            0 => BytesForm::Quoted(0),
            _ => BytesForm::Raw(self.ch.draw(2) as u8),
        };
        BytesLit { v, form }
    }

    pub fn gen_op(&mut self, t: &MType) -> MOp {
        let ord = |g: &mut Self| {
            let o = *g.ch.pick(&OrdOp::ALL);
            MOp::Ord(o, g.lit(t, false))
        };
        let sets = self.cfg.sets;
        let lists = self.cfg.lists;
        let bops = self.cfg.bytes_ops;
        match t {
            MType::Bool => MOp::IsTrue,
            MType::Int => match self.ch.weighted(&[8, 2, if sets { 2 } else { 0 }, if lists { 1 } else { 0 }]) {
                0 => ord(self),
                1 => MOp::BitAnd(self.int_lit(false)),
                2 => MOp::In(self.set_items(t)),
                _ => self.in_list(t),
            },
            MType::Ip => match self.ch.weighted(&[8, if sets { 3 } else { 0 }, if lists { 1 } else { 0 }]) {
                0 => ord(self),
                1 => MOp::In(self.set_items(t)),
                _ => self.in_list(t),
            },
            MType::Bytes => match self.ch.weighted(&[
                8,
                if bops { 2 } else { 0 },
                if bops { 2 } else { 0 },
                if bops { 2 } else { 0 },
                if sets { 2 } else { 0 },
                if lists { 1 } else { 0 },
            ]) {
                0 => ord(self),
                1 => MOp::Contains(self.bytes_lit(false)),
                2 => {
                    let r = rx::gen_rx(self.ch, 2);
                    let form = if self.ch.chance(1, 3) { RegexForm::Raw(self.ch.draw(3) as u8) } else { RegexForm::Quoted };
                    MOp::Matches(r, form)
                }
                3 => MOp::Wildcard { strict: self.ch.boolean(), pat: self.wild_lit() },
                4 => MOp::In(self.set_items(t)),
                _ => self.in_list(t),
            },
            t => panic!("no operator for {t:?}"),
        }
    }

    fn in_list(&mut self, t: &MType) -> MOp {
        if self.r.list_kind(t).is_none() {
            let k = *self.ch.pick(&[ListKind::Set, ListKind::Set, ListKind::Set, ListKind::Always, ListKind::Never]);
            self.r.lists.push((t.clone(), k));
        }
        let existing: Vec<String> =
            self.hints.list_names.iter().filter(|(lt, _)| lt == t).map(|(_, n)| n.clone()).collect();
        let name = if !existing.is_empty() && self.ch.boolean() {
            self.ch.pick(&existing).clone()
        } else {
            gen_list_name(self.ch)
        };
        self.hints.list_names.push((t.clone(), name.clone()));
        MOp::InList(name)
    }

    fn gen_idx(&mut self) -> MIdx {
        let n = match self.ch.weighted(&[8, 1, 1]) {
            0 => self.ch.draw(4) as u32,
            1 => *self.ch.pick(&[4u32, 5, 6]),
            _ => *self.ch.pick(&[u32::MAX, 0x8000_0000, 0x7fff_ffff, 1000, 15, 16, 63, 64, 65, 255, 256]),
        };
        if (7..=300).contains(&n) {
            self.hints.idxs.push(n);
        }
        MIdx::Idx(n, *self.ch.pick(&[IntForm::Dec, IntForm::Dec, IntForm::Hex, IntForm::Oct]))
    }

    fn gen_key(&mut self) -> MIdx {
        let k = if !self.hints.keys.is_empty() && self.ch.boolean() {
            self.ch.pick(&self.hints.keys.clone()).clone()
        } else {
            self.ch.pick(KEY_POOL).to_string()
        };
        self.hints.keys.push(k.clone());
        MIdx::Key(k, self.ch.draw(4) as u8)
    }

    /// A path of `steps` index steps with exactly `stars` `[*]`, ending at
    /// `target`; returns the container type it must start from.
    pub fn wrap_path(&mut self, target: &MType, steps: usize, stars: usize) -> (MType, Vec<MIdx>) {
        let mut is_star = vec![false; steps];
        // choose star positions
        let mut placed = 0;
        while placed < stars {
            let i = self.ch.draw(steps);
            if !is_star[i] {
                is_star[i] = true;
                placed += 1;
            } else if let Some(j) = is_star.iter().position(|s| !*s) {
                is_star[j] = true;
                placed += 1;
            }
        }
        let mut path = Vec::new();
        let mut wraps = Vec::new();
        for s in is_star {
            if s {
                path.push(MIdx::Each);
                wraps.push(self.ch.boolean());
            } else if self.ch.boolean() {
                path.push(self.gen_idx());
                wraps.push(true);
            } else {
                path.push(self.gen_key());
                wraps.push(false);
            }
        }
        let mut t = target.clone();
        for is_array in wraps.iter().rev() {
            t = if *is_array { MType::array(t) } else { MType::map(t) };
        }
        (t, path)
    }

    /// An index expression whose path ends at `target` with exactly `stars` `[*]`.
    pub fn gen_index(&mut self, target: &MType, stars: usize, call_depth: usize) -> MIndex {
        let _ = call_depth;
        if self.cfg.calls && self.cur_call_depth < self.cfg.call_depth && self.ch.chance(1, 3) {
            self.cur_call_depth += 1;
            let r = self.gen_call_index(target, stars, 1);
            self.cur_call_depth -= 1;
            if let Some(ix) = r {
                return ix;
            }
        }
        let room = 3usize.saturating_sub(target.depth());
        let max_steps = if self.cfg.containers { room } else { 0 };
        let stars = stars.min(max_steps);
        let steps = if max_steps == 0 { 0 } else { stars.max(self.ch.weighted(&[4, 3, 2, 1]).min(max_steps)) };
        let (t, path) = self.wrap_path(target, steps, stars);
        let f = self.field_of(&t);
        MIndex { base: MBase::Field(f), path }
    }

    fn candidates(&self, target: &MType, stars: usize) -> Vec<(Sig, bool, u8)> {
        // (function, mapped?, path kind: 0 none, 1 [n], 2 [*])
        let mut out = Vec::new();
        let arr_t = MType::array(target.clone());
        for s in funcs::sigs() {
            if matches!(s.name, "emb" | "b2b" | "b2a" | "a2b" | "a2a") {
                continue;
            }
            let mappable = self.cfg.stars && !s.params.is_empty() && s.params[0].0 != Kind::Literal;
            if s.ret == *target {
                if stars == 0 {
                    out.push((s.clone(), false, 0));
                    if mappable {
                        out.push((s.clone(), true, 1));
                    }
                } else if stars == 1 && mappable {
                    out.push((s.clone(), true, 2));
                }
            }
            if let MType::Array(el) = target {
                if s.ret == **el && mappable && stars == 0 {
                    out.push((s.clone(), true, 0));
                }
            }
            if s.ret == arr_t {
                if stars == 0 {
                    out.push((s.clone(), false, 1));
                } else if stars == 1 {
                    out.push((s.clone(), false, 2));
                }
                // the mapped call gives an array of arrays: two-step paths over a call result
                // (`f(a[*])[n][m]`, `f(a[*])[*][m]`, `f(a[*])[n][*]`, `f(a[*])[*][*]`)
                if mappable {
                    match stars {
                        0 => out.push((s.clone(), true, 3)),
                        1 => {
                            out.push((s.clone(), true, 4));
                            out.push((s.clone(), true, 5));
                        }
                        2 => out.push((s.clone(), true, 6)),
                        _ => {}
                    }
                }
            }
        }
        out
    }

    fn gen_call_index(&mut self, target: &MType, stars: usize, call_depth: usize) -> Option<MIndex> {
        let use_concat = (*target == MType::Bytes || matches!(target, MType::Array(_))) && stars == 0 && self.ch.chance(1, 5);
        if use_concat {
            let n = self.ch.range(2, 4);
            let mut args = Vec::new();
            for _ in 0..n {
                args.push(self.gen_arg(Kind::Both, target, call_depth - 1));
            }
            self.need_func("concat");
            return Some(MIndex { base: MBase::Call { func: "concat".into(), args }, path: vec![] });
        }
        if *target == MType::Int && stars == 0 && self.ch.chance(1, 8) {
            // the hand-written definition with a per-call context
            let mapped = self.cfg.stars && self.ch.chance(1, 4);
            let first = if mapped { self.gen_index(&MType::Bytes, 1, 0) } else { self.gen_index(&MType::Bytes, 0, 0) };
            let mapped = first.stars() > 0;
            let mut args = vec![MArg::Index(first)];
            let n = self.ch.draw(3);
            for _ in 0..n {
                let v = self.ch.draw(50) as i64;
                args.push(MArg::Lit(MLit::Int(IntLit { v, form: IntForm::Dec })));
            }
            self.need_func("ctxfn");
            let path = if mapped { vec![self.gen_idx()] } else { vec![] };
            return Some(MIndex { base: MBase::Call { func: "ctxfn".into(), args }, path });
        }
        let cands = self.candidates(target, stars);
        if cands.is_empty() {
            return None;
        }
        let (s, mapped, pk) = self.ch.pick(&cands).clone();
        self.need_func(s.name);
        let given_opts = self.ch.draw(s.opts.len() + 1);
        let mut args = Vec::new();
        for (i, (k, t)) in s.params.iter().enumerate() {
            if i == 0 && mapped {
                let nst = self.ch.weighted(&[4, 1]) + 1;
                let ix = self.gen_index(t, nst, call_depth - 1);
                if ix.stars() == 0 {
                    // could not place a star (type too deep): fall back to a plain call
                    return None;
                }
                args.push(MArg::Index(ix));
            } else {
                args.push(self.gen_arg(*k, t, call_depth - 1));
            }
        }
        for (k, d) in s.opts.iter().take(given_opts) {
            args.push(self.gen_arg(*k, &d.ty(), call_depth - 1));
        }
        let path = match pk {
            0 => vec![],
            1 => vec![self.gen_idx()],
            2 => vec![MIdx::Each],
            3 => vec![self.gen_idx(), self.gen_idx()],
            4 => vec![MIdx::Each, self.gen_idx()],
            5 => vec![self.gen_idx(), MIdx::Each],
            _ => vec![MIdx::Each, MIdx::Each],
        };
        Some(MIndex { base: MBase::Call { func: s.name.to_string(), args }, path })
    }

    /// Make a logical expression printable in argument position (function or
    /// quantifier argument), where only a single comparison, or an expression
    /// starting with `(`, `not` or a quantifier, is read as a logical expression.
    pub fn arg_safe(&mut self, e: MExpr) -> MExpr {
        fn starts_logical(e: &MExpr) -> bool {
            match e {
                MExpr::Not(_) | MExpr::Paren(_) | MExpr::Quant { .. } => true,
                MExpr::Comb { items, .. } => starts_logical(&items[0]),
                MExpr::Cmp { .. } => false,
            }
        }
        match &e {
            MExpr::Cmp { op: MOp::IsTrue, .. } => MExpr::Paren(Box::new(e)),
            MExpr::Cmp { .. } | MExpr::Not(_) | MExpr::Paren(_) | MExpr::Quant { .. } => e,
            MExpr::Comb { .. } => {
                if starts_logical(&e) && self.ch.boolean() {
                    e
                } else {
                    MExpr::Paren(Box::new(e))
                }
            }
        }
    }

    pub fn gen_arg(&mut self, k: Kind, t: &MType, call_depth: usize) -> MArg {
        let can_lit = matches!(t, MType::Int | MType::Bytes | MType::Ip);
        let lit = match k {
            Kind::Literal => true,
            Kind::Field => false,
            Kind::Both => can_lit && self.ch.boolean(),
        };
        if lit {
            return MArg::Lit(self.lit(t, true));
        }
        let ba = MType::array(MType::Bool);
        if (*t == MType::Bool || (*t == ba && self.cfg.stars)) && self.ch.chance(2, 3) {
            let d = 2usize.min(self.cfg.max_depth);
            let e = if *t == MType::Bool { self.gen_bool(d) } else { self.gen_arr(d) };
            return MArg::Logical(self.arg_safe(e));
        }
        MArg::Index(self.gen_index(t, 0, call_depth))
    }

    fn scalar_type(&mut self) -> MType {
        self.ch.pick(&[MType::Int, MType::Int, MType::Bytes, MType::Bytes, MType::Ip, MType::Bool]).clone()
    }

    fn gen_cmp(&mut self, stars: usize) -> MExpr {
        let t = self.scalar_type();
        let lhs = self.gen_index(&t, stars, self.cfg.call_depth);
        let mut op = self.gen_op(&t);
        // `!=` is the operator that shows how a missing value is treated: more of it where the
        // left-hand side can be missing in interesting ways (call results, indexed containers)
        if (matches!(lhs.base, MBase::Call { .. }) || !lhs.path.is_empty()) && self.ch.chance(1, 4) {
            if let MOp::Ord(o, _) = &mut op {
                *o = OrdOp::Ne;
            }
        }
        MExpr::Cmp { lhs, op }
    }

    fn wrap_item(&mut self, op: LOp, it: MExpr) -> MExpr {
        match &it {
            MExpr::Comb { op: o, .. } if o.prec() <= op.prec() => MExpr::Paren(Box::new(it)),
            _ => it,
        }
    }

    /// A sibling of an operand written before: the same comparison with another constant index /
    /// key after the last `[*]`, or another ordering operator, or left as it is.
    fn sibling(&mut self, e: &MExpr) -> MExpr {
        let mut out = e.clone();
        fn first_cmp(e: &mut MExpr) -> Option<(&mut MIndex, &mut MOp)> {
            match e {
                MExpr::Cmp { lhs, op } => Some((lhs, op)),
                MExpr::Not(a) | MExpr::Paren(a) => first_cmp(a),
                MExpr::Comb { items, .. } => first_cmp(&mut items[0]),
                MExpr::Quant { .. } => None,
            }
        }
        let how = self.ch.draw(3);
        if let Some((lhs, op)) = first_cmp(&mut out) {
            let last_each = lhs.path.iter().rposition(|i| matches!(i, MIdx::Each));
            let tail_from = last_each.map(|p| p + 1).unwrap_or(0);
            match how {
                0 => {}
                1 if tail_from < lhs.path.len() => {
                    let k = lhs.path.len() - 1;
                    match &mut lhs.path[k] {
                        MIdx::Idx(n, _) => *n ^= 1,
                        MIdx::Key(key, _) => {
                            let other = KEY_POOL.iter().find(|c| **c != key.as_str()).unwrap_or(&"k");
                            *key = other.to_string();
                            self.hints.keys.push(key.clone());
                        }
                        MIdx::Each => {}
                    }
                }
                _ => {
                    if let MOp::Ord(o, _) = op {
                        *o = match *o {
                            OrdOp::Eq => OrdOp::Ne,
                            OrdOp::Ne => OrdOp::Eq,
                            OrdOp::Ge => OrdOp::Lt,
                            OrdOp::Lt => OrdOp::Ge,
                            OrdOp::Gt => OrdOp::Le,
                            OrdOp::Le => OrdOp::Gt,
                        };
                    }
                }
            }
        }
        out
    }

    fn comb(&mut self, depth: usize, arr: bool) -> MExpr {
        let op = *self.ch.pick(&LOp::ALL);
        if arr && self.cfg.containers && self.ch.chance(1, 6) {
            // the same container under [*] with different constant indexes / keys behind it
            // (`rows[*][0] == a or rows[*][1] == b`): ragged rows give operands of different lengths
            let t = self.scalar_type();
            let inner = if self.ch.boolean() { MType::array(t.clone()) } else { MType::map(t.clone()) };
            let f = self.field_of(&MType::array(inner.clone()));
            let n = self.ch.range(2, 3);
            let mut items = Vec::new();
            for _ in 0..n {
                let idx = if matches!(inner, MType::Array(_)) { self.gen_idx() } else { self.gen_key() };
                let cmp_op = self.gen_op(&t);
                items.push(MExpr::Cmp { lhs: MIndex { base: MBase::Field(f.clone()), path: vec![MIdx::Each, idx] }, op: cmp_op });
            }
            return MExpr::Comb { op, items };
        }
        let n = self.ch.weighted(&[5, 3, 1]) + 2;
        let mut items: Vec<MExpr> = Vec::new();
        for _ in 0..n {
            // now and then an operand is written twice (the previous one, or an earlier one)
            if !items.is_empty() && self.ch.chance(1, 6) {
                let k = if self.ch.chance(2, 3) { items.len() - 1 } else { self.ch.draw(items.len()) };
                let again: MExpr = self.sibling(&items[k].clone());
                items.push(again);
                continue;
            }
            let it = if arr { self.gen_arr(depth - 1) } else { self.gen_bool(depth - 1) };
            items.push(self.wrap_item(op, it));
        }
        MExpr::Comb { op, items }
    }

    /// A flat chain of 3..6 operands with several distinct operators and no
    /// parentheses, built as the tree that precedence climbing must produce.
    fn chain(&mut self, arr: bool) -> MExpr {
        let n = self.ch.range(3, 6);
        let mut operands: Vec<MExpr> = Vec::new();
        for _ in 0..n {
            if !operands.is_empty() && self.ch.chance(1, 6) {
                let k = if self.ch.chance(2, 3) { operands.len() - 1 } else { self.ch.draw(operands.len()) };
                let again: MExpr = self.sibling(&operands[k].clone());
                operands.push(again);
                continue;
            }
            let leaf = if arr { self.gen_arr(0) } else { self.gen_bool(0) };
            operands.push(if self.ch.chance(1, 5) { MExpr::Not(Box::new(leaf)) } else { leaf });
        }
        let mut ops: Vec<LOp> = (0..n - 1).map(|_| *self.ch.pick(&LOp::ALL)).collect();
        // reduce by precedence: and first, then xor, then or; equal operators
        // in a row flatten into one node
        for level in [LOp::And, LOp::Xor, LOp::Or] {
            let mut new_operands: Vec<MExpr> = Vec::new();
            let mut new_ops: Vec<LOp> = Vec::new();
            let mut cur: Vec<MExpr> = vec![operands.remove(0)];
            for (i, o) in ops.iter().enumerate() {
                let next = operands.remove(0);
                if *o == level {
                    cur.push(next);
                } else {
                    new_operands.push(if cur.len() > 1 { MExpr::Comb { op: level, items: std::mem::take(&mut cur) } } else { cur.pop().unwrap() });
                    new_ops.push(*o);
                    cur = vec![next];
                }
                let _ = i;
            }
            new_operands.push(if cur.len() > 1 { MExpr::Comb { op: level, items: cur } } else { cur.pop().unwrap() });
            operands = new_operands;
            ops = new_ops;
        }
        operands.pop().unwrap()
    }

    pub fn gen_bool(&mut self, depth: usize) -> MExpr {
        if depth == 0 {
            return self.bool_leaf();
        }
        let st = self.cfg.stars;
        match self.ch.weighted(&[6, 2, 2, 4, if st { 3 } else { 0 }, if self.cfg.chains { 2 } else { 0 }]) {
            0 => self.bool_leaf(),
            1 => {
                let a = self.gen_bool(depth - 1);
                let a = if matches!(a, MExpr::Comb { .. }) { MExpr::Paren(Box::new(a)) } else { a };
                MExpr::Not(Box::new(a))
            }
            2 => MExpr::Paren(Box::new(self.gen_bool(depth - 1))),
            3 => self.comb(depth, false),
            4 => self.quant(depth),
            _ => self.chain(false),
        }
    }

    fn bool_leaf(&mut self) -> MExpr {
        if self.cfg.stars && self.ch.chance(1, 6) {
            return self.quant(1);
        }
        self.gen_cmp(0)
    }

    fn quant(&mut self, depth: usize) -> MExpr {
        let any = self.ch.boolean();
        let ba = MType::array(MType::Bool);
        if self.ch.chance(1, 4) {
            // directly over a boolean-array value (star-free)
            let ix = self.gen_index(&ba, 0, self.cfg.call_depth);
            return MExpr::Quant { any, arg: Box::new(MQArg::Index(ix)) };
        }
        let e = self.gen_arr(depth.saturating_sub(1));
        let e = self.arg_safe(e);
        MExpr::Quant { any, arg: Box::new(MQArg::Logical(e)) }
    }

    pub fn gen_arr(&mut self, depth: usize) -> MExpr {
        if depth == 0 {
            return self.arr_leaf();
        }
        match self.ch.weighted(&[6, 2, 2, 4, if self.cfg.chains { 1 } else { 0 }]) {
            0 => self.arr_leaf(),
            1 => {
                let a = self.gen_arr(depth - 1);
                let a = if matches!(a, MExpr::Comb { .. }) { MExpr::Paren(Box::new(a)) } else { a };
                MExpr::Not(Box::new(a))
            }
            2 => MExpr::Paren(Box::new(self.gen_arr(depth - 1))),
            3 => self.comb(depth, true),
            _ => self.chain(true),
        }
    }

    fn arr_leaf(&mut self) -> MExpr {
        if self.ch.chance(1, 6) {
            // a bare boolean array
            let ba = MType::array(MType::Bool);
            let ix = self.gen_index(&ba, 0, self.cfg.call_depth);
            return MExpr::Cmp { lhs: ix, op: MOp::IsTrue };
        }
        let stars = self.ch.weighted(&[6, 2, 1]) + 1;
        let e = self.gen_cmp(stars);
        match &e {
            MExpr::Cmp { lhs, .. } if lhs.stars() == 0 => {
                // the type was too deep to place a star: use a one-level array of scalars
                let t = self.scalar_type();
                let f = self.field_of(&MType::array(t.clone()));
                let op = self.gen_op(&t);
                MExpr::Cmp { lhs: MIndex { base: MBase::Field(f), path: vec![MIdx::Each] }, op }
            }
            _ => e,
        }
    }

    /// Add unused fields / functions / lists and fix the scheme-wide settings.
    pub fn finish_scheme(&mut self) {
        let extra = self.ch.draw(4);
        for _ in 0..extra {
            let t = match self.ch.draw(8) {
                0 => MType::Int,
                1 => MType::Bytes,
                2 => MType::Ip,
                3 => MType::Bool,
                4 => MType::array(MType::Bytes),
                5 => MType::map(MType::Int),
                6 => MType::array(MType::array(MType::Bool)),
                _ => MType::map(MType::array(MType::Ip)),
            };
            let name = self.fresh_name();
            let optional = self.ch.boolean();
            self.r.fields.push(FieldSpec { name, ty: t, optional });
        }
        if self.r.fields.is_empty() {
            let name = self.fresh_name();
            self.r.fields.push(FieldSpec { name, ty: MType::Bool, optional: true });
        }
        // wide schemes: field indexes beyond 64 / 128 (per-field bookkeeping
        // thresholds).  Fillers cost one draw in total and one per context.
        if self.cfg.wide && self.ch.chance(1, 12) {
            let n = 58 + self.ch.draw(80) as usize;
            let mut i = 0usize;
            while self.r.fields.iter().filter(|f| is_filler(&f.name)).count() < n {
                let name = format!("{FILLER_PREFIX}{i:03}");
                i += 1;
                if self.r.field(&name).is_some() {
                    continue;
                }
                let ty = match i % 5 {
                    0 => MType::Int,
                    1 => MType::Bytes,
                    2 => MType::Bool,
                    3 => MType::Ip,
                    _ => MType::array(MType::Int),
                };
                self.r.fields.push(FieldSpec { name, ty, optional: true });
            }
        }
        self.r.nil_ne = !self.ch.chance(1, 3);
        // rotate the registration order so field / function / list indexes vary
        let n = self.r.fields.len();
        let k = self.ch.draw(n);
        self.r.fields.rotate_left(k);
        if !self.r.funcs.is_empty() {
            let k = self.ch.draw(self.r.funcs.len());
            self.r.funcs.rotate_left(k);
        }
        if !self.r.lists.is_empty() {
            let k = self.ch.draw(self.r.lists.len());
            self.r.lists.rotate_left(k);
        }
    }
}

/// Re-establish printability of logical expressions in argument position
/// (after structural mutations): wrap in parentheses whatever would not be
/// read back as the same logical expression.
pub fn normalize_args(e: &mut MExpr) {
    fn starts_logical(e: &MExpr) -> bool {
        match e {
            MExpr::Not(_) | MExpr::Paren(_) | MExpr::Quant { .. } => true,
            MExpr::Comb { items, .. } => starts_logical(&items[0]),
            MExpr::Cmp { .. } => false,
        }
    }
    fn printable(e: &MExpr) -> bool {
        match e {
            MExpr::Cmp { op: MOp::IsTrue, .. } => false,
            MExpr::Cmp { .. } | MExpr::Not(_) | MExpr::Paren(_) | MExpr::Quant { .. } => true,
            MExpr::Comb { .. } => starts_logical(e),
        }
    }
    fn fix(e: &mut MExpr) {
        expr(e);
        if !printable(e) {
            let inner = std::mem::replace(e, MExpr::Cmp { lhs: MIndex::field("x"), op: MOp::IsTrue });
            *e = MExpr::Paren(Box::new(inner));
        }
    }
    fn index(ix: &mut MIndex) {
        if let MBase::Call { args, .. } = &mut ix.base {
            for a in args {
                match a {
                    MArg::Index(i) => index(i),
                    MArg::Lit(_) => {}
                    MArg::Logical(e) => fix(e),
                }
            }
        }
    }
    fn expr(e: &mut MExpr) {
        match e {
            MExpr::Cmp { lhs, .. } => index(lhs),
            MExpr::Not(a) => {
                expr(a);
                if matches!(**a, MExpr::Comb { .. }) {
                    let inner = std::mem::replace(&mut **a, MExpr::Cmp { lhs: MIndex::field("x"), op: MOp::IsTrue });
                    **a = MExpr::Paren(Box::new(inner));
                }
            }
            MExpr::Paren(a) => expr(a),
            MExpr::Comb { op, items } => {
                for it in items.iter_mut() {
                    expr(it);
                    if let MExpr::Comb { op: o, .. } = it {
                        if o.prec() <= op.prec() {
                            let inner = std::mem::replace(it, MExpr::Cmp { lhs: MIndex::field("x"), op: MOp::IsTrue });
                            *it = MExpr::Paren(Box::new(inner));
                        }
                    }
                }
            }
            MExpr::Quant { arg, .. } => match &mut **arg {
                MQArg::Index(ix) => index(ix),
                MQArg::Logical(e) => fix(e),
            },
        }
    }
    expr(e)
}

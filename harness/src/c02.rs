//! C02 - indexing, map-each, bool-array logic, any/all.

use crate::ast::*;
use crate::choices::Choices;
use crate::engine::*;
use crate::eval::{self, BV, Env, Pres};
use crate::genr::{self as g, Gen, GenCfg};
use crate::model::*;
use crate::runner::*;
use crate::scheme::ListState;
use serde_json::json;

#[derive(Default)]
pub struct Shape {
    pub starred_multi: bool,
    pub two_stars: bool,
    pub map_each_3keys: bool,
    pub ragged_logic: bool,
    pub quant_any_ne_all: bool,
    pub quant_direct_absent: bool,
    pub quant_direct_empty: bool,
    pub missing_step: bool,
    pub star_first: bool,
    pub star_middle: bool,
}

fn path_missing(env: &Env<'_>, ix: &MIndex) -> bool {
    // some star-free prefix of the path yields no value although the base is present
    if let Ok(Pres::Val(_)) = eval::eval_base(env, &ix.base) {
        for k in 1..=ix.path.len() {
            if matches!(ix.path[k - 1], MIdx::Each) {
                break;
            }
            let pre = MIndex { base: ix.base.clone(), path: ix.path[..k].to_vec() };
            if let Ok(Pres::Absent) = eval::eval_index_one(env, &pre) {
                return true;
            }
        }
    }
    false
}

pub fn shape(env: &Env<'_>, e: &MExpr, s: &mut Shape) {
    match e {
        MExpr::Cmp { lhs, .. } => {
            if lhs.stars() > 0 {
                if let Ok(v) = eval::eval_index_many(env, lhs) {
                    if v.len() >= 2 {
                        s.starred_multi = true;
                    }
                }
                if lhs.stars() >= 2 {
                    s.two_stars = true;
                }
                if matches!(lhs.path.first(), Some(MIdx::Each)) && lhs.path.len() > 1 {
                    s.star_first = true;
                }
                if lhs.path.len() > 2 && lhs.path[1..lhs.path.len() - 1].iter().any(|p| matches!(p, MIdx::Each)) {
                    s.star_middle = true;
                }
                // map iteration over >= 3 keys
                let k = lhs.path.iter().position(|p| matches!(p, MIdx::Each)).unwrap();
                let pre = MIndex { base: lhs.base.clone(), path: lhs.path[..k].to_vec() };
                if let Ok(Pres::Val(MVal::Map(_, m))) = eval::eval_index_one(env, &pre) {
                    if m.len() >= 3 {
                        s.map_each_3keys = true;
                    }
                }
            }
            if path_missing(env, lhs) {
                s.missing_step = true;
            }
        }
        MExpr::Not(a) | MExpr::Paren(a) => shape(env, a, s),
        MExpr::Comb { items, .. } => {
            let mut lens = Vec::new();
            for i in items {
                shape(env, i, s);
                if let Ok(BV::Many(v)) = eval::eval_expr(env, i) {
                    lens.push(v.len());
                }
            }
            if lens.len() >= 2 && lens.iter().all(|l| *l > 0) && lens.iter().any(|l| *l != lens[0]) {
                s.ragged_logic = true;
            }
        }
        MExpr::Quant { arg, .. } => match &**arg {
            MQArg::Index(ix) => match eval::eval_index_value(env, ix) {
                Ok(Pres::Absent) => s.quant_direct_absent = true,
                Ok(Pres::Val(MVal::Array(_, v))) => {
                    if v.is_empty() {
                        s.quant_direct_empty = true;
                    }
                    let t = v.iter().filter(|b| matches!(b, MVal::Bool(true))).count();
                    if t > 0 && t < v.len() {
                        s.quant_any_ne_all = true;
                    }
                }
                _ => {}
            },
            MQArg::Logical(inner) => {
                shape(env, inner, s);
                if let Ok(BV::Many(v)) = eval::eval_expr(env, inner) {
                    let t = v.iter().filter(|b| **b).count();
                    if t > 0 && t < v.len() {
                        s.quant_any_ne_all = true;
                    }
                    if v.is_empty() {
                        s.quant_direct_empty = true;
                    }
                }
            }
        },
    }
}

pub fn classify(st: &mut Stats, s: &Shape) -> bool {
    let mut nt = false;
    for (c, name) in [
        (s.starred_multi, "star-over-2+-elements"),
        (s.two_stars, "two-or-more-stars"),
        (s.map_each_3keys, "map-each-over-3+-keys"),
        (s.ragged_logic, "array-logic-unequal-lengths"),
        (s.quant_any_ne_all, "quantifier-any-differs-from-all"),
        (s.quant_direct_absent, "quantifier-direct-absent"),
        (s.quant_direct_empty, "quantifier-over-empty"),
        (s.missing_step, "missing-index-or-key"),
        (s.star_first, "star-first-then-index"),
        (s.star_middle, "star-in-the-middle"),
    ] {
        if c {
            st.class(name);
            nt = true;
        }
    }
    nt
}

/// Value expressions: star-free index paths evaluated as values.
fn value_case(ch: &mut Choices<'_>, st: &mut Stats) -> CaseResult {
    value_case_with(GenCfg::indexing(), ch, st)
}

pub fn value_case_with(cfg: GenCfg, ch: &mut Choices<'_>, st: &mut Stats) -> CaseResult {
    let mut gen_ = Gen::new(ch, cfg);
    let target = match gen_.ch.draw(8) {
        0 => MType::Int,
        1 => MType::Bytes,
        2 => MType::Ip,
        3 => MType::Bool,
        4 => MType::array(MType::Bytes),
        5 => MType::map(MType::Int),
        6 => MType::array(MType::Bool),
        _ => MType::array(MType::array(MType::Int)),
    };
    let ix = gen_.gen_index(&target, 0, 0);
    gen_.finish_scheme();
    let recipe = gen_.r.clone();
    let hints = gen_.hints.clone();
    let lists = ListState::new();
    let ctxs: Vec<MCtx> = (0..6).map(|_| g::gen_ctx(gen_.ch, &recipe, &hints)).collect();
    let space: Vec<u8> = (0..6).map(|_| gen_.ch.weighted(&[3, 6, 1, 1, 1, 1]) as u8).collect();
    let text = print_index(&ix, &Style { alias: vec![0], space });
    let show = |ctxs: &[MCtx]| {
        json!({"scheme": recipe.show(), "value_expr": text, "contexts": ctxs.iter().map(|c| c.show(&recipe.fields)).collect::<Vec<_>>()})
    };
    let scheme = recipe.build();
    let ast = match catch(|| scheme.parse_value(&text).map_err(|e| e.to_string())) {
        Ok(Ok(a)) => a,
        Ok(Err(e)) => return Err(Fail::new("well-typed-value-rejected", e, show(&ctxs))),
        Err(p) => return Err(Fail::new("parse-panic", p, show(&ctxs))),
    };
    let got_json = serde_json::to_value(&ast).map_err(|e| Fail::new("serialize-error", e.to_string(), show(&ctxs)))?;
    if got_json != index_json(&ix) {
        return Err(Fail::new("ast-json-mismatch", format!("got {got_json} want {}", index_json(&ix)), show(&ctxs)));
    }
    let static_t = crate::typeck::index_type(&recipe, &ix).unwrap();
    let fv = catch(|| ast.compile()).map_err(|p| Fail::new("compile-panic", p, show(&ctxs)))?;
    for (ci, c) in ctxs.iter().enumerate() {
        let ec = recipe.make_ctx(&scheme, c, &lists);
        let env = Env::new(&recipe, c, &lists);
        let want = eval::eval_index_value(&env, &ix);
        let got = catch(|| fv.execute(&ec).map(|r| r.map(|v| MVal::from_lhs(&v)).map_err(MType::from_engine)));
        st.eval();
        let got = match got {
            Err(p) => return Err(Fail::new("execute-panic", format!("ctx #{ci}: {p}"), show(&ctxs))),
            Ok(Err(e)) => return Err(Fail::new("execute-error", e.to_string(), show(&ctxs))),
            Ok(Ok(r)) => r,
        };
        // static type contract
        match &got {
            Ok(v) if v.ty() != static_t => {
                return Err(Fail::new("value-type-contract", format!("ctx #{ci}: value of type {} for static type {}", v.ty().show(), static_t.show()), show(&ctxs)));
            }
            Err(t) if *t != static_t => {
                return Err(Fail::new("value-type-contract", format!("ctx #{ci}: absence tagged {} for static type {}", t.show(), static_t.show()), show(&ctxs)));
            }
            _ => {}
        }
        match (want, &got) {
            (Err(_), _) => st.excluded(),
            (Ok(Pres::GreyEmpty), _) => st.excluded(),
            (Ok(Pres::Val(w)), Ok(gv)) if w == *gv => {
                if !ix.path.is_empty() {
                    st.nontrivial(&(&text, c));
                    st.class("value-present");
                }
            }
            (Ok(Pres::Absent), Err(_)) => {
                if !ix.path.is_empty() {
                    st.nontrivial(&(&text, c));
                    st.class("value-absent");
                }
            }
            (Ok(w), g) => {
                return Err(Fail::new("value-mismatch", format!("ctx #{ci}: engine {g:?}, reference {w:?}"), show(&ctxs)));
            }
        }
    }
    st.sample("value-expr", || json!({"value_expr": text, "context": ctxs[0].show(&recipe.fields)}));
    Ok(())
}

pub fn filter_case_with(cfg: GenCfg, nctx: usize, ch: &mut Choices<'_>, st: &mut Stats) -> CaseResult {
    let mut gen_ = Gen::new(ch, cfg.clone());
    let expr = gen_.gen_bool(cfg.max_depth);
    gen_.finish_scheme();
    let alias: Vec<u8> = (0..8).map(|_| gen_.ch.draw(2) as u8).collect();
    let space: Vec<u8> = (0..8).map(|_| gen_.ch.weighted(&[3, 6, 1, 1, 1, 1]) as u8).collect();
    let style = Style { alias, space };
    let recipe = gen_.r.clone();
    let hints = gen_.hints.clone();
    let lists = g::gen_lists(gen_.ch, &recipe, &hints);
    let ctxs: Vec<MCtx> = (0..nctx).map(|_| g::gen_ctx(gen_.ch, &recipe, &hints)).collect();
    let text = print_expr(&expr, &style);
    let case = Case { recipe: &recipe, expr: &expr, text: &text, ctxs: &ctxs, lists: &lists };
    let scheme = recipe.build();
    let ast = parse_checked(&scheme, &case)?;
    json_checked(&ast, &case)?;
    let filter = compile_checked(ast, &case)?;
    for (ci, c) in ctxs.iter().enumerate() {
        let ec = recipe.make_ctx(&scheme, c, &lists);
        let out = exec_checked(&filter, &ec, &case, ci)?;
        st.eval();
        if let ExecOutcome::Grey(_) = out {
            st.excluded();
            continue;
        }
        let env = Env::new(&recipe, c, &lists);
        let mut s = Shape::default();
        shape(&env, &expr, &mut s);
        if classify(st, &s) {
            st.nontrivial(&(&text, c));
            st.sample("nontrivial", || json!({"filter": text, "context": c.show(&recipe.fields), "result": matches!(out, ExecOutcome::Agree(true))}));
        }
    }
    Ok(())
}

fn filter_case(ch: &mut Choices<'_>, st: &mut Stats) -> CaseResult {
    // a fifth of the filters also index the result of a call (the root of an index path may be
    // a call: its elements, and its absence, behave like a field's)
    let cfg = if ch.chance(1, 5) { GenCfg { calls: true, call_depth: 1, ..GenCfg::indexing() } } else { GenCfg::indexing() };
    filter_case_with(cfg, 6, ch, st)
}

pub fn subs() -> Vec<Sub> {
    vec![
        Sub { name: "filters", f: Box::new(filter_case) },
        Sub { name: "values", f: Box::new(value_case) },
    ]
}

pub fn run(run: &Run) {
    run.rule(
        "filters: grammar-directed well-typed filters over container fields nested to depth 3 with [n], [\"k\"], [*] paths, bool-array logic and any/all x 6 contexts (empty/singleton/ragged/absent containers, out-of-range indexes, absent keys); \
         values: star-free index paths as value expressions x 6 contexts; \
         non-trivial = (a [*] over >=2 elements | >=2 stars | map-each over >=3 keys | array logic over operands of different non-zero lengths | a quantifier whose any/all answers differ | quantifier directly over an absent or empty array | a missing index/key step); distinct by (text, context)",
    );
    run.assume("mandatory fields are always set");
    run.assume("cases whose outcome the rules leave open (all() over an absent-or-empty mapped value) are skipped and counted as excluded");
    let subs = subs();
    run_regressions(run, &subs);
    let n = run.tier.pick(600_000, 20_000_000);
    run.random("filters", n, 300, &*find_sub(&subs, "filters").unwrap().f);
    let n = run.tier.pick(300_000, 10_000_000);
    run.random("values", n, 120, &*find_sub(&subs, "values").unwrap().f);
}

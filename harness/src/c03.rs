//! C03 - function calls: evaluated arguments, defaults, typed absences,
//! map-each, concat, per-call context objects.

use crate::ast::*;
use crate::choices::Choices;
use crate::engine::*;
use crate::eval::{self, BV, Env, PredCall};
use crate::funcs::{self, CallRec};
use crate::genr::{self as g, Gen, GenCfg};
use crate::model::*;
use crate::runner::*;
use serde_json::{Value, json};
use std::collections::HashSet;

#[derive(Default)]
struct CallShape {
    calls: usize,
    omitted_or_absent: bool,
    mapped: bool,
    memo_and_plain: bool,
    ctxfn: usize,
    concat: bool,
    nested: bool,
}

fn arg_expensive(a: &MArg) -> bool {
    match a {
        MArg::Lit(_) => false,
        MArg::Logical(_) => true,
        MArg::Index(ix) => matches!(ix.base, MBase::Call { .. }),
    }
}

fn walk_index(ix: &MIndex, depth: usize, s: &mut CallShape) {
    if let MBase::Call { func, args } = &ix.base {
        s.calls += 1;
        if depth > 0 {
            s.nested = true;
        }
        if func == "ctxfn" {
            s.ctxfn += 1;
        }
        if func == "concat" {
            s.concat = true;
        }
        if let Some(sig) = funcs::sig(func) {
            if args.len() < sig.params.len() + sig.opts.len() && args.len() >= 2 {
                s.omitted_or_absent = true;
            }
        }
        if matches!(args.first(), Some(MArg::Index(i)) if i.stars() > 0) {
            s.mapped = true;
            let exp = args[1..].iter().filter(|a| arg_expensive(a)).count();
            if exp > 0 && exp < args.len() - 1 {
                s.memo_and_plain = true;
            }
        }
        for a in args {
            match a {
                MArg::Index(i) => walk_index(i, depth + 1, s),
                MArg::Lit(_) => {}
                MArg::Logical(e) => walk_expr(e, depth + 1, s),
            }
        }
    }
}

fn walk_expr(e: &MExpr, depth: usize, s: &mut CallShape) {
    match e {
        MExpr::Cmp { lhs, .. } => walk_index(lhs, depth, s),
        MExpr::Not(a) | MExpr::Paren(a) => walk_expr(a, depth, s),
        MExpr::Comb { items, .. } => items.iter().for_each(|i| walk_expr(i, depth, s)),
        MExpr::Quant { arg, .. } => match &**arg {
            MQArg::Index(ix) => walk_index(ix, depth, s),
            MQArg::Logical(e) => walk_expr(e, depth, s),
        },
    }
}

/// Compare the engine's observed call log with the predicted one.
pub fn compare_logs(observed: &[CallRec], predicted: &[PredCall]) -> Result<(), (String, String)> {
    let pred_set: HashSet<&CallRec> = predicted.iter().map(|p| &p.rec).collect();
    for o in observed {
        if !pred_set.contains(o) {
            return Err((
                "call-with-unexpected-arguments".into(),
                format!("the engine invoked {} which the reference evaluation never does", o.show()),
            ));
        }
    }
    let obs_set: HashSet<&CallRec> = observed.iter().collect();
    for p in predicted {
        if p.must && !obs_set.contains(&p.rec) {
            return Err(("call-missing".into(), format!("the call {} must happen but was not observed", p.rec.show())));
        }
    }
    // exact calls: same order and multiplicity, after removing records that
    // also occur among the inexact ones
    let amb: HashSet<&CallRec> = predicted.iter().filter(|p| !(p.exact && p.must)).map(|p| &p.rec).collect();
    let want: Vec<&CallRec> = predicted.iter().filter(|p| p.exact && p.must && !amb.contains(&p.rec)).map(|p| &p.rec).collect();
    let want_set: HashSet<&CallRec> = want.iter().copied().collect();
    let got: Vec<&CallRec> = observed.iter().filter(|o| want_set.contains(o)).collect();
    if want != got {
        return Err((
            "call-sequence-mismatch".into(),
            format!(
                "calls whose order and multiplicity are fixed differ:\n want {}\n  got {}",
                Value::Array(want.iter().map(|c| c.show()).collect()),
                Value::Array(got.iter().map(|c| c.show()).collect())
            ),
        ));
    }
    Ok(())
}

pub fn filter_case_with(cfg: GenCfg, nctx: usize, ch: &mut Choices<'_>, st: &mut Stats) -> CaseResult {
    let mut gen_ = Gen::new(ch, cfg.clone());
    let expr = gen_.gen_bool(cfg.max_depth.min(3));
    gen_.finish_scheme();
    let alias: Vec<u8> = (0..8).map(|_| gen_.ch.draw(2) as u8).collect();
    let space: Vec<u8> = (0..8).map(|_| gen_.ch.weighted(&[3, 6, 1, 1, 1, 1]) as u8).collect();
    let style = Style { alias, space };
    let recipe = gen_.r.clone();
    let hints = gen_.hints.clone();
    let lists = g::gen_lists(gen_.ch, &recipe, &hints);
    let ctxs: Vec<MCtx> = (0..nctx).map(|_| g::gen_ctx(gen_.ch, &recipe, &hints)).collect();
    let text = print_expr(&expr, &style);
    let case = Case { recipe: &recipe, expr: &expr, text: &text, ctxs: &ctxs, lists: &lists };
    let mut shape = CallShape::default();
    walk_expr(&expr, 0, &mut shape);
    let scheme = recipe.build();
    funcs::ctx_errors_take();
    funcs::ctx_accessors_take();
    let ast = parse_checked(&scheme, &case)?;
    json_checked(&ast, &case)?;
    let filter = compile_checked(ast, &case)?;
    let errs = funcs::ctx_errors_take();
    if let Some(e) = errs.first() {
        let sig = if e.contains("as_any_mut") { "ctx-accessor-as_any_mut" } else { "ctx-object-mismatch" };
        return Err(Fail::new(sig, format!("per-call context object: {e}"), case.show()));
    }
    for a in funcs::ctx_accessors_take() {
        st.class(&format!("ctx-accessor-{a}"));
    }
    for (ci, c) in ctxs.iter().enumerate() {
        let ec = recipe.make_ctx(&scheme, c, &lists);
        funcs::log_start();
        let out = exec_checked(&filter, &ec, &case, ci);
        let observed = funcs::log_take();
        let out = out?;
        st.eval();
        if let ExecOutcome::Grey(_) = out {
            st.excluded();
            continue;
        }
        let env = Env::new(&recipe, c, &lists);
        let _ = eval::eval_expr(&env, &expr);
        let predicted = env.calls.borrow().clone();
        if let Err((sig, msg)) = compare_logs(&observed, &predicted) {
            return Err(Fail::new(sig, format!("context #{ci}: {msg}"), case.show()));
        }
        if shape.calls > 0 {
            st.class("filter-with-call");
            if predicted.iter().any(|p| p.rec.args.is_empty()) {
                st.class("call-without-arguments");
            }
            if predicted.iter().any(|p| p.rec.name == "optb") {
                st.class("call-of-function-with-optional-parameters-only");
            }
            // per-context facts
            let dropped = predicted.iter().any(|p| p.rec.name == "dropodd" && matches!(p.rec.args.first(), Some(Ok(MVal::Int(i))) if i & 1 == 1));
            let absent_arg = predicted.iter().any(|p| p.rec.args.iter().any(|a| a.is_err()));
            let mut nt = false;
            if shape.omitted_or_absent || absent_arg {
                st.class("call-with-omitted-or-absent-argument");
                nt = true;
            }
            if shape.mapped && predicted.len() >= 2 {
                st.class("mapped-call-over-2+-elements");
                nt = true;
                if dropped {
                    st.class("mapped-call-with-dropped-element");
                }
            }
            if shape.memo_and_plain {
                st.class("memoised-and-plain-extra-args");
                nt = true;
            }
            if shape.ctxfn >= 2 {
                st.class("two-context-calls-in-one-filter");
                nt = true;
            }
            if shape.concat {
                st.class("concat");
            }
            if shape.nested {
                st.class("nested-call");
            }
            // a call result indexed by a path of two steps (`f(a[*])[*][0]`, `f(a[*])[1][*]`, ...)
            if text.match_indices(")[").any(|(i, _)| text[i + 2..].find(']').map_or(false, |j| text[i + 2 + j + 1..].starts_with('['))) {
                st.class("call-result-with-two-step-path");
            }
            if nt {
                st.nontrivial(&(&text, c));
                st.sample("nontrivial", || {
                    json!({"filter": text, "context": c.show(&recipe.fields), "calls": observed.iter().map(|c| c.show()).collect::<Vec<_>>()})
                });
            }
        }
    }
    Ok(())
}

fn filter_case(ch: &mut Choices<'_>, st: &mut Stats) -> CaseResult {
    filter_case_with(GenCfg::calls(), 6, ch, st)
}

fn value_case(ch: &mut Choices<'_>, st: &mut Stats) -> CaseResult {
    let mut cfg = GenCfg::calls();
    cfg.call_depth = 3;
    crate::c02::value_case_with(cfg, ch, st)
}

/// Two or three calls of the context-carrying definition in one filter.
fn ctxfn_case(ch: &mut Choices<'_>, st: &mut Stats) -> CaseResult {
    let mut gen_ = Gen::new(ch, GenCfg::calls());
    let n = gen_.ch.range(2, 3);
    let mut items = Vec::new();
    for _ in 0..n {
        let first = gen_.gen_index(&MType::Bytes, 0, 0);
        let mut args = vec![MArg::Index(first)];
        let k = gen_.ch.draw(3);
        for _ in 0..k {
            let v = gen_.ch.draw(40) as i64;
            args.push(MArg::Lit(MLit::Int(IntLit { v, form: IntForm::Dec })));
        }
        let rhs = IntLit { v: funcs::ctxfn_value(gen_.ch.draw(4), args.len(), &[]) + gen_.ch.draw(3) as i64, form: IntForm::Dec };
        let o = *gen_.ch.pick(&OrdOp::ALL);
        items.push(MExpr::Cmp { lhs: MIndex { base: MBase::Call { func: "ctxfn".into(), args }, path: vec![] }, op: MOp::Ord(o, MLit::Int(rhs)) });
    }
    gen_.need_func("ctxfn");
    let op = *gen_.ch.pick(&LOp::ALL);
    let expr = MExpr::Comb { op, items };
    gen_.finish_scheme();
    let recipe = gen_.r.clone();
    let hints = gen_.hints.clone();
    let lists = crate::scheme::ListState::new();
    let ctxs: Vec<MCtx> = (0..4).map(|_| g::gen_ctx(gen_.ch, &recipe, &hints)).collect();
    let text = print_expr(&expr, &Style::plain());
    let case = Case { recipe: &recipe, expr: &expr, text: &text, ctxs: &ctxs, lists: &lists };
    let scheme = recipe.build();
    funcs::ctx_errors_take();
    funcs::ctx_accessors_take();
    let ast = parse_checked(&scheme, &case)?;
    // clone and compare: the context object is carried by the clone too
    let ast2 = ast.clone();
    let f1 = compile_checked(ast, &case)?;
    let f2 = compile_checked(ast2, &case)?;
    let errs = funcs::ctx_errors_take();
    if let Some(e) = errs.first() {
        let sig = if e.contains("as_any_mut") { "ctx-accessor-as_any_mut" } else { "ctx-object-mismatch" };
        return Err(Fail::new(sig, format!("per-call context object: {e}"), case.show()));
    }
    for a in funcs::ctx_accessors_take() {
        st.class(&format!("ctx-accessor-{a}"));
    }
    for (ci, c) in ctxs.iter().enumerate() {
        let ec = recipe.make_ctx(&scheme, c, &lists);
        exec_checked(&f1, &ec, &case, ci)?;
        exec_checked(&f2, &ec, &case, ci)?;
        st.eval();
        st.nontrivial(&(&text, c));
        let env = Env::new(&recipe, c, &lists);
        if let Ok(BV::One(_)) = eval::eval_expr(&env, &expr) {
            st.class("two-context-calls-in-one-filter");
        }
    }
    st.sample("ctxfn", || json!({"filter": text}));
    Ok(())
}

pub fn subs() -> Vec<Sub> {
    vec![
        Sub { name: "filters", f: Box::new(filter_case) },
        Sub { name: "values", f: Box::new(value_case) },
        Sub { name: "ctxfn", f: Box::new(ctxfn_case) },
    ]
}

pub fn run(run: &Run) {
    run.rule(
        "filters: well-typed filters with calls to the harness function family (optional params omitted, literal/field/both params, nested calls to depth 3, logical arguments, [*] first arguments over arrays and maps, concat, ctxfn) x 6 contexts; engine result vs reference AND observed call log vs predicted log (argument values, order and multiplicity where the rules fix them); \
         values: value expressions with calls (static type contract); ctxfn: 2-3 context-carrying calls per filter, every accessor exercised; \
         non-trivial = (call with omitted optional or absent argument | map-each call over >=2 elements | memoised and plain extra arguments together | >=2 ctxfn calls); distinct by (text, context)",
    );
    run.assume("harness functions are pure and defined once (funcs::apply) for both the engine-side implementation and the model");
    run.assume("call multiplicity of arguments behind short-circuit logic or in non-mapped positions of a map-each call is not fixed by the property and is compared as a set");
    let subs = subs();
    run_regressions(run, &subs);
    let n = run.tier.pick(400_000, 12_000_000);
    run.random("filters", n, 300, &*find_sub(&subs, "filters").unwrap().f);
    let n = run.tier.pick(200_000, 6_000_000);
    run.random("values", n, 150, &*find_sub(&subs, "values").unwrap().f);
    let n = run.tier.pick(30_000, 1_000_000);
    run.random("ctxfn", n, 150, &*find_sub(&subs, "ctxfn").unwrap().f);
}

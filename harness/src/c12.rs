//! C12 - uses() and uses_list() report field usage exactly.

use crate::ast::*;
use crate::choices::Choices;
use crate::engine::*;
use crate::genr::{Gen, GenCfg};
use crate::model::*;
use crate::runner::*;
use serde_json::json;
use std::collections::BTreeSet;

fn first_leaf_fields(e: &MExpr) -> BTreeSet<String> {
    // identifiers of the first leaf (where an early exit would stop)
    fn first_index(ix: &MIndex, out: &mut BTreeSet<String>) {
        match &ix.base {
            MBase::Field(n) => {
                out.insert(n.clone());
            }
            MBase::Call { args, .. } => {
                if let Some(a) = args.first() {
                    match a {
                        MArg::Index(i) => first_index(i, out),
                        MArg::Lit(_) => {}
                        MArg::Logical(e) => out.extend(first_leaf_fields(e)),
                    }
                }
            }
        }
    }
    let mut out = BTreeSet::new();
    match e {
        MExpr::Cmp { lhs, .. } => first_index(lhs, &mut out),
        MExpr::Not(a) | MExpr::Paren(a) => out.extend(first_leaf_fields(a)),
        MExpr::Comb { items, .. } => out.extend(first_leaf_fields(&items[0])),
        MExpr::Quant { arg, .. } => match &**arg {
            MQArg::Index(ix) => first_index(ix, &mut out),
            MQArg::Logical(e) => out.extend(first_leaf_fields(e)),
        },
    }
    out
}

fn filter_case(ch: &mut Choices<'_>, st: &mut Stats) -> CaseResult {
    let cfg = GenCfg { max_depth: 4, ..GenCfg::full() };
    let mut gen_ = Gen::new(ch, cfg);
    let expr = gen_.gen_bool(4);
    // now and then the filter is nested as deep as the default parser allows (128): the answers
    // depend on the identifiers only, not on how deep they sit
    let deep_mode = if gen_.ch.chance(1, 12) { 1 + gen_.ch.draw(3) } else { 0 };
    let deep_field = if deep_mode == 3 {
        gen_.need_func("lower");
        Some(gen_.field_of(&MType::Bytes))
    } else {
        None
    };
    gen_.finish_scheme();
    let recipe = gen_.r.clone();
    let ch = gen_.ch;
    let mut text = print_expr(&expr, &Style::plain());
    let base_depth = depth_expr(&expr);
    if deep_mode > 0 && base_depth < 100 {
        let slack = ch.draw(3);
        match deep_mode {
            1 => {
                let k = 128 - base_depth - slack;
                text = format!("{}{text}{}", "(".repeat(k), ")".repeat(k));
            }
            2 => {
                // not ( not ( ... : two levels per pair
                let k = (128 - base_depth - slack - 1) / 2;
                text = format!("{}({text}){}", "not (".repeat(k), ")".repeat(k));
            }
            _ => {
                let k = 128 - slack;
                let f = deep_field.as_ref().unwrap();
                text = format!("({text}) and {}{f}{} == \"x\"", "lower(".repeat(k), ")".repeat(k));
            }
        }
        st.class(["", "deep:parentheses", "deep:not-chain", "deep:nested-calls"][deep_mode]);
    }
    let show = || json!({"scheme": recipe.show(), "filter": text});
    let scheme = recipe.build();
    let ast = match catch(|| scheme.parse(&text).map_err(|e| e.to_string())) {
        Ok(Ok(a)) => a,
        Ok(Err(e)) => return Err(Fail::new("well-typed-rejected", e, show())),
        Err(p) => return Err(Fail::new("parse-panic", p, show())),
    };
    let mut used = BTreeSet::new();
    let mut in_list = BTreeSet::new();
    idents_expr(&expr, &mut used, false, &mut in_list);
    if let Some(f) = &deep_field {
        used.insert(f.clone());
    }
    let first = first_leaf_fields(&expr);
    for f in &recipe.fields {
        st.eval();
        let want = used.contains(&f.name);
        let want_l = in_list.contains(&f.name);
        match catch(|| ast.uses(&f.name)) {
            Ok(Ok(b)) if b == want => {}
            other => {
                return Err(Fail::new("uses-wrong", format!("uses({:?}) = {other:?}, the identifier {} in the source", f.name, if want { "occurs" } else { "does not occur" }), show()));
            }
        }
        match catch(|| ast.uses_list(&f.name)) {
            Ok(Ok(b)) if b == want_l => {}
            other => {
                return Err(Fail::new(
                    "uses-list-wrong",
                    format!("uses_list({:?}) = {other:?}, the identifier {} inside the left-hand side of an `in $list` comparison", f.name, if want_l { "occurs" } else { "does not occur" }),
                    show(),
                ));
            }
        }
        if want && !first.contains(&f.name) {
            st.class("field-used-only-after-the-first-leaf");
            st.nontrivial(&(&text, &f.name));
        }
        if want_l {
            st.class("field-in-list-lhs");
        }
        if want && !want_l && !in_list.is_empty() {
            st.class("field-used-only-outside-lists");
        }
        if !want {
            st.class("field-unused");
        }
    }
    // unknown names: not a field (function names, prefixes / extensions / case variants of field names)
    let mut unknown: Vec<String> = vec!["".into(), "nope".into(), "concat".into(), " ".into()];
    for f in recipe.fields.iter().take(3) {
        unknown.push(format!("{}x", f.name));
        unknown.push(f.name[..f.name.len() - 1].to_string());
        unknown.push(f.name.to_uppercase());
        unknown.push(format!("{}.", f.name));
        unknown.push(format!(" {}", f.name));
        // a field name followed by something that cannot continue an identifier
        for suffix in [" ", "\0", " == 1", "[0]", "[\"k\"]", "\n", ")", " and t"] {
            unknown.push(format!("{}{suffix}", f.name));
        }
    }
    for fname in &recipe.funcs {
        unknown.push(fname.clone());
    }
    let n = unknown.len();
    let k = ch.draw(n);
    for u in unknown.iter().cycle().skip(k).take(4) {
        if recipe.field(u).is_some() {
            continue;
        }
        st.eval();
        if !matches!(catch(|| ast.uses(u)), Ok(Err(_))) {
            return Err(Fail::new("unknown-name-not-an-error", format!("uses({u:?}) must be an error"), show()));
        }
        if !matches!(catch(|| ast.uses_list(u)), Ok(Err(_))) {
            return Err(Fail::new("unknown-name-not-an-error", format!("uses_list({u:?}) must be an error"), show()));
        }
        st.class("unknown-name");
    }
    st.sample("filter", || json!({"filter": text, "used": used, "in_list_lhs": in_list}));
    Ok(())
}

fn value_case(ch: &mut Choices<'_>, st: &mut Stats) -> CaseResult {
    let mut gen_ = Gen::new(ch, GenCfg::full());
    let target = gen_.ch.pick(&[MType::Int, MType::Bytes, MType::Bool, MType::array(MType::Bytes), MType::Ip]).clone();
    let ix = gen_.gen_index(&target, 0, 0);
    gen_.finish_scheme();
    let recipe = gen_.r.clone();
    let text = print_index(&ix, &Style::plain());
    let show = || json!({"scheme": recipe.show(), "value_expr": text});
    let scheme = recipe.build();
    let ast = match catch(|| scheme.parse_value(&text).map_err(|e| e.to_string())) {
        Ok(Ok(a)) => a,
        Ok(Err(e)) => return Err(Fail::new("well-typed-value-rejected", e, show())),
        Err(p) => return Err(Fail::new("parse-panic", p, show())),
    };
    let mut used = BTreeSet::new();
    let mut in_list = BTreeSet::new();
    idents_index(&ix, &mut used, false, &mut in_list);
    for f in &recipe.fields {
        st.eval();
        let want = used.contains(&f.name);
        let want_l = in_list.contains(&f.name);
        match catch(|| ast.uses(&f.name)) {
            Ok(Ok(b)) if b == want => {}
            other => return Err(Fail::new("uses-wrong", format!("value expression: uses({:?}) = {other:?}, expected {want}", f.name), show())),
        }
        match catch(|| ast.uses_list(&f.name)) {
            Ok(Ok(b)) if b == want_l => {}
            other => return Err(Fail::new("uses-list-wrong", format!("value expression: uses_list({:?}) = {other:?}, expected {want_l}", f.name), show())),
        }
        if want && matches!(ix.base, MBase::Call { .. }) {
            st.class("value-expr-field-inside-call");
            st.nontrivial(&(&text, &f.name));
        }
    }
    if !matches!(catch(|| ast.uses("no.such.field")), Ok(Err(_))) {
        return Err(Fail::new("unknown-name-not-an-error", "value expression: uses(unknown)".to_string(), show()));
    }
    Ok(())
}

pub fn subs() -> Vec<Sub> {
    vec![Sub { name: "filters", f: Box::new(filter_case) }, Sub { name: "values", f: Box::new(value_case) }]
}

pub fn run(run: &Run) {
    run.rule(
        "filters / values: well-typed filters and value expressions from the full generator (fields used as LHS, index base, 1st..3rd function argument, nested calls, quantifier and logical arguments, `in $list` LHS) over schemes with unused extra fields; for EVERY field uses()/uses_list() must equal membership in the identifier sets computed from the model tree; unknown names (function names, prefixes, extensions, case variants) must be errors; \
         non-trivial = a field that is used but does not occur in the first leaf (defeats an early exit); distinct by (text, field)",
    );
    let subs = subs();
    run_regressions(run, &subs);
    let n = run.tier.pick(300_000, 15_000_000);
    run.random("filters", n, 300, &*find_sub(&subs, "filters").unwrap().f);
    run.random("values", n / 3, 150, &*find_sub(&subs, "values").unwrap().f);
}

//! Model AST of the *documented* filter language, its printer (alias and
//! whitespace choices), the canonical JSON it must serialise to, and a few
//! structural measures (identifier sets, nesting depth).

use crate::model::*;
use serde_json::{Value, json};
use std::collections::BTreeSet;
use std::net::IpAddr;

#[derive(Clone, Copy, PartialEq, Eq, Hash, Debug)]
pub enum IntForm {
    Dec,
    Hex,
    HexUpper,
    Oct,
}

#[derive(Clone, PartialEq, Eq, Hash, Debug)]
pub struct IntLit {
    pub v: i64,
    pub form: IntForm,
}

impl IntLit {
    pub fn dec(v: i64) -> Self {
        IntLit { v, form: IntForm::Dec }
    }
    pub fn text(&self) -> String {
        if self.v < 0 {
            return format!("{}", self.v);
        }
        match self.form {
            IntForm::Dec => format!("{}", self.v),
            IntForm::Hex => format!("0x{:x}", self.v),
            IntForm::HexUpper => format!("0x{:X}", self.v),
            IntForm::Oct => format!("0{:o}", self.v),
        }
    }
}

#[derive(Clone, PartialEq, Eq, Hash, Debug)]
pub enum BytesForm {
    /// quoted with an escape policy 0..=3
    Quoted(u8),
    /// raw string with n hashes
    Raw(u8),
    /// hex pairs with separator selector
    Hex(u8),
}

#[derive(Clone, PartialEq, Eq, Hash, Debug)]
pub struct BytesLit {
    pub v: Vec<u8>,
    pub form: BytesForm,
}

fn raw_ok(v: &[u8], hashes: u8) -> bool {
    let Ok(s) = std::str::from_utf8(v) else { return false };
    // body must not contain `"` followed by >= hashes '#'
    let b = s.as_bytes();
    for i in 0..b.len() {
        if b[i] == b'"' {
            let mut n = 0usize;
            while i + 1 + n < b.len() && b[i + 1 + n] == b'#' {
                n += 1;
            }
            if n >= hashes as usize {
                return false;
            }
        }
    }
    true
}

impl BytesLit {
    pub fn quoted(v: &[u8]) -> Self {
        BytesLit { v: v.to_vec(), form: BytesForm::Quoted(0) }
    }

    /// The form actually used by the printer (falls back to minimal quoting
    /// when the requested form cannot express the value).
    pub fn effective(&self) -> BytesForm {
        match self.form {
            BytesForm::Raw(h) if raw_ok(&self.v, h) => BytesForm::Raw(h),
            BytesForm::Hex(s) if self.v.len() >= 2 => BytesForm::Hex(s),
            BytesForm::Quoted(p) => BytesForm::Quoted(p % 4),
            _ => BytesForm::Quoted(0),
        }
    }

    pub fn text(&self) -> String {
        match self.effective() {
            BytesForm::Raw(h) => {
                let hs = "#".repeat(h as usize);
                format!("r{hs}\"{}\"{hs}", std::str::from_utf8(&self.v).unwrap())
            }
            BytesForm::Hex(s) => {
                let seps = [":", "-", "."];
                let mut out = String::new();
                for (i, b) in self.v.iter().enumerate() {
                    if i > 0 {
                        // vary the separator along the literal when s >= 3
                        let k = if s < 3 { s as usize } else { (s as usize + i) % 3 };
                        out.push_str(seps[k]);
                    }
                    if s % 2 == 0 {
                        out.push_str(&format!("{b:02x}"));
                    } else {
                        out.push_str(&format!("{b:02X}"));
                    }
                }
                out
            }
            BytesForm::Quoted(p) => quote_bytes(&self.v, p),
        }
    }

    /// JSON of a byte-string literal: text forms give a string when the bytes
    /// are UTF-8 (else a byte array); the hex-pair form always a byte array.
    pub fn to_json(&self) -> Value {
        match self.effective() {
            BytesForm::Hex(_) => Value::Array(self.v.iter().map(|b| json!(b)).collect()),
            _ => bytes_json(&self.v),
        }
    }
}

pub fn quote_bytes(v: &[u8], policy: u8) -> String {
    let mut out = String::from("\"");
    match policy {
        1 => {
            for b in v {
                out.push_str(&format!("\\x{b:02x}"));
            }
        }
        2 => {
            for b in v {
                out.push_str(&format!("\\{b:03o}"));
            }
        }
        _ => {
            let mut rest = v;
            while !rest.is_empty() {
                let (valid, bad): (&str, &[u8]) = match std::str::from_utf8(rest) {
                    Ok(s) => (s, &[]),
                    Err(e) => {
                        let n = e.valid_up_to();
                        let bad_len = e.error_len().unwrap_or(rest.len() - n);
                        (std::str::from_utf8(&rest[..n]).unwrap(), &rest[n..n + bad_len])
                    }
                };
                for c in valid.chars() {
                    match c {
                        '"' => out.push_str("\\\""),
                        '\\' => out.push_str("\\\\"),
                        c if (c as u32) < 0x20 || c as u32 == 0x7f => {
                            if policy == 3 && c != '\t' {
                                out.push(c)
                            } else {
                                out.push_str(&format!("\\x{:02X}", c as u32))
                            }
                        }
                        c => out.push(c),
                    }
                }
                for b in bad {
                    out.push_str(&format!("\\x{b:02x}"));
                }
                rest = &rest[valid.len() + bad.len()..];
            }
        }
    }
    out.push('"');
    out
}

#[derive(Clone, PartialEq, Eq, Hash, Debug)]
pub enum MLit {
    Int(IntLit),
    Bytes(BytesLit),
    Ip(IpAddr),
}

impl MLit {
    pub fn text(&self) -> String {
        match self {
            MLit::Int(i) => i.text(),
            MLit::Bytes(b) => b.text(),
            MLit::Ip(ip) => ip.to_string(),
        }
    }
    pub fn val(&self) -> MVal {
        match self {
            MLit::Int(i) => MVal::Int(i.v),
            MLit::Bytes(b) => MVal::Bytes(b.v.clone()),
            MLit::Ip(ip) => MVal::Ip(*ip),
        }
    }
    pub fn ty(&self) -> MType {
        match self {
            MLit::Int(_) => MType::Int,
            MLit::Bytes(_) => MType::Bytes,
            MLit::Ip(_) => MType::Ip,
        }
    }
    pub fn to_json(&self) -> Value {
        match self {
            MLit::Int(i) => json!(i.v),
            MLit::Bytes(b) => b.to_json(),
            MLit::Ip(ip) => json!(ip.to_string()),
        }
    }
}

/// One item of an `in { ... }` list.
#[derive(Clone, PartialEq, Eq, Hash, Debug)]
pub enum SetItem {
    Int(IntLit),
    IntRange(IntLit, IntLit),
    Bytes(BytesLit),
    Ip(IpAddr),
    /// network address (host bits zero) and prefix length
    Cidr(IpAddr, u8),
    IpRange(IpAddr, IpAddr),
}

impl SetItem {
    pub fn text(&self) -> String {
        match self {
            SetItem::Int(i) => i.text(),
            SetItem::IntRange(a, b) => format!("{}..{}", a.text(), b.text()),
            SetItem::Bytes(b) => b.text(),
            SetItem::Ip(ip) => ip.to_string(),
            SetItem::Cidr(ip, n) => format!("{ip}/{n}"),
            SetItem::IpRange(a, b) => format!("{a}..{b}"),
        }
    }
    pub fn to_json(&self) -> Value {
        match self {
            SetItem::Int(i) => json!({"start": i.v, "end": i.v}),
            SetItem::IntRange(a, b) => json!({"start": a.v, "end": b.v}),
            SetItem::Bytes(b) => b.to_json(),
            SetItem::Ip(ip) => json!(ip.to_string()),
            SetItem::Cidr(ip, n) => {
                let full = match ip {
                    IpAddr::V4(_) => 32,
                    IpAddr::V6(_) => 128,
                };
                if *n == full { json!(ip.to_string()) } else { json!(format!("{ip}/{n}")) }
            }
            SetItem::IpRange(a, b) => json!({"start": a.to_string(), "end": b.to_string()}),
        }
    }
}

#[derive(Clone, Copy, PartialEq, Eq, Hash, Debug)]
pub enum OrdOp {
    Eq,
    Ne,
    Ge,
    Le,
    Gt,
    Lt,
}

impl OrdOp {
    pub const ALL: [OrdOp; 6] = [OrdOp::Eq, OrdOp::Ne, OrdOp::Ge, OrdOp::Le, OrdOp::Gt, OrdOp::Lt];
    pub fn texts(self) -> [&'static str; 2] {
        match self {
            OrdOp::Eq => ["==", "eq"],
            OrdOp::Ne => ["!=", "ne"],
            OrdOp::Ge => [">=", "ge"],
            OrdOp::Le => ["<=", "le"],
            OrdOp::Gt => [">", "gt"],
            OrdOp::Lt => ["<", "lt"],
        }
    }
    pub fn json_name(self) -> &'static str {
        match self {
            OrdOp::Eq => "Equal",
            OrdOp::Ne => "NotEqual",
            OrdOp::Ge => "GreaterThanEqual",
            OrdOp::Le => "LessThanEqual",
            OrdOp::Gt => "GreaterThan",
            OrdOp::Lt => "LessThan",
        }
    }
}

#[derive(Clone, Copy, PartialEq, Eq, Hash, Debug, PartialOrd, Ord)]
pub enum LOp {
    Or,
    Xor,
    And,
}

impl LOp {
    pub const ALL: [LOp; 3] = [LOp::Or, LOp::Xor, LOp::And];
    pub fn texts(self) -> [&'static str; 2] {
        match self {
            LOp::Or => ["or", "||"],
            LOp::Xor => ["xor", "^^"],
            LOp::And => ["and", "&&"],
        }
    }
    pub fn json_name(self) -> &'static str {
        match self {
            LOp::Or => "Or",
            LOp::Xor => "Xor",
            LOp::And => "And",
        }
    }
    /// binding strength: and > xor > or
    pub fn prec(self) -> u8 {
        match self {
            LOp::Or => 0,
            LOp::Xor => 1,
            LOp::And => 2,
        }
    }
}

#[derive(Clone, PartialEq, Eq, Hash, Debug)]
pub enum RegexForm {
    Quoted,
    Raw(u8),
}

#[derive(Clone, PartialEq, Eq, Hash, Debug)]
pub enum MOp {
    /// bare boolean (or boolean container) value
    IsTrue,
    Ord(OrdOp, MLit),
    BitAnd(IntLit),
    Contains(BytesLit),
    /// pattern as the regex engine must see it, plus how to write it
    Matches(crate::rx::Rx, RegexForm),
    Wildcard { strict: bool, pat: BytesLit },
    In(Vec<SetItem>),
    InList(String),
}

#[derive(Clone, PartialEq, Eq, Hash, Debug)]
pub enum MIdx {
    Idx(u32, IntForm),
    Key(String, u8),
    Each,
}

#[derive(Clone, PartialEq, Eq, Hash, Debug)]
pub enum MBase {
    Field(String),
    Call { func: String, args: Vec<MArg> },
}

#[derive(Clone, PartialEq, Eq, Hash, Debug)]
pub struct MIndex {
    pub base: MBase,
    pub path: Vec<MIdx>,
}

impl MIndex {
    pub fn field(name: &str) -> Self {
        MIndex { base: MBase::Field(name.to_string()), path: vec![] }
    }
    pub fn stars(&self) -> usize {
        self.path.iter().filter(|p| matches!(p, MIdx::Each)).count()
    }
}

#[derive(Clone, PartialEq, Eq, Hash, Debug)]
pub enum MArg {
    Index(MIndex),
    Lit(MLit),
    Logical(MExpr),
}

#[derive(Clone, PartialEq, Eq, Hash, Debug)]
pub enum MQArg {
    Index(MIndex),
    Logical(MExpr),
}

#[derive(Clone, PartialEq, Eq, Hash, Debug)]
pub enum MExpr {
    Cmp { lhs: MIndex, op: MOp },
    Not(Box<MExpr>),
    Paren(Box<MExpr>),
    /// invariant: items.len() >= 2 and no item is an unparenthesised Comb of
    /// lower-or-equal precedence (so printing without extra parentheses and
    /// parsing gives back exactly this tree)
    Comb { op: LOp, items: Vec<MExpr> },
    Quant { any: bool, arg: Box<MQArg> },
}

// ---------------------------------------------------------------------------
// Printing

#[derive(Clone, Debug, Default)]
pub struct Style {
    pub alias: Vec<u8>,
    pub space: Vec<u8>,
}

impl Style {
    pub fn plain() -> Self {
        Style { alias: vec![0], space: vec![1] }
    }
}

enum P {
    T(String),
    /// optional whitespace
    Gap,
}

pub struct Printer<'a> {
    style: &'a Style,
    ai: usize,
    out: Vec<P>,
    pub alias_choices: Vec<u8>,
}

const SPACES: [&str; 6] = ["", " ", "  ", "\n", "\r\n", " \n "];

fn wordish(c: char) -> bool {
    c.is_ascii_alphanumeric() || "_.:-/".contains(c) || !c.is_ascii()
}

impl<'a> Printer<'a> {
    pub fn new(style: &'a Style) -> Self {
        Printer { style, ai: 0, out: vec![], alias_choices: vec![] }
    }

    fn t(&mut self, s: &str) {
        self.out.push(P::T(s.to_string()));
    }
    fn gap(&mut self) {
        self.out.push(P::Gap);
    }
    fn alias(&mut self, texts: [&'static str; 2]) {
        let k = if self.style.alias.is_empty() { 0 } else { self.style.alias[self.ai % self.style.alias.len()] % 2 };
        self.ai += 1;
        self.alias_choices.push(k);
        self.t(texts[k as usize]);
    }

    pub fn finish(self) -> (String, bool) {
        // returns text and whether some gap was rendered with a line break
        let mut s = String::new();
        let mut si = 0usize;
        let mut linebreak = false;
        let n = self.out.len();
        let mut i = 0;
        while i < n {
            match &self.out[i] {
                P::T(t) => s.push_str(t),
                P::Gap => {
                    // find next token
                    let mut j = i + 1;
                    while j < n && matches!(self.out[j], P::Gap) {
                        j += 1;
                    }
                    let next_first = if j < n {
                        if let P::T(t) = &self.out[j] { t.chars().next() } else { None }
                    } else {
                        None
                    };
                    let prev_last = s.chars().last();
                    let must = match (prev_last, next_first) {
                        (Some(a), Some(b)) => (wordish(a) && wordish(b)) || fuses(a, b),
                        _ => false,
                    };
                    let k = if self.style.space.is_empty() { 1 } else { self.style.space[si % self.style.space.len()] as usize };
                    si += 1;
                    let sp = if must { SPACES[1 + k % (SPACES.len() - 1)] } else { SPACES[k % SPACES.len()] };
                    if sp.contains('\n') {
                        linebreak = true;
                    }
                    s.push_str(sp);
                    i = j - 1;
                }
            }
            i += 1;
        }
        (s, linebreak)
    }

    pub fn index(&mut self, ix: &MIndex) {
        match &ix.base {
            MBase::Field(n) => self.t(n),
            MBase::Call { func, args } => {
                self.t(func);
                self.gap();
                self.t("(");
                self.gap();
                for (i, a) in args.iter().enumerate() {
                    if i > 0 {
                        self.gap();
                        self.t(",");
                        self.gap();
                    }
                    self.arg(a);
                }
                self.gap();
                self.t(")");
            }
        }
        for p in &ix.path {
            // no whitespace is allowed between the identifier / `]` and `[`,
            // but it is inside the brackets
            if let Some(P::T(prev)) = self.out.last_mut() {
                prev.push('[');
            } else {
                self.t("[");
            }
            self.gap();
            match p {
                MIdx::Each => self.t("*"),
                MIdx::Idx(n, form) => self.t(&IntLit { v: *n as i64, form: *form }.text()),
                MIdx::Key(k, pol) => self.t(&quote_bytes(k.as_bytes(), *pol % 4)),
            }
            self.gap();
            self.t("]");
        }
    }

    fn arg(&mut self, a: &MArg) {
        match a {
            MArg::Index(ix) => self.index(ix),
            MArg::Lit(l) => self.t(&l.text()),
            MArg::Logical(e) => self.expr(e),
        }
    }

    pub fn expr(&mut self, e: &MExpr) {
        match e {
            MExpr::Cmp { lhs, op } => {
                self.index(lhs);
                match op {
                    MOp::IsTrue => {}
                    MOp::Ord(o, lit) => {
                        self.gap();
                        self.alias(o.texts());
                        self.gap();
                        self.t(&lit.text());
                    }
                    MOp::BitAnd(i) => {
                        self.gap();
                        self.alias(["&", "bitwise_and"]);
                        self.gap();
                        self.t(&i.text());
                    }
                    MOp::Contains(b) => {
                        self.gap();
                        self.t("contains");
                        self.gap();
                        self.t(&b.text());
                    }
                    MOp::Matches(rx, form) => {
                        self.gap();
                        self.alias(["matches", "~"]);
                        self.gap();
                        self.t(&crate::rx::regex_literal(&rx.pattern(), form));
                    }
                    MOp::Wildcard { strict, pat } => {
                        self.gap();
                        self.t(if *strict { "strict wildcard" } else { "wildcard" });
                        self.gap();
                        self.t(&pat.text());
                    }
                    MOp::In(items) => {
                        self.gap();
                        self.t("in");
                        self.gap();
                        self.t("{");
                        for it in items {
                            self.gap();
                            self.t(&it.text());
                        }
                        self.gap();
                        self.t("}");
                    }
                    MOp::InList(name) => {
                        self.gap();
                        self.t("in");
                        self.gap();
                        self.t(&format!("${name}"));
                    }
                }
            }
            MExpr::Not(a) => {
                self.alias(["not", "!"]);
                self.gap();
                self.expr(a);
            }
            MExpr::Paren(a) => {
                self.t("(");
                self.gap();
                self.expr(a);
                self.gap();
                self.t(")");
            }
            MExpr::Comb { op, items } => {
                for (i, it) in items.iter().enumerate() {
                    if i > 0 {
                        self.gap();
                        self.alias(op.texts());
                        self.gap();
                    }
                    self.expr(it);
                }
            }
            MExpr::Quant { any, arg } => {
                self.t(if *any { "any" } else { "all" });
                self.gap();
                self.t("(");
                self.gap();
                match &**arg {
                    MQArg::Index(ix) => self.index(ix),
                    MQArg::Logical(e) => self.expr(e),
                }
                self.gap();
                self.t(")");
            }
        }
    }
}

/// symbol pairs that would lex as a different token when adjacent
fn fuses(a: char, b: char) -> bool {
    matches!(
        (a, b),
        ('!', '=') | ('<', '=') | ('>', '=') | ('=', '=') | ('&', '&') | ('|', '|') | ('^', '^') | ('!', '!') | ('~', '~')
    ) || (a == '&' && b == '&')
}

pub fn print_expr(e: &MExpr, style: &Style) -> String {
    let mut p = Printer::new(style);
    p.expr(e);
    p.finish().0
}

pub fn print_index(ix: &MIndex, style: &Style) -> String {
    let mut p = Printer::new(style);
    p.index(ix);
    p.finish().0
}

/// Text, the alias index chosen per operator occurrence, whether a gap got a line break.
pub fn print_expr_info(e: &MExpr, style: &Style) -> (String, Vec<u8>, bool) {
    let mut p = Printer::new(style);
    p.expr(e);
    let al = p.alias_choices.clone();
    let (s, lb) = p.finish();
    (s, al, lb)
}

// ---------------------------------------------------------------------------
// Canonical JSON

pub fn index_json(ix: &MIndex) -> Value {
    let base = match &ix.base {
        MBase::Field(n) => json!(n),
        MBase::Call { func, args } => {
            json!({"name": func, "args": args.iter().map(arg_json).collect::<Vec<_>>()})
        }
    };
    if ix.path.is_empty() {
        base
    } else {
        let mut v = vec![base];
        for p in &ix.path {
            v.push(match p {
                MIdx::Idx(n, _) => json!({"kind": "ArrayIndex", "value": n}),
                MIdx::Key(k, _) => json!({"kind": "MapKey", "value": k}),
                MIdx::Each => json!({"kind": "MapEach"}),
            });
        }
        Value::Array(v)
    }
}

fn arg_json(a: &MArg) -> Value {
    match a {
        MArg::Index(ix) => json!({"kind": "IndexExpr", "value": index_json(ix)}),
        MArg::Lit(l) => json!({"kind": "Literal", "value": l.to_json()}),
        MArg::Logical(e) => json!({"kind": "SimpleExpr", "value": expr_json(e)}),
    }
}

pub fn expr_json(e: &MExpr) -> Value {
    match e {
        MExpr::Cmp { lhs, op } => {
            let l = index_json(lhs);
            match op {
                MOp::IsTrue => json!({"lhs": l, "op": "IsTrue"}),
                MOp::Ord(o, lit) => json!({"lhs": l, "op": o.json_name(), "rhs": lit.to_json()}),
                MOp::BitAnd(i) => json!({"lhs": l, "op": "BitwiseAnd", "rhs": i.v}),
                MOp::Contains(b) => json!({"lhs": l, "op": "Contains", "rhs": b.to_json()}),
                MOp::Matches(rx, _) => json!({"lhs": l, "op": "Matches", "rhs": rx.pattern()}),
                MOp::Wildcard { strict, pat } => {
                    json!({"lhs": l, "op": if *strict {"Strict Wildcard"} else {"Wildcard"}, "rhs": pat.to_json()})
                }
                MOp::In(items) => {
                    json!({"lhs": l, "op": "OneOf", "rhs": items.iter().map(|i| i.to_json()).collect::<Vec<_>>()})
                }
                MOp::InList(n) => json!({"lhs": l, "op": "InList", "rhs": n}),
            }
        }
        MExpr::Not(a) => json!({"op": "Not", "arg": expr_json(a)}),
        MExpr::Paren(a) => expr_json(a),
        MExpr::Comb { op, items } => {
            json!({"op": op.json_name(), "items": items.iter().map(expr_json).collect::<Vec<_>>()})
        }
        MExpr::Quant { any, arg } => {
            let a = match &**arg {
                MQArg::Index(ix) => json!({"kind": "IndexExpr", "value": index_json(ix)}),
                MQArg::Logical(e) => json!({"kind": "SimpleExpr", "value": expr_json(e)}),
            };
            json!({"op": if *any {"Any"} else {"All"}, "arg": a})
        }
    }
}

// ---------------------------------------------------------------------------
// Structural measures

pub fn idents_index(ix: &MIndex, out: &mut BTreeSet<String>, in_list: bool, list_out: &mut BTreeSet<String>) {
    match &ix.base {
        MBase::Field(n) => {
            out.insert(n.clone());
            if in_list {
                list_out.insert(n.clone());
            }
        }
        MBase::Call { args, .. } => {
            for a in args {
                match a {
                    MArg::Index(i) => idents_index(i, out, in_list, list_out),
                    MArg::Lit(_) => {}
                    MArg::Logical(e) => idents_expr(e, out, in_list, list_out),
                }
            }
        }
    }
}

/// `out`: every field identifier occurring anywhere; `list_out`: those that
/// occur inside the left-hand side of some `in $list` comparison.
pub fn idents_expr(e: &MExpr, out: &mut BTreeSet<String>, in_list: bool, list_out: &mut BTreeSet<String>) {
    match e {
        MExpr::Cmp { lhs, op } => {
            let l = in_list || matches!(op, MOp::InList(_));
            idents_index(lhs, out, l, list_out);
        }
        MExpr::Not(a) | MExpr::Paren(a) => idents_expr(a, out, in_list, list_out),
        MExpr::Comb { items, .. } => {
            for i in items {
                idents_expr(i, out, in_list, list_out);
            }
        }
        MExpr::Quant { arg, .. } => match &**arg {
            MQArg::Index(ix) => idents_index(ix, out, in_list, list_out),
            MQArg::Logical(e) => idents_expr(e, out, in_list, list_out),
        },
    }
}

/// Nesting depth: enclosing parentheses, `not`, quantifiers and call argument lists.
pub fn depth_expr(e: &MExpr) -> usize {
    match e {
        MExpr::Cmp { lhs, .. } => depth_index(lhs),
        MExpr::Not(a) | MExpr::Paren(a) => 1 + depth_expr(a),
        MExpr::Comb { items, .. } => items.iter().map(depth_expr).max().unwrap_or(0),
        MExpr::Quant { arg, .. } => {
            1 + match &**arg {
                MQArg::Index(ix) => depth_index(ix),
                MQArg::Logical(e) => depth_expr(e),
            }
        }
    }
}

pub fn depth_index(ix: &MIndex) -> usize {
    match &ix.base {
        MBase::Field(_) => 0,
        MBase::Call { args, .. } => {
            1 + args
                .iter()
                .map(|a| match a {
                    MArg::Index(i) => depth_index(i),
                    MArg::Lit(_) => 0,
                    MArg::Logical(e) => depth_expr(e),
                })
                .max()
                .unwrap_or(0)
        }
    }
}

pub fn count_ops(e: &MExpr) -> (usize, BTreeSet<LOp>, usize) {
    // (leaves, distinct logical ops, nots)
    fn go(e: &MExpr, leaves: &mut usize, ops: &mut BTreeSet<LOp>, nots: &mut usize) {
        match e {
            MExpr::Cmp { .. } => *leaves += 1,
            MExpr::Not(a) => {
                *nots += 1;
                go(a, leaves, ops, nots)
            }
            MExpr::Paren(a) => go(a, leaves, ops, nots),
            MExpr::Comb { op, items } => {
                ops.insert(*op);
                for i in items {
                    go(i, leaves, ops, nots);
                }
            }
            MExpr::Quant { arg, .. } => match &**arg {
                MQArg::Index(_) => *leaves += 1,
                MQArg::Logical(e) => go(e, leaves, ops, nots),
            },
        }
    }
    let (mut l, mut o, mut n) = (0, BTreeSet::new(), 0);
    go(e, &mut l, &mut o, &mut n);
    (l, o, n)
}

//! C14 - execution contexts survive serialization and reject bad JSON safely.

use crate::ast::*;
use crate::choices::Choices;
use crate::engine::*;
use crate::genr::{self as g, Gen, GenCfg, Hints};
use crate::lists::ListKind;
use crate::model::*;
use crate::runner::*;
use crate::scheme::{ListState, Recipe, show_lists};
use serde::de::{DeserializeSeed, IntoDeserializer};
use serde_json::{Value, json};
use wirefilter::{ExecutionContext, GetType, Scheme};

/// set by `run` when the known finding "value-tree-lists-key-order" is open:
/// the class (value-tree entry point x scheme with lists) is then excluded by
/// construction so the search continues behind it
static VALUE_TREE_LISTS_EXCLUDED: std::sync::atomic::AtomicBool = std::sync::atomic::AtomicBool::new(false);

pub const WAYS: [&str; 6] = ["str", "slice", "reader", "value", "value-ref", "c-api"];

/// Feed JSON text into a fresh context through one of the entry points.
pub fn feed(arena: &mut Arena, scheme: &Scheme, text: &'static str, way: usize) -> Result<Result<ExecutionContext<'static>, String>, String> {
    let mut ec: ExecutionContext<'static> = ExecutionContext::new(scheme);
    let r = catch(|| match way {
        0 => ec.deserialize(&mut serde_json::Deserializer::from_str(text)).map_err(|e| e.to_string()),
        1 => ec.deserialize(&mut serde_json::Deserializer::from_slice(text.as_bytes())).map_err(|e| e.to_string()),
        2 => ec.deserialize(&mut serde_json::Deserializer::from_reader(text.as_bytes())).map_err(|e| e.to_string()),
        3 => {
            let v: Value = serde_json::from_str(text).map_err(|e| e.to_string())?;
            ec.deserialize(v.into_deserializer()).map_err(|e: serde_json::Error| e.to_string())
        }
        4 => {
            let v: Value = serde_json::from_str(text).map_err(|e| e.to_string())?;
            let v: &'static Value = arena.keep_value(v);
            ec.deserialize(v).map_err(|e: serde_json::Error| e.to_string())
        }
        _ => unreachable!(),
    });
    match r {
        Err(p) => Err(p),
        Ok(Err(e)) => {
            // keep the partially filled context for the type check
            PARTIAL.with(|p| *p.borrow_mut() = Some(all_deep_typed(scheme, &ec)));
            Ok(Err(e))
        }
        Ok(Ok(())) => Ok(Ok(ec)),
    }
}

thread_local! {
    static PARTIAL: std::cell::RefCell<Option<Result<(), String>>> = const { std::cell::RefCell::new(None) };
}

/// Every stored value has exactly its field's declared type, at every depth.
pub fn all_deep_typed(scheme: &Scheme, ec: &ExecutionContext<'_>) -> Result<(), String> {
    for f in scheme.fields() {
        if let Some(v) = ec.get_field_value(f) {
            if v.get_type() != f.get_type() || !MVal::lhs_deep_well_typed(v) {
                return Err(format!("field {} of type {:?} holds a value of type {:?} (deep-consistent: {})", f.name(), f.get_type(), v.get_type(), MVal::lhs_deep_well_typed(v)));
            }
        }
    }
    Ok(())
}

fn c_api_feed(scheme: &Scheme, text: &str) -> (bool, String) {
    // the C API on the same document (only called after the Rust entry points did not panic)
    let ws = wirefilter_ffi::Scheme::from(scheme.clone());
    let mut cx = wirefilter_ffi::wirefilter_create_execution_context(&ws);
    // the caller's buffer is only lent for the duration of the call: scrub it afterwards
    let mut buf: Vec<u8> = text.as_bytes().to_vec();
    let ok = wirefilter_ffi::wirefilter_deserialize_json_to_execution_context(&mut cx, buf.as_ptr(), buf.len());
    buf.iter_mut().for_each(|b| *b = b'#');
    let ser = wirefilter_ffi::wirefilter_serialize_execution_context_to_json(&mut cx);
    let out = if ser.status == wirefilter_ffi::Status::Success {
        let s = unsafe { std::slice::from_raw_parts(ser.json.ptr as *const u8, ser.json.len) };
        String::from_utf8_lossy(s).to_string()
    } else {
        String::new()
    };
    wirefilter_ffi::wirefilter_free_string(ser.json);
    wirefilter_ffi::wirefilter_free_execution_context(cx);
    drop(buf);
    (ok, out)
}

struct World {
    recipe: Recipe,
    ctx: MCtx,
    lists: ListState,
    filters: Vec<(MExpr, String)>,
}

fn force_hostile(ch: &mut Choices<'_>, v: &mut MVal, depth: usize, below_top: &mut bool) {
    // make sure non-UTF-8 bytes / keys occur below the top level
    match v {
        MVal::Bytes(b) => {
            if depth > 0 && ch.chance(1, 3) {
                b.push(0xff);
                *below_top = true;
            }
        }
        MVal::Array(_, items) => items.iter_mut().for_each(|i| force_hostile(ch, i, depth + 1, below_top)),
        MVal::Map(_, m) => {
            if ch.chance(1, 3) && !m.is_empty() {
                let (k, val) = m.iter().next().map(|(k, v)| (k.clone(), v.clone())).unwrap();
                let mut nk = k.clone();
                nk.push(0xfe);
                m.insert(nk, val);
                if depth > 0 {
                    *below_top = true;
                }
            }
            m.values_mut().for_each(|i| force_hostile(ch, i, depth + 1, below_top));
        }
        _ => {}
    }
}

fn gen_world(ch: &mut Choices<'_>) -> (World, bool) {
    let mut gen_ = Gen::new(ch, GenCfg { max_depth: 2, ..GenCfg::full() });
    let nf = gen_.ch.range(1, 3);
    let mut exprs = Vec::new();
    for _ in 0..nf {
        exprs.push(gen_.gen_bool(2));
    }
    gen_.finish_scheme();
    // lists: 0..3 of them
    let nl = gen_.ch.draw(4);
    for t in [MType::Bytes, MType::Int, MType::Ip].iter().take(nl) {
        if gen_.r.list_kind(t).is_none() {
            let k = *gen_.ch.pick(&[ListKind::Set, ListKind::Set, ListKind::Always, ListKind::Never]);
            gen_.r.lists.push((t.clone(), k));
            let nm = g::gen_list_name(gen_.ch);
            gen_.hints.list_names.push((t.clone(), nm));
        }
    }
    // now and then a list for a container type as well (its entry carries a nested type descriptor)
    if gen_.ch.chance(1, 4) {
        let t = gen_.ch.pick(&[MType::array(MType::Bytes), MType::map(MType::Int), MType::array(MType::array(MType::Bool)), MType::map(MType::array(MType::Ip))]).clone();
        if gen_.r.list_kind(&t).is_none() {
            let k = *gen_.ch.pick(&[ListKind::Always, ListKind::Never]);
            gen_.r.lists.push((t, k));
        }
    }
    let recipe = gen_.r.clone();
    let hints: Hints = gen_.hints.clone();
    let ch = gen_.ch;
    let lists = g::gen_lists(ch, &recipe, &hints);
    let mut ctx = g::gen_ctx(ch, &recipe, &hints);
    let mut below = false;
    for v in ctx.vals.iter_mut().flatten() {
        force_hostile(ch, v, 0, &mut below);
    }
    let filters = exprs.into_iter().map(|e| { let t = print_expr(&e, &Style::plain()); (e, t) }).collect();
    (World { recipe, ctx, lists, filters }, below)
}

fn expected_fields_json(w: &World) -> Value {
    let mut o = serde_json::Map::new();
    for (f, v) in w.recipe.fields.iter().zip(&w.ctx.vals) {
        if let Some(v) = v {
            o.insert(f.name.clone(), v.to_ctx_json());
        }
    }
    Value::Object(o)
}

fn roundtrip_case(ch: &mut Choices<'_>, st: &mut Stats) -> CaseResult {
    let mut arena = Arena::new();
    let (w, below) = gen_world(ch);
    let scheme: &'static Scheme = arena.keep_scheme(w.recipe.build());
    let ec = w.recipe.make_ctx(scheme, &w.ctx, &w.lists);
    let show = || json!({"scheme": w.recipe.show(), "context": w.ctx.show(&w.recipe.fields), "lists": show_lists(&w.lists)});
    let text = catch(|| serde_json::to_string(&ec)).map_err(|p| Fail::new("serialize-panic", p, show()))?.map_err(|e| Fail::new("serialize-error", e.to_string(), show()))?;
    // the documented JSON of the field values
    let mut got: Value = serde_json::from_str(&text).map_err(|e| Fail::new("serialized-json-invalid", e.to_string(), show()))?;
    let has_lists = !w.recipe.lists.is_empty();
    let lists_json = got.as_object_mut().and_then(|o| o.remove("$lists"));
    if lists_json.is_some() != has_lists {
        st.class("lists-section-presence-differs-from-scheme");
    }
    // The property fixes the round trip, not the concrete JSON shape: the
    // documented shape (strings when UTF-8, byte arrays otherwise, maps as
    // objects or [key, value] pairs) is only measured here.
    let want = expected_fields_json(&w);
    st.class(if got == want { "serialised-in-the-documented-shape" } else { "serialised-in-another-shape" });
    let text: &'static str = arena.keep_str(text);
    // readers are stateless: a document this thread failed to read just before (fault inside a
    // nested type descriptor of the list section) must not change how the next one is read
    if has_lists && ch.chance(1, 4) {
        let layers = *ch.pick(&[1usize, 2, 3, 33, 34, 40, 64]);
        let inner = *ch.pick(&["\"Bytez\"", "7", "\"Int\"", "{\"Arr\":\"Int\"}", "null"]);
        let mut d = String::new();
        for i in 0..layers {
            d.push_str(if (i + layers) % 2 == 0 { "{\"Array\":" } else { "{\"Map\":" });
        }
        d.push_str(inner);
        d.push_str(&"}".repeat(layers));
        let bad: &'static str = arena.keep_str(format!("{{\"$lists\":[{{\"type\":{d},\"data\":{{}}}}]}}"));
        let way = ch.draw(3);
        if let Err(p) = feed(&mut arena, scheme, bad, way) {
            return Err(Fail::new("deserialize-panic", format!("[{}] {p}", WAYS[way]), json!({"document": bad})));
        }
        st.class("roundtrip-after-a-failed-read-on-this-thread");
    }
    let value_tree_lists_known = has_lists;
    for way in 0..6 {
        st.eval();
        if way == 5 {
            let (ok, out) = c_api_feed(scheme, text);
            if !ok {
                return Err(Fail::new("roundtrip-rejected", format!("C API rejected the context's own serialisation\n{text}"), show()));
            }
            // compare as contexts: the C API's serialisation must deserialise to an equal context
            let out_s: &'static str = arena.keep_str(out.clone());
            match feed(&mut arena, scheme, out_s, 0) {
                Ok(Ok(c)) if c == ec => {}
                other => {
                    return Err(Fail::new("roundtrip-context-differs", format!("[c-api] the context deserialised through the C API serialises to {out}, which is not the original context ({:?})", other.map(|r| r.map(|_| "a different context"))), show()));
                }
            }
            continue;
        }
        if (way == 3 || way == 4) && value_tree_lists_known && VALUE_TREE_LISTS_EXCLUDED.load(std::sync::atomic::Ordering::Relaxed) {
            st.excluded();
            continue;
        }
        let back = match feed(&mut arena, scheme, text, way) {
            Err(p) => return Err(Fail::new("deserialize-panic", format!("[{}] {p}", WAYS[way]), show())),
            Ok(Err(e)) => return Err(Fail::new("roundtrip-rejected", format!("[{}] own serialisation rejected: {e}\n{text}", WAYS[way]), show())),
            Ok(Ok(c)) => c,
        };
        if back != ec {
            return Err(Fail::new("roundtrip-context-differs", format!("[{}] deserialised context differs\n{text}", WAYS[way]), show()));
        }
        let again = serde_json::to_string(&back).unwrap();
        // equal contexts normally serialise identically; the property only fixes equality: measured
        if again != text {
            st.class("reserialisation-differs-although-contexts-are-equal");
        }
        all_deep_typed(scheme, &back).map_err(|m| Fail::new("ill-typed-value-stored", m, show()))?;
        // every filter evaluates identically on both
        for (_, t) in &w.filters {
            if let Ok(ast) = scheme.parse(t) {
                let f = ast.compile();
                let a = catch(|| f.execute(&ec));
                let b = catch(|| f.execute(&back));
                if a != b {
                    return Err(Fail::new("filter-differs-after-roundtrip", format!("{t:?}: {a:?} vs {b:?}"), show()));
                }
            }
        }
        st.class(&format!("roundtrip-{}", WAYS[way]));
    }
    let lists_state = w.lists.values().any(|s| s.values().any(|v| !v.is_empty()));
    if below && lists_state {
        st.nontrivial(&text);
        st.sample("nontrivial", || json!({"json": text}));
    }
    if below {
        st.class("non-utf8-below-top-level");
    }
    if lists_state {
        st.class("list-state-non-empty");
    }
    Ok(())
}

/// Deterministic probe of the value-tree finding (independent of the random generator).
fn value_tree_probe(_ch: &mut Choices<'_>, st: &mut Stats) -> CaseResult {
    let mut r = Recipe::empty();
    r.fields.push(FieldSpec { name: "n".into(), ty: MType::Int, optional: true });
    r.lists.push((MType::Int, ListKind::Never));
    let mut arena = Arena::new();
    let scheme: &'static Scheme = arena.keep_scheme(r.build());
    let text = "{\"n\":1,\"$lists\":[{\"type\":\"Int\",\"data\":{}}]}";
    st.eval();
    match feed(&mut arena, scheme, text, 3) {
        Ok(Ok(_)) => Ok(()),
        Ok(Err(e)) => Err(Fail::new("value-tree-lists-key-order", format!("context JSON with a $lists section fed as a serde_json::Value tree is rejected: {e}"), json!({"json": text, "entry_point": "value"}))),
        Err(p) => Err(Fail::new("deserialize-panic", p, json!({"json": text}))),
    }
}

// ---------------------------------------------------------------------------
// Mutated documents

fn deep_type_json(layers: usize, array: bool) -> Value {
    let mut v = json!("Int");
    for i in 0..layers {
        v = if array || i % 2 == 0 { json!({"Array": v}) } else { json!({"Map": v}) };
    }
    v
}

fn mutate_value(ch: &mut Choices<'_>, v: &mut Value, definitely_invalid: &mut bool, depth: usize, nested: &mut bool) -> bool {
    // returns true when a mutation was applied
    match v {
        Value::Object(o) if !o.is_empty() && ch.chance(2, 3) => {
            let keys: Vec<String> = o.keys().cloned().collect();
            let k = ch.pick(&keys).clone();
            if mutate_value(ch, o.get_mut(&k).unwrap(), definitely_invalid, depth + 1, nested) {
                return true;
            }
            false
        }
        Value::Array(a) if !a.is_empty() && ch.chance(2, 3) => {
            let i = ch.draw(a.len());
            mutate_value(ch, &mut a[i], definitely_invalid, depth + 1, nested)
        }
        _ => {
            if depth > 1 {
                *nested = true;
            }
            let new = match &*v {
                Value::Number(_) => {
                    *definitely_invalid = true;
                    match ch.draw(4) {
                        0 => json!("12"),
                        1 => json!(1.5),
                        2 => json!(true),
                        _ => json!(null),
                    }
                }
                Value::Bool(_) => {
                    *definitely_invalid = true;
                    match ch.draw(3) {
                        0 => json!(1),
                        1 => json!("true"),
                        _ => json!(null),
                    }
                }
                Value::String(_) => match ch.draw(4) {
                    0 => {
                        *definitely_invalid = true;
                        json!(7)
                    }
                    1 => {
                        *definitely_invalid = true;
                        json!({"a": 1.25})
                    }
                    2 => json!([256]),
                    _ => json!("not an address ::"),
                },
                Value::Array(_) => match ch.draw(3) {
                    0 => {
                        // a number where a container / byte array was
                        *definitely_invalid = true;
                        json!(3)
                    }
                    1 => json!([[1, 2, 3]]),
                    _ => json!([["k"]]),
                },
                Value::Object(_) => match ch.draw(2) {
                    0 => json!([["k", 1, 2]]),
                    _ => json!([1]),
                },
                Value::Null => json!(0),
            };
            *v = new;
            true
        }
    }
}

fn mutated_case(ch: &mut Choices<'_>, st: &mut Stats) -> CaseResult {
    // the discriminating choices come first so they are never starved
    let kind = ch.draw(9);
    let sel: Vec<u32> = (0..12).map(|_| ch.raw()).collect();
    let (w, _) = gen_world(ch);
    let mut sel_ch = Choices::new(&sel);
    let ch = &mut sel_ch;
    let mut arena = Arena::new();
    let scheme: &'static Scheme = arena.keep_scheme(w.recipe.build());
    let ec = w.recipe.make_ctx(scheme, &w.ctx, &w.lists);
    let text = serde_json::to_string(&ec).unwrap();
    let mut doc: Value = serde_json::from_str(&text).unwrap();
    let mut definitely_invalid = false;
    let mut nested = false;
    st.class(&format!("mutation-kind-{kind}"));
    let mutated: String = match kind {
        0 | 1 => {
            // type-swap / nesting change of a leaf
            let mut m = false;
            if let Value::Object(o) = &mut doc {
                let keys: Vec<String> = o.keys().filter(|k| *k != "$lists").cloned().collect();
                if !keys.is_empty() {
                    let k = ch.pick(&keys).clone();
                    m = mutate_value(ch, o.get_mut(&k).unwrap(), &mut definitely_invalid, 1, &mut nested);
                }
            }
            if !m {
                definitely_invalid = false;
            }
            serde_json::to_string(&doc).unwrap()
        }
        2 => {
            // truncation at a char boundary
            let mut k = ch.draw(text.len() + 1);
            while !text.is_char_boundary(k) {
                k -= 1;
            }
            definitely_invalid = k < text.len();
            text[..k].to_string()
        }
        3 => {
            // unknown field (also `$`-prefixed names that are not the list section,
            // carrying a payload shaped like a list section or the section itself)
            if let Value::Object(o) = &mut doc {
                let mut name = ch.pick(&["nope", "", "$list", "$lists2", "x.y.z.unknown", "$", "$LISTS", "$lists.", " $lists"]).to_string();
                if ch.chance(1, 5) {
                    // other identifiers of the scheme that are not fields: its functions
                    let mut funcs: Vec<String> = w.recipe.funcs.clone();
                    if w.recipe.concat {
                        funcs.push("concat".into());
                    }
                    if !funcs.is_empty() {
                        name = ch.pick(&funcs).clone();
                        st.class("mutated:function-name-as-key");
                    }
                } else if ch.chance(1, 3) {
                    // long names with multi-byte characters straddling round byte offsets
                    let pad = *ch.pick(&[0usize, 1, 2, 3, 14, 15, 16, 30, 31, 32, 61, 62, 63, 64, 65, 125, 126, 127, 128, 253, 254, 255, 256, 1021, 1022, 1023]);
                    let wide = *ch.pick(&["\u{e9}", "\u{20ac}", "\u{1f600}", "\u{0}", "\u{7f}\u{80}"]);
                    let tail = ch.draw(4);
                    name = format!("{}{}{}", "u".repeat(pad), wide.repeat(1 + ch.draw(3)), "v".repeat(tail));
                    st.class("mutated:long-or-non-ascii-unknown-key");
                }
                let payload = match ch.draw(4) {
                    0 => json!(1),
                    1 => json!([]),
                    2 => o.get("$lists").cloned().unwrap_or(json!([])),
                    _ => json!("x"),
                };
                if ch.chance(1, 3) {
                    // rename the list section itself
                    if let Some(v) = o.remove("$lists") {
                        o.insert(name, v);
                    } else {
                        o.insert(name, payload);
                    }
                } else {
                    o.insert(name, payload);
                }
            }
            definitely_invalid = true;
            serde_json::to_string(&doc).unwrap()
        }
        4 => {
            // rename a key to a prefix / case variant
            if let Value::Object(o) = &mut doc {
                let keys: Vec<String> = o.keys().filter(|k| *k != "$lists").cloned().collect();
                if let Some(k) = keys.first() {
                    let v = o.remove(k).unwrap();
                    let nk = match ch.draw(3) {
                        0 => k.to_uppercase(),
                        1 => format!("{k}_"),
                        _ => k[..k.len() - 1].to_string(),
                    };
                    if w.recipe.field(&nk).is_none() && nk != "$lists" {
                        definitely_invalid = true;
                    }
                    o.insert(nk, v);
                }
            }
            serde_json::to_string(&doc).unwrap()
        }
        5 | 6 => {
            // deep type descriptor / unknown list type / wrong shapes in the list section
            // (written by hand: the engine requires the key order "type", "data")
            if let Value::Object(o) = &mut doc {
                o.remove("$lists");
            }
            let rest = serde_json::to_string(&doc).unwrap();
            let section = if kind == 5 {
                let layers = *ch.pick(&[1usize, 2, 31, 32, 33, 34, 35, 60, 64, 100, 127, 128, 130]);
                let arr = ch.boolean();
                format!("[{{\"type\":{},\"data\":{{}}}}]", deep_type_json(layers, arr))
            } else {
                ch.pick(&[
                    "{}",
                    "[1]",
                    "[{\"type\":\"Int\"}]",
                    "[{\"data\":{},\"type\":\"Int\"}]",
                    "[{\"type\":\"Nope\",\"data\":{}}]",
                    "[{\"type\":{\"Array\":\"Nope\"},\"data\":{}}]",
                    "[{\"type\":\"Int\",\"data\":{},\"extra\":1}]",
                    "[{\"type\":\"Int\",\"type\":\"Int\",\"data\":{}}]",
                ])
                .to_string()
            };
            // an unknown type / shape is invalid; a known primitive type may be fine when a list is registered
            definitely_invalid = kind == 5;
            nested = true;
            if rest == "{}" { format!("{{\"$lists\":{section}}}") } else { format!("{{\"$lists\":{section},{}", &rest[1..]) }
        }
        7 => {
            // numbers out of range for the first Int leaf: textual replacement
            definitely_invalid = false;
            let big = *ch.pick(&["9223372036854775808", "-9223372036854775809", "1e400", "18446744073709551616"]);
            let mut out = text.clone();
            if let Some(pos) = text.find(|c: char| c.is_ascii_digit()) {
                let end = text[pos..].find(|c: char| !c.is_ascii_digit()).map(|e| pos + e).unwrap_or(text.len());
                out = format!("{}{}{}", &text[..pos], big, &text[end..]);
            }
            out
        }
        _ => {
            // duplicate the first key (textual)
            if let Some(pos) = text.find(':') {
                if let Some(end) = text[pos..].find(|c| c == ',' || c == '}') {
                    let first = &text[1..pos + end];
                    if !first.contains("$lists") {
                        return run_mutant(&mut arena, scheme, &format!("{{{first},{}", &text[1..]), false, false, st, &w);
                    }
                }
            }
            text.clone()
        }
    };
    run_mutant(&mut arena, scheme, &mutated, definitely_invalid, nested, st, &w)
}

fn run_mutant(arena: &mut Arena, scheme: &'static Scheme, doc: &str, definitely_invalid: bool, nested: bool, st: &mut Stats, w: &World) -> CaseResult {
    let text: &'static str = arena.keep_str(doc.to_string());
    let show = || json!({"scheme": w.recipe.show(), "document": text});
    for way in 0..5 {
        st.eval();
        PARTIAL.with(|p| *p.borrow_mut() = None);
        match feed(arena, scheme, text, way) {
            Err(p) => return Err(Fail::new("deserialize-panic", format!("[{}] {p}", WAYS[way]), show())),
            Ok(Err(_)) => {
                if let Some(Err(m)) = PARTIAL.with(|p| p.borrow_mut().take()) {
                    return Err(Fail::new("ill-typed-value-stored", format!("[{}] after a rejected document: {m}", WAYS[way]), show()));
                }
                st.class("mutant-rejected");
            }
            Ok(Ok(c)) => {
                all_deep_typed(scheme, &c).map_err(|m| Fail::new("ill-typed-value-stored", format!("[{}] {m}", WAYS[way]), show()))?;
                if definitely_invalid {
                    return Err(Fail::new("invalid-document-accepted", format!("[{}] a document that names an unknown field / carries a wrong-typed value / is truncated was accepted", WAYS[way]), show()));
                }
                st.class("mutant-accepted-well-typed");
            }
        }
    }
    if nested {
        st.nontrivial(&text);
        st.sample("mutant", || json!({"document": text}));
    }
    Ok(())
}

pub fn subs() -> Vec<Sub> {
    vec![
        Sub { name: "roundtrip", f: Box::new(roundtrip_case) },
        Sub { name: "value-tree-probe", f: Box::new(value_tree_probe) },
        Sub { name: "mutated", f: Box::new(mutated_case) },
    ]
}

pub fn run(run: &Run) {
    run.rule(
        "roundtrip: generated contexts (every value type nested to depth 3, forced non-UTF-8 bytes and map keys below the top level, empty containers, i64 extremes, v4/v6) over generated schemes with 0-3 lists (harness set matcher with state / AlwaysList / NeverList): serialised fields = documented JSON, fed back through from_str / from_slice / from_reader / serde_json::Value (owned and by reference) / the C API: equal context, byte-identical re-serialisation, generated filters agree; mutated: the same documents with a leaf type-swapped, truncated, a key renamed/duplicated/unknown, nesting changed, out-of-range numbers, deep (1..130 layers) or unknown type descriptors in the list section: rejected or accepted with every stored value deep-typed as its field, definitely-invalid ones rejected, never a panic; \
         non-trivial (roundtrip) = non-UTF-8 bytes/keys below the top level and >= 1 list with state; (mutated) = the edit is inside a nested container or the list section; distinct by document text",
    );
    run.assume("value-tree entry points x schemes with lists are excluded from the round-trip requirement while the known finding value-tree-lists-key-order is open (probed deterministically)");
    VALUE_TREE_LISTS_EXCLUDED.store(run.is_open("value-tree-lists-key-order"), std::sync::atomic::Ordering::Relaxed);
    let subs = subs();
    let get = |n: &str| &*find_sub(&subs, n).unwrap().f;
    run_regressions(run, &subs);
    run.fixed("value-tree-probe", &[vec![0]], get("value-tree-probe"));
    let n = run.tier.pick(60_000, 3_000_000);
    run.random("roundtrip", n, 300, get("roundtrip"));
    run.random("mutated", n * 2, 400, get("mutated"));
    if run.tier == Tier::Thorough {
        fuzz_campaign(run, "ctx_json", 8, 200_000, 2048, Some("json.dict"));
    }
}

/// Oracle for arbitrary bytes as context JSON over the fixed matrix scheme
/// (libFuzzer target `ctx_json` and artifact replay).
pub fn check_document(bytes: &[u8]) -> CaseResult {
    use std::sync::OnceLock;
    static S: OnceLock<Scheme> = OnceLock::new();
    let scheme: &'static Scheme = S.get_or_init(|| crate::c04::matrix_recipe().build());
    let text = String::from_utf8_lossy(bytes).to_string();
    let show = || json!({"document": text});
    for way in 0..3 {
        let mut ec: ExecutionContext<'_> = ExecutionContext::new(scheme);
        let r = catch(|| match way {
            0 => ec.deserialize(&mut serde_json::Deserializer::from_str(&text)).map_err(|e| e.to_string()),
            1 => ec.deserialize(&mut serde_json::Deserializer::from_reader(text.as_bytes())).map_err(|e| e.to_string()),
            _ => match serde_json::from_str::<Value>(&text) {
                Ok(v) => ec.deserialize(v.into_deserializer()).map_err(|e: serde_json::Error| e.to_string()),
                Err(e) => Err(e.to_string()),
            },
        });
        match r {
            Err(p) => return Err(Fail::new("deserialize-panic", format!("[{way}] {p}"), show())),
            Ok(res) => {
                all_deep_typed(scheme, &ec).map_err(|m| Fail::new("ill-typed-value-stored", m, show()))?;
                if res.is_ok() && way == 0 {
                    // accepted documents round-trip
                    let again = catch(|| serde_json::to_string(&ec)).map_err(|p| Fail::new("serialize-panic", p, show()))?.map_err(|e| Fail::new("serialize-error", e.to_string(), show()))?;
                    let mut ec2: ExecutionContext<'_> = ExecutionContext::new(scheme);
                    let r2 = catch(|| ec2.deserialize(&mut serde_json::Deserializer::from_str(&again)).map_err(|e| e.to_string())).map_err(|p| Fail::new("deserialize-panic", p, show()))?;
                    if let Err(e) = r2 {
                        return Err(Fail::new("roundtrip-rejected", format!("re-serialisation {again} rejected: {e}"), show()));
                    }
                    if ec2 != ec {
                        return Err(Fail::new("roundtrip-context-differs", again, show()));
                    }
                }
            }
        }
    }
    Ok(())
}

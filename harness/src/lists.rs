//! Harness list definition: a matcher holding named sets of values, with a
//! thread-local query log.

use crate::model::*;
use serde::{Deserialize, Serialize};
use std::cell::RefCell;
use std::collections::{BTreeMap, BTreeSet};
use wirefilter::{LhsValue, ListDefinition, ListMatcher, Type};

#[derive(Clone, Debug, PartialEq, Eq, PartialOrd, Ord, Serialize, Deserialize, Hash)]
pub enum LV {
    I(i64),
    P(std::net::IpAddr),
    B(Vec<u8>),
}

impl LV {
    pub fn from_mval(v: &MVal) -> Option<LV> {
        match v {
            MVal::Int(i) => Some(LV::I(*i)),
            MVal::Ip(ip) => Some(LV::P(*ip)),
            MVal::Bytes(b) => Some(LV::B(b.clone())),
            _ => None,
        }
    }
    pub fn to_mval(&self) -> MVal {
        match self {
            LV::I(i) => MVal::Int(*i),
            LV::P(p) => MVal::Ip(*p),
            LV::B(b) => MVal::Bytes(b.clone()),
        }
    }
}

#[derive(Clone, Debug, Default, PartialEq, Eq, Serialize, Deserialize)]
pub struct SetMatcher {
    pub sets: BTreeMap<String, BTreeSet<LV>>,
}

thread_local! {
    pub static LIST_LOG: RefCell<Option<Vec<(String, MVal)>>> = const { RefCell::new(None) };
}

pub fn list_log_start() {
    LIST_LOG.with(|l| *l.borrow_mut() = Some(Vec::new()));
}

pub fn list_log_take() -> Vec<(String, MVal)> {
    LIST_LOG.with(|l| l.borrow_mut().take().unwrap_or_default())
}

impl ListMatcher for SetMatcher {
    fn match_value(&self, list_name: &str, val: &LhsValue<'_>) -> bool {
        let mv = MVal::from_lhs(val);
        LIST_LOG.with(|l| {
            if let Some(log) = l.borrow_mut().as_mut() {
                log.push((list_name.to_string(), mv.clone()));
            }
        });
        match (self.sets.get(list_name), LV::from_mval(&mv)) {
            (Some(set), Some(lv)) => set.contains(&lv),
            _ => false,
        }
    }

    fn clear(&mut self) {
        self.sets.clear();
    }
}

#[derive(Debug, Default)]
pub struct SetList;

impl ListDefinition for SetList {
    fn deserialize_matcher<'de>(
        &self,
        _: Type,
        deserializer: &mut dyn erased_serde::Deserializer<'de>,
    ) -> Result<Box<dyn ListMatcher>, erased_serde::Error> {
        let m = erased_serde::deserialize::<SetMatcher>(deserializer)?;
        Ok(Box::new(m))
    }

    fn new_matcher(&self) -> Box<dyn ListMatcher> {
        Box::new(SetMatcher::default())
    }
}

#[derive(Clone, Copy, PartialEq, Eq, Hash, Debug)]
pub enum ListKind {
    Set,
    Always,
    Never,
}

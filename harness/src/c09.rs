//! C09 - set membership `in {...}` is exact for any list of values, ranges and CIDRs.
//!
//! Oracle: a linear scan over the items *as written* (single value, inclusive
//! range, CIDR by mask arithmetic), family-aware for IP addresses.

use crate::ast::quote_bytes;
use crate::choices::Choices;
use crate::engine::catch;
use crate::model::show_bytes;
use crate::runner::*;
use serde_json::{Value, json};
use std::collections::{BTreeMap, BTreeSet};
use std::net::{IpAddr, Ipv4Addr, Ipv6Addr};
use wirefilter::{Array, ExecutionContext, Filter, LhsValue, Scheme, SchemeBuilder, Type};

// ---------------------------------------------------------------------------
// model

#[derive(Clone, Copy, PartialEq, Eq, Hash, Debug, PartialOrd, Ord)]
pub enum Fam {
    Int,
    V4,
    V6,
}

impl Fam {
    fn max(self) -> u128 {
        match self {
            Fam::Int => u64::MAX as u128,
            Fam::V4 => u32::MAX as u128,
            Fam::V6 => u128::MAX,
        }
    }
    fn bits(self) -> u32 {
        match self {
            Fam::Int => 64,
            Fam::V4 => 32,
            Fam::V6 => 128,
        }
    }
    fn name(self) -> &'static str {
        match self {
            Fam::Int => "int",
            Fam::V4 => "ipv4",
            Fam::V6 => "ipv6",
        }
    }
}

/// A point of one of the three ordered domains.  Integers are stored with the
/// order-preserving offset `x - i64::MIN`, addresses as their numeric value.
#[derive(Clone, Copy, PartialEq, Eq, Hash, Debug, PartialOrd, Ord)]
pub struct Pt {
    pub fam: Fam,
    pub v: u128,
}

impl Pt {
    pub fn int(x: i64) -> Pt {
        Pt { fam: Fam::Int, v: (x as i128 - i64::MIN as i128) as u128 }
    }
    pub fn v4(x: u32) -> Pt {
        Pt { fam: Fam::V4, v: x as u128 }
    }
    pub fn v6(x: u128) -> Pt {
        Pt { fam: Fam::V6, v: x }
    }
    pub fn as_i64(self) -> i64 {
        (self.v as i128 + i64::MIN as i128) as i64
    }
    pub fn as_ip(self) -> IpAddr {
        match self.fam {
            Fam::V4 => IpAddr::V4(Ipv4Addr::from(self.v as u32)),
            _ => IpAddr::V6(Ipv6Addr::from(self.v)),
        }
    }
    fn lhs(self) -> LhsValue<'static> {
        match self.fam {
            Fam::Int => LhsValue::Int(self.as_i64()),
            _ => LhsValue::Ip(self.as_ip()),
        }
    }
    /// style: ints 0 dec, 1 hex, 2 HEX, 3 octal (negatives always decimal);
    /// v6: 0/1 canonical, 2 full lower, 3 full upper
    fn text(self, style: u8) -> String {
        match self.fam {
            Fam::Int => {
                let x = self.as_i64();
                if x < 0 {
                    return format!("{x}");
                }
                match style % 4 {
                    1 => format!("0x{x:x}"),
                    2 => format!("0x{x:X}"),
                    3 => format!("0{x:o}"),
                    _ => format!("{x}"),
                }
            }
            Fam::V4 => Ipv4Addr::from(self.v as u32).to_string(),
            Fam::V6 => {
                let a = Ipv6Addr::from(self.v);
                let s = a.segments();
                match style % 4 {
                    2 => s.iter().map(|x| format!("{x:04x}")).collect::<Vec<_>>().join(":"),
                    3 => s.iter().map(|x| format!("{x:X}")).collect::<Vec<_>>().join(":"),
                    _ => a.to_string(),
                }
            }
        }
    }
    fn show(self) -> String {
        match self.fam {
            Fam::Int => self.as_i64().to_string(),
            _ => self.as_ip().to_string(),
        }
    }
}

#[derive(Clone, Copy, PartialEq, Eq, Hash, Debug)]
pub enum Kind {
    Single,
    /// inclusive range lo..hi
    Range,
    /// base/len; `b` holds the prefix length
    Cidr,
}

#[derive(Clone, Copy, PartialEq, Eq, Hash, Debug)]
pub struct Item {
    pub kind: Kind,
    pub fam: Fam,
    pub a: u128,
    pub b: u128,
    pub style: u8,
}

fn prefix_mask(fam: Fam, len: u32) -> u128 {
    let bits = fam.bits();
    if len == 0 { 0 } else { fam.max() & (u128::MAX << (bits - len)) }
}

impl Item {
    /// The property's "equals or contains", by the written form.
    pub fn has(&self, x: Pt) -> bool {
        if self.fam != x.fam {
            return false;
        }
        match self.kind {
            Kind::Single => x.v == self.a,
            Kind::Range => self.a <= x.v && x.v <= self.b,
            Kind::Cidr => {
                let m = prefix_mask(self.fam, self.b as u32);
                (x.v & m) == (self.a & m)
            }
        }
    }
    /// first and last member (for probes and shape statistics)
    pub fn bounds(&self) -> (u128, u128) {
        match self.kind {
            Kind::Single => (self.a, self.a),
            Kind::Range => (self.a, self.b),
            Kind::Cidr => {
                let m = prefix_mask(self.fam, self.b as u32);
                (self.a & m, (self.a & m) | (self.fam.max() & !m))
            }
        }
    }
    pub fn text(&self) -> String {
        let p = |v| Pt { fam: self.fam, v };
        match self.kind {
            Kind::Single => p(self.a).text(self.style),
            Kind::Range => format!("{}..{}", p(self.a).text(self.style), p(self.b).text(self.style / 4)),
            Kind::Cidr => format!("{}/{}", p(self.a).text(self.style), self.b),
        }
    }
}

pub fn member(items: &[Item], x: Pt) -> bool {
    let mut found = false;
    for it in items {
        if it.has(x) {
            found = true;
        }
    }
    found
}

#[derive(Default, Clone, Copy)]
struct ListShape {
    unsorted: bool,
    overlapping: bool,
    touching: bool,
    nested: bool,
    duplicate: bool,
    full: bool,
    mixed: bool,
}

impl ListShape {
    fn interesting(&self) -> bool {
        self.unsorted || self.overlapping || self.touching || self.nested || self.duplicate
    }
}

fn list_shape(items: &[Item]) -> ListShape {
    let mut s = ListShape::default();
    let b: Vec<(Fam, u128, u128)> = items.iter().map(|i| (i.fam, i.bounds().0, i.bounds().1)).collect();
    for i in 0..b.len() {
        if b[i].1 == 0 && b[i].2 == b[i].0.max() {
            s.full = true;
        }
        if b[i].0 != b[0].0 {
            s.mixed = true;
        }
        // written order of the same family
        if let Some(j) = (i + 1..b.len()).find(|j| b[*j].0 == b[i].0) {
            if b[j].1 < b[i].1 {
                s.unsorted = true;
            }
        }
        for j in i + 1..b.len() {
            if b[i].0 != b[j].0 {
                continue;
            }
            let (al, ah, bl, bh) = (b[i].1, b[i].2, b[j].1, b[j].2);
            if (al, ah) == (bl, bh) {
                s.duplicate = true;
            } else if (al <= bl && bh <= ah) || (bl <= al && ah <= bh) {
                s.nested = true;
            } else if al <= bh && bl <= ah {
                s.overlapping = true;
            } else if ah.checked_add(1) == Some(bl) || bh.checked_add(1) == Some(al) {
                s.touching = true;
            }
        }
    }
    s
}

fn near_boundary(items: &[Item], x: Pt) -> bool {
    items.iter().any(|i| {
        let (lo, hi) = i.bounds();
        i.fam == x.fam && (x.v.abs_diff(lo) <= 1 || x.v.abs_diff(hi) <= 1)
    })
}

// ---------------------------------------------------------------------------
// engine side

fn scheme() -> Scheme {
    let mut b = SchemeBuilder::new();
    b.add_optional_field("n", Type::Int).expect("n");
    b.add_optional_field("ip", Type::Ip).expect("ip");
    b.add_optional_field("s", Type::Bytes).expect("s");
    b.add_optional_field("an", Type::Array(Type::Int.into())).expect("an");
    b.add_optional_field("aip", Type::Array(Type::Ip.into())).expect("aip");
    b.add_optional_field("asb", Type::Array(Type::Bytes.into())).expect("asb");
    b.build()
}

const SEPS: [&str; 5] = [" ", "  ", "\n", " \n ", "\r\n"];

fn list_text(items: &[String], sep: usize, pad: bool) -> String {
    let mut s = String::from("{");
    if pad {
        s.push(' ');
    }
    for (i, it) in items.iter().enumerate() {
        if i > 0 {
            s.push_str(SEPS[(sep + i * (sep / SEPS.len())) % SEPS.len()]);
        }
        s.push_str(it);
    }
    if pad {
        s.push(' ');
    }
    s.push('}');
    s
}

fn compile(scheme: &Scheme, text: &str, case: &dyn Fn() -> Value) -> Result<Filter, Fail> {
    match catch(|| scheme.parse(text).map(|ast| ast.compile()).map_err(|e| e.to_string())) {
        Ok(Ok(f)) => Ok(f),
        Ok(Err(e)) => Err(Fail::new("in-list-rejected", format!("parser rejected a well-formed list:\n{e}"), case())),
        Err(p) => Err(Fail::new("in-compile-panic", format!("parse/compile panicked: {p}"), case())),
    }
}

fn exec(f: &Filter, ec: &ExecutionContext<'_>, st: &mut Stats, case: &dyn Fn() -> Value) -> Result<bool, Fail> {
    st.eval();
    match catch(|| f.execute(ec)) {
        Ok(Ok(b)) => Ok(b),
        Ok(Err(e)) => Err(Fail::new("in-execute-error", e.to_string(), case())),
        Err(p) => Err(Fail::new("in-execute-panic", format!("execution panicked: {p}"), case())),
    }
}

fn dir(want: bool) -> &'static str {
    if want { "false-negative" } else { "false-positive" }
}

/// Check one list of range items (Int or Ip field) against all probes.
fn check_ranges(
    is_int: bool,
    items: &[Item],
    probes: &[Pt],
    sep: usize,
    pad: bool,
    under_star: bool,
    st: &mut Stats,
) -> CaseResult {
    let scheme = scheme();
    let texts: Vec<String> = items.iter().map(|i| i.text()).collect();
    let list = list_text(&texts, sep, pad);
    let (fname, aname, tyname) = if is_int { ("n", "an", "int") } else { ("ip", "aip", "ip") };
    let text = if under_star { format!("any({aname}[*] in {list})") } else { format!("{fname} in {list}") };
    let show = |probe: Option<Pt>, extra: Value| {
        json!({
            "filter": text,
            "items": texts,
            "probe": probe.map(|p| p.show()),
            "probe_family": probe.map(|p| p.fam.name()),
            "detail": extra,
        })
    };
    let filter = compile(&scheme, &text, &|| show(None, Value::Null))?;
    let shape = list_shape(items);
    let mut counts: BTreeMap<&'static str, u64> = BTreeMap::new();
    let mut bump = |k: &'static str| *counts.entry(k).or_insert(0) += 1;
    bump(if is_int { "list:int" } else { "list:ip" });
    if under_star {
        bump("form:any(array[*] in {..})");
    }
    for (c, name) in [
        (items.is_empty(), "list:empty"),
        (items.len() >= 10, "list:10+items"),
        (shape.unsorted, "list:unsorted"),
        (shape.overlapping, "list:overlapping-items"),
        (shape.touching, "list:touching-items"),
        (shape.nested, "list:nested-items"),
        (shape.duplicate, "list:duplicate-items"),
        (shape.full, "list:has-full-range(/0 or MIN..MAX)"),
        (shape.mixed, "list:v4-and-v6-mixed"),
        (items.iter().any(|i| i.kind == Kind::Cidr), "list:has-cidr"),
        (items.iter().any(|i| i.kind == Kind::Range), "list:has-explicit-range"),
    ] {
        if c {
            bump(name);
        }
    }
    let elem_ty = if is_int { Type::Int } else { Type::Ip };
    let field = scheme.get_field(if under_star { aname } else { fname }).expect("field");
    let mut truths = Vec::with_capacity(probes.len());
    for &x in probes {
        let want = member(items, x);
        truths.push(want);
        let mut ec = ExecutionContext::new(&scheme);
        if under_star {
            let arr = Array::try_from_iter(elem_ty.clone(), [x.lhs()]).expect("array");
            ec.set_field_value(field, LhsValue::Array(arr)).expect("array value");
        } else {
            ec.set_field_value(field, x.lhs()).expect("scalar value");
        }
        let got = exec(&filter, &ec, st, &|| show(Some(x), Value::Null))?;
        if got != want {
            let holders: Vec<String> = items.iter().filter(|i| i.has(x)).map(|i| i.text()).collect();
            return Err(Fail::new(
                format!("in-{tyname}-{}", dir(want)),
                format!("`{text}` with {} = {}: engine {got}, linear scan over the written items {want}", if under_star { aname } else { fname }, x.show()),
                show(Some(x), json!({"expected": want, "got": got, "items_containing_probe": holders})),
            ));
        }
        let near = near_boundary(items, x);
        bump(if want { "probe:member" } else { "probe:non-member" });
        if near {
            bump("probe:within-1-of-an-item-boundary");
        }
        if !is_int && !items.is_empty() && items.iter().all(|i| i.fam != x.fam) {
            bump("probe:family-absent-from-list");
        }
        if !is_int && items.iter().any(|i| i.fam != x.fam) && items.iter().any(|i| i.fam == x.fam) {
            bump("probe:list-has-both-families");
        }
        if shape.interesting() && near {
            bump("nt:messy-list-and-boundary-probe");
            st.nontrivial(&(&texts, x, under_star));
            st.sample("nontrivial", || json!({"filter": text, "probe": x.show(), "result": want}));
        }
    }
    // absent probe, and under [*]: all probes at once / the empty array
    {
        let ec = ExecutionContext::new(&scheme);
        let got = exec(&filter, &ec, st, &|| show(None, json!("field unset")))?;
        bump("probe:absent");
        if got {
            return Err(Fail::new(
                format!("in-{tyname}-absent-true"),
                format!("`{text}` is true although the field has no value"),
                show(None, json!("field unset")),
            ));
        }
    }
    if under_star {
        let mut ec = ExecutionContext::new(&scheme);
        let arr = Array::try_from_iter(elem_ty.clone(), probes.iter().map(|p| p.lhs())).expect("array");
        ec.set_field_value(field, LhsValue::Array(arr)).expect("array value");
        let want = truths.iter().any(|t| *t);
        let all: Vec<String> = probes.iter().map(|p| p.show()).collect();
        let got = exec(&filter, &ec, st, &|| show(None, json!({"array": all})))?;
        if got != want {
            return Err(Fail::new(
                format!("in-{tyname}-under-any-mismatch"),
                format!("`{text}` over all probes at once: engine {got}, model {want}"),
                show(None, json!({"array": all, "element_truths": truths})),
            ));
        }
        // per element under [*]: one answer for every element, also when all are false
        for (quant, form, want2) in [
            ("all", format!("all({aname}[*] in {list})"), truths.iter().all(|t| *t)),
            ("any-not", format!("any(not ({aname}[*] in {list}))"), truths.iter().any(|t| !*t)),
            ("all-not", format!("all(not {aname}[*] in {list})"), truths.iter().all(|t| !*t)),
        ] {
            let f2 = compile(&scheme, &form, &|| show(None, json!({"filter": form})))?;
            let got = exec(&f2, &ec, st, &|| show(None, json!({"filter": form, "array": all})))?;
            if got != want2 {
                return Err(Fail::new(
                    format!("in-{tyname}-per-element-mismatch"),
                    format!("`{form}` over all probes at once ({quant}): engine {got}, model {want2}"),
                    show(None, json!({"filter": form, "array": all, "element_truths": truths})),
                ));
            }
        }
        let mut ec = ExecutionContext::new(&scheme);
        ec.set_field_value(field, LhsValue::Array(Array::new(elem_ty))).expect("empty array");
        let got = exec(&filter, &ec, st, &|| show(None, json!("empty array")))?;
        if got {
            return Err(Fail::new(format!("in-{tyname}-under-any-mismatch"), format!("`{text}` is true over an empty array"), show(None, json!("empty array"))));
        }
    }
    for (k, v) in counts {
        st.class_n(k, v);
    }
    Ok(())
}

// ---------------------------------------------------------------------------
// exhaustive part: all lists of <= K inclusive ranges over a 7-point domain

const NPAIRS: usize = 28;

fn domain(d: usize) -> [Pt; 7] {
    match d {
        0 => [i64::MIN, i64::MIN + 1, -1, 0, 1, i64::MAX - 1, i64::MAX].map(Pt::int),
        1 => [0u32, 1, 0x7fff_ffff, 0x8000_0000, 0x8000_0001, 0xffff_fffe, 0xffff_ffff].map(Pt::v4),
        _ => [0u128, 1, (1 << 127) - 1, 1 << 127, (1 << 127) + 1, u128::MAX - 1, u128::MAX].map(Pt::v6),
    }
}

fn pair(p: usize) -> (usize, usize) {
    // all lo <= hi over 0..7 in lexicographic order
    let mut k = 0;
    for lo in 0..7 {
        for hi in lo..7 {
            if k == p {
                return (lo, hi);
            }
            k += 1;
        }
    }
    (6, 6)
}

/// CIDR prefix length if lo..hi is an aligned power-of-two block.
fn aligned(fam: Fam, lo: u128, hi: u128) -> Option<u32> {
    let span = hi - lo;
    if span & span.wrapping_add(1) == 0 && lo & span == 0 {
        Some(fam.bits() - span.count_ones())
    } else {
        None
    }
}

fn exh_probes(d: usize) -> Vec<Pt> {
    let mut v: Vec<Pt> = domain(d).to_vec();
    match d {
        0 => v.extend([i64::MIN + 2, i64::MIN / 2, -2, 2, 12345, i64::MAX - 2].map(Pt::int)),
        1 => {
            v.extend([2u32, 0x7fff_fffe, 0x8000_0002, 0xffff_fffd, 0x0a00_0001].map(Pt::v4));
            // other family: never a member
            v.extend([0u128, 1, 0xffff_8000_0001, 0x8000_0001, 0xffff_ffff_ffff, u128::MAX].map(Pt::v6));
        }
        _ => {
            v.extend([2u128, (1 << 127) - 2, (1 << 127) + 2, u128::MAX - 2, 0xffff_8000_0000].map(Pt::v6));
            v.extend([0u32, 1, 0x8000_0000, 0xffff_ffff].map(Pt::v4));
        }
    }
    v
}

/// key: [domain 0 int / 1 ipv4 / 2 ipv6, style 0..8, k, pair_1 .. pair_k]
fn exh_case(ch: &mut Choices<'_>, st: &mut Stats) -> CaseResult {
    let d = ch.draw(3);
    let style = ch.draw(8);
    let k = ch.draw(6);
    let pts = domain(d);
    let mut items = Vec::new();
    for i in 0..k {
        let (lo, hi) = pair(ch.draw(NPAIRS));
        let (lo, hi) = (pts[lo], pts[hi]);
        let fam = lo.fam;
        let sty = ((style + i) % 4) as u8;
        let variant = (style / 2 + i) % 3;
        let item = if lo == hi {
            match (fam, variant) {
                (Fam::Int, 0) | (_, 1) => Item { kind: Kind::Single, fam, a: lo.v, b: lo.v, style: sty },
                (Fam::Int, _) | (_, 0) => Item { kind: Kind::Range, fam, a: lo.v, b: hi.v, style: sty },
                _ => Item { kind: Kind::Cidr, fam, a: lo.v, b: fam.bits() as u128, style: sty },
            }
        } else {
            match aligned(fam, lo.v, hi.v) {
                Some(len) if fam != Fam::Int && variant != 0 => Item { kind: Kind::Cidr, fam, a: lo.v, b: len as u128, style: sty },
                _ => Item { kind: Kind::Range, fam, a: lo.v, b: hi.v, style: sty + 4 * ((sty + 1) % 4) },
            }
        };
        items.push(item);
    }
    st.class(["exh:int-domain", "exh:ipv4-domain", "exh:ipv6-domain"][d]);
    check_ranges(d == 0, &items, &exh_probes(d), style % 3, style % 2 == 1, false, st)
}

fn exh_total(d: usize, kmax: usize) -> u64 {
    let _ = d;
    (0..=kmax).map(|k| (NPAIRS as u64).pow(k as u32)).sum()
}

fn exh_key(d: usize, kmax: usize, mut i: u64) -> Vec<u32> {
    let style = (i % 8) as u32;
    for k in 0..=kmax {
        let n = (NPAIRS as u64).pow(k as u32);
        if i < n {
            let mut key = vec![d as u32, style, k as u32];
            for _ in 0..k {
                key.push((i % NPAIRS as u64) as u32);
                i /= NPAIRS as u64;
            }
            return key;
        }
        i -= n;
    }
    unreachable!()
}

// ---------------------------------------------------------------------------
// random part

const INT_EXTREMES: [i64; 13] =
    [i64::MIN, i64::MIN + 1, i64::MIN + 2, -2, -1, 0, 1, 2, i64::MAX - 2, i64::MAX - 1, i64::MAX, i32::MAX as i64, i32::MIN as i64];
const V4_EXTREMES: [u32; 14] = [
    0, 1, 2, 0x7fff_ffff, 0x8000_0000, 0xffff_fffe, 0xffff_ffff, 0x0a00_0000, 0x0aff_ffff, 0x7f00_0001, 0xc0a8_0000, 0xc0a8_00ff, 0xc0a8_0100, 0x00ff_ffff,
];
const V6_EXTREMES: [u128; 12] = [
    0,
    1,
    2,
    0xffff_0000_0000,
    0xffff_ffff_ffff,
    0xffff_0a00_0000,
    1 << 127,
    (1 << 127) - 1,
    u128::MAX - 1,
    u128::MAX,
    0x2001_0db8 << 96,
    (0x2001_0db9 << 96) - 1,
];

fn nudge(ch: &mut Choices<'_>, fam: Fam, v: u128) -> u128 {
    match ch.draw(5) {
        0 => v,
        1 => v.saturating_sub(1),
        2 => v.checked_add(1).filter(|x| *x <= fam.max()).unwrap_or(v),
        3 => v.saturating_sub(2),
        _ => v.checked_add(2).filter(|x| *x <= fam.max()).unwrap_or(v),
    }
}

fn point(ch: &mut Choices<'_>, fam: Fam, pool: &[Pt]) -> u128 {
    let same: Vec<u128> = pool.iter().filter(|p| p.fam == fam).map(|p| p.v).collect();
    match ch.weighted(&[3, 4, 2, 2, 1]) {
        0 => match fam {
            Fam::Int => Pt::int(*ch.pick(&INT_EXTREMES)).v,
            Fam::V4 => *ch.pick(&V4_EXTREMES) as u128,
            Fam::V6 => *ch.pick(&V6_EXTREMES),
        },
        1 if !same.is_empty() => {
            let v = *ch.pick(&same);
            nudge(ch, fam, v)
        }
        2 => match fam {
            // small values
            Fam::Int => Pt::int(ch.draw(41) as i64 - 20).v,
            Fam::V4 => 0x0a00_0000 + ch.draw(600) as u128,
            Fam::V6 => (0x2001_0db8u128 << 96) + ch.draw(600) as u128,
        },
        3 if fam == Fam::V6 => {
            // the v4-mapped / v4-compatible image of a v4 point of the list
            let v4s: Vec<u128> = pool.iter().filter(|p| p.fam == Fam::V4).map(|p| p.v).collect();
            let base = if v4s.is_empty() { *ch.pick(&V4_EXTREMES) as u128 } else { *ch.pick(&v4s) };
            if ch.boolean() { 0xffff_0000_0000 | base } else { base }
        }
        3 if fam == Fam::V4 => {
            // low 32 bits of a v6 point of the list
            let v6s: Vec<u128> = pool.iter().filter(|p| p.fam == Fam::V6).map(|p| p.v).collect();
            if v6s.is_empty() { *ch.pick(&V4_EXTREMES) as u128 } else { *ch.pick(&v6s) & 0xffff_ffff }
        }
        _ => {
            let r = ((ch.u64() as u128) << 64) | ch.u64() as u128;
            r & fam.max()
        }
    }
}

fn random_item(ch: &mut Choices<'_>, fam: Fam, pool: &mut Vec<Pt>) -> Item {
    let style = ch.draw(16) as u8;
    let kind = if fam == Fam::Int { ch.weighted(&[2, 3]) } else { ch.weighted(&[2, 3, 3]) };
    let item = match kind {
        0 => {
            let a = point(ch, fam, pool);
            Item { kind: Kind::Single, fam, a, b: a, style }
        }
        1 => {
            let a = point(ch, fam, pool);
            pool.push(Pt { fam, v: a });
            let b = point(ch, fam, pool);
            Item { kind: Kind::Range, fam, a: a.min(b), b: a.max(b), style }
        }
        _ => {
            let bits = fam.bits() as usize;
            let len = match ch.weighted(&[3, 2]) {
                0 => *ch.pick(&[0usize, 1, 8, 16, 24, bits - 8, bits - 2, bits - 1, bits]),
                _ => ch.draw(bits + 1),
            };
            let a = point(ch, fam, pool) & prefix_mask(fam, len as u32);
            Item { kind: Kind::Cidr, fam, a, b: len as u128, style }
        }
    };
    let (lo, hi) = item.bounds();
    pool.push(Pt { fam, v: lo });
    pool.push(Pt { fam, v: hi });
    item
}

fn list_len(ch: &mut Choices<'_>) -> usize {
    match ch.weighted(&[1, 6, 5, 3]) {
        0 => 0,
        1 => 1 + ch.draw(4),
        2 => 5 + ch.draw(8),
        _ => 13 + ch.draw(28),
    }
}

/// `stride * raw / 2^shift` without overflow.
fn frac(stride: u128, raw: u32, shift: u32) -> u128 {
    if stride < 1 << 64 { (stride * raw as u128) >> shift } else { (stride >> shift) * raw as u128 }
}

/// A long list of (mostly) disjoint items laid out on a grid over the whole
/// domain, with some wide items spanning several grid cells: what a structure
/// that changes its search strategy with the number of ranges (or buckets them
/// by leading bits) must still answer exactly.  Few draws: two per item.
fn grid_case(is_int: bool, ch: &mut Choices<'_>, st: &mut Stats) -> CaseResult {
    let n = *ch.pick(&[15usize, 16, 17, 31, 32, 33, 48, 63, 64, 65, 100, 128, 129, 200]);
    let fam = if is_int { Fam::Int } else if ch.chance(3, 4) { Fam::V4 } else { Fam::V6 };
    // the grid covers a drawn fraction of the domain (whole, top bits only, a small window)
    let span_bits = match fam {
        Fam::Int => *ch.pick(&[64u32, 63, 40, 16]),
        Fam::V4 => *ch.pick(&[32u32, 31, 28, 20, 12]),
        Fam::V6 => *ch.pick(&[128u32, 127, 100, 64, 33, 16]),
    };
    let span: u128 = if span_bits >= 128 { u128::MAX } else { (1u128 << span_bits) - 1 };
    let span = span.min(fam.max());
    let base: u128 = if span == fam.max() { 0 } else { (((ch.u64() as u128) << 64) | ch.u64() as u128) & (fam.max() - span) };
    let stride = (span / n as u128).max(4);
    let mut items: Vec<Item> = Vec::new();
    let other = if fam == Fam::V4 { Fam::V6 } else { Fam::V4 };
    for i in 0..n {
        let cell = base.saturating_add(stride.saturating_mul(i as u128)).min(fam.max());
        let jitter = frac(stride, ch.raw(), 34); // up to a quarter of the cell
        let lo = cell.saturating_add(jitter).min(fam.max());
        let style = (i % 16) as u8;
        let w = ch.raw();
        let item = match w % 8 {
            0 => Item { kind: Kind::Single, fam, a: lo, b: lo, style },
            // spans 1.5 .. 3.5 cells (merges with its neighbours, crosses every bucket boundary in between)
            1 if i + 4 < n => {
                let hi = lo.saturating_add(stride).saturating_add(frac(stride, w, 31)).min(fam.max());
                Item { kind: Kind::Range, fam, a: lo, b: hi, style }
            }
            2 => {
                // an aligned block inside the cell
                let bits = fam.bits();
                let host = (127 - (stride / 2).leading_zeros()).min(bits);
                let len = bits - host.min(bits);
                let a = lo & prefix_mask(fam, len);
                if fam == Fam::Int || a < cell { Item { kind: Kind::Single, fam, a: lo, b: lo, style } } else { Item { kind: Kind::Cidr, fam, a, b: len as u128, style } }
            }
            3 if !is_int && i % 7 == 0 => {
                // an item of the other family in between
                let a = if other == Fam::V6 { 0xffff_0000_0000 | (lo & 0xffff_ffff) } else { lo & 0xffff_ffff };
                Item { kind: Kind::Single, fam: other, a, b: a, style }
            }
            _ => {
                let hi = lo.saturating_add(frac(stride, w, 33)).min(fam.max()); // up to half a cell
                Item { kind: Kind::Range, fam, a: lo, b: hi, style }
            }
        };
        items.push(item);
    }
    // the list is written in a drawn order (sorted, reversed, interleaved)
    match ch.draw(3) {
        0 => {}
        1 => items.reverse(),
        _ => {
            let (a, b): (Vec<_>, Vec<_>) = items.iter().enumerate().partition(|(i, _)| i % 2 == 0);
            items = a.into_iter().chain(b).map(|(_, it)| *it).collect();
        }
    }
    let mut probes: BTreeSet<Pt> = BTreeSet::new();
    for it in &items {
        let (lo, hi) = it.bounds();
        for b in [lo, hi] {
            for v in [b.checked_sub(1), Some(b), b.checked_add(1).filter(|x| *x <= it.fam.max())].into_iter().flatten() {
                probes.insert(Pt { fam: it.fam, v });
            }
        }
        // interior points, a quarter of the item apart (they fall into other cells / buckets for wide items)
        if hi - lo >= 4 {
            for k in 1..4u128 {
                probes.insert(Pt { fam: it.fam, v: lo + (hi - lo) / 4 * k });
            }
        }
        if it.fam == Fam::V4 {
            probes.insert(Pt::v6(0xffff_0000_0000 | lo));
        }
    }
    // gaps: the middle of every cell boundary region
    for i in 0..n {
        let v = base.saturating_add(stride.saturating_mul(i as u128)).saturating_add(stride - 1);
        if v <= fam.max() {
            probes.insert(Pt { fam, v });
        }
    }
    let probes: Vec<Pt> = probes.into_iter().collect();
    st.class(&format!("grid:{}-items", if n < 32 { "15..31" } else if n < 64 { "32..63" } else { "64..200" }));
    let sep = ch.weighted(&[6, 1, 1, 1, 1]);
    check_ranges(is_int, &items, &probes, sep, false, ch.chance(1, 6), st)
}

fn ranges_case(is_int: bool, ch: &mut Choices<'_>, st: &mut Stats) -> CaseResult {
    if ch.chance(1, 6) {
        return grid_case(is_int, ch, st);
    }
    let n = list_len(ch);
    // 0: v4 only, 1: v6 only, 2: mixed
    let fam_mode = if is_int { 0 } else { ch.weighted(&[3, 2, 5]) };
    let mut pool: Vec<Pt> = Vec::new();
    let mut items: Vec<Item> = Vec::new();
    for _ in 0..n {
        if !items.is_empty() && ch.chance(1, 8) {
            // duplicate of an earlier item (possibly written differently)
            let mut it = *ch.pick(&items);
            it.style = ch.draw(16) as u8;
            items.push(it);
            continue;
        }
        let fam = if is_int {
            Fam::Int
        } else {
            match fam_mode {
                0 => Fam::V4,
                1 => Fam::V6,
                _ => {
                    if ch.boolean() {
                        Fam::V6
                    } else {
                        Fam::V4
                    }
                }
            }
        };
        items.push(random_item(ch, fam, &mut pool));
    }
    // probes: every boundary and its neighbours, cross-family images, extremes, a few drawn points
    let mut probes: BTreeSet<Pt> = BTreeSet::new();
    for it in &items {
        let (lo, hi) = it.bounds();
        for b in [lo, hi] {
            for v in [b.checked_sub(1), Some(b), b.checked_add(1).filter(|x| *x <= it.fam.max())].into_iter().flatten() {
                probes.insert(Pt { fam: it.fam, v });
            }
            match it.fam {
                Fam::V4 => {
                    probes.insert(Pt::v6(0xffff_0000_0000 | b));
                    probes.insert(Pt::v6(b));
                }
                Fam::V6 => {
                    probes.insert(Pt::v4((b & 0xffff_ffff) as u32));
                }
                Fam::Int => {}
            }
        }
        if lo < hi {
            probes.insert(Pt { fam: it.fam, v: lo + (hi - lo) / 2 });
        }
    }
    if is_int {
        for x in [i64::MIN, -1, 0, 1, i64::MAX] {
            probes.insert(Pt::int(x));
        }
        // values that agree with an item boundary in their low 16 / 32 bits only
        // (narrowed storage or truncating casts)
        let bounds: Vec<Pt> = probes.iter().copied().collect();
        for p in bounds {
            if p.fam == Fam::Int {
                let x = p.as_i64();
                for y in [x.wrapping_add(1 << 32), x.wrapping_sub(1 << 32), x ^ (1 << 32), x.wrapping_add(1 << 16), x ^ (1 << 63), x ^ (1 << 31)] {
                    probes.insert(Pt::int(y));
                }
            }
        }
    } else {
        for x in [0u32, u32::MAX] {
            probes.insert(Pt::v4(x));
        }
        for x in [0u128, u128::MAX, 0xffff_0000_0000, 0xffff_ffff_ffff] {
            probes.insert(Pt::v6(x));
        }
    }
    for _ in 0..3 {
        let fam = if is_int {
            Fam::Int
        } else if ch.boolean() {
            Fam::V6
        } else {
            Fam::V4
        };
        let v = point(ch, fam, &pool);
        probes.insert(Pt { fam, v });
    }
    let probes: Vec<Pt> = probes.into_iter().collect();
    let sep = ch.weighted(&[6, 1, 1, 1, 1]) + SEPS.len() * ch.draw(2);
    let pad = ch.boolean();
    let under_star = ch.chance(1, 4);
    check_ranges(is_int, &items, &probes, sep, pad, under_star, st)
}

fn int_case(ch: &mut Choices<'_>, st: &mut Stats) -> CaseResult {
    ranges_case(true, ch, st)
}

fn ip_case(ch: &mut Choices<'_>, st: &mut Stats) -> CaseResult {
    ranges_case(false, ch, st)
}

// byte-string sets

const BYTE_ALPHA: [u8; 12] = [b'a', b'b', b'a', 0x00, 0xff, b'"', b'\\', b' ', b'}', b'A', 0x80, b'{'];

fn bytes_text(v: &[u8], form: u8) -> String {
    match form % 5 {
        // hex pairs need >= 2 bytes
        3 | 4 if v.len() >= 2 => {
            let sep = if form % 5 == 3 { ":" } else { "-" };
            v.iter().map(|b| format!("{b:02x}")).collect::<Vec<_>>().join(sep)
        }
        f => quote_bytes(v, f % 3),
    }
}

fn bytes_case(ch: &mut Choices<'_>, st: &mut Stats) -> CaseResult {
    let n = list_len(ch);
    let mut items: Vec<Vec<u8>> = Vec::new();
    for _ in 0..n {
        let it = match ch.weighted(&[2, 4, 2, 1, 1]) {
            // a fresh short word
            0 => (0..ch.draw(5)).map(|_| *ch.pick(&BYTE_ALPHA)).collect(),
            // an earlier item extended (shared prefix)
            1 if !items.is_empty() => {
                let mut v = ch.pick(&items).clone();
                for _ in 0..1 + ch.draw(2) {
                    v.push(*ch.pick(&BYTE_ALPHA));
                }
                v
            }
            // a prefix of an earlier item
            2 if !items.is_empty() => {
                let v = ch.pick(&items).clone();
                let k = ch.draw(v.len() + 1);
                v[..k].to_vec()
            }
            // duplicate
            3 if !items.is_empty() => ch.pick(&items).clone(),
            4 => Vec::new(),
            _ => (0..1 + ch.draw(8)).map(|_| ch.byte()).collect(),
        };
        // some members are stretched across size thresholds (63..65, 84, 128, 255..257, 300 bytes)
        let it = if ch.chance(1, 6) {
            let n = *ch.pick(&[63usize, 64, 65, 84, 127, 128, 129, 255, 256, 257, 300]);
            let seed: Vec<u8> = if it.is_empty() { vec![b'h'] } else { it.clone() };
            let mut v = it;
            while v.len() < n {
                let k = v.len();
                v.push(seed[k % seed.len()]);
            }
            v
        } else {
            it
        };
        items.push(it);
    }
    let forms: Vec<u8> = items.iter().map(|_| ch.draw(5) as u8).collect();
    let mut probes: BTreeSet<Vec<u8>> = BTreeSet::new();
    probes.insert(Vec::new());
    for it in &items {
        probes.insert(it.clone());
        let mut v = it.clone();
        v.push(*ch.pick(&BYTE_ALPHA));
        probes.insert(v);
        // the same text with NUL / 0xff padding added or stripped (fixed-width packing loses the length)
        for pad in [0x00u8, 0xff, b' '] {
            let mut v = it.clone();
            v.push(pad);
            probes.insert(v.clone());
            v.push(pad);
            probes.insert(v);
            let mut v = vec![pad];
            v.extend_from_slice(it);
            probes.insert(v);
            let stripped: Vec<u8> = { let mut t = it.clone(); while t.last() == Some(&pad) { t.pop(); } t };
            probes.insert(stripped);
        }
        if !it.is_empty() {
            probes.insert(it[..it.len() - 1].to_vec());
            probes.insert(it[1..].to_vec());
            let mut v = it.clone();
            let k = v.len() - 1;
            v[k] ^= 1;
            probes.insert(v);
            let mut v = it.clone();
            v[0] = v[0].wrapping_add(1);
            probes.insert(v);
        }
    }
    for _ in 0..2 {
        probes.insert((0..ch.draw(4)).map(|_| *ch.pick(&BYTE_ALPHA)).collect());
    }
    let probes: Vec<Vec<u8>> = probes.into_iter().collect();
    let sep = ch.weighted(&[6, 1, 1, 1, 1]) + SEPS.len() * ch.draw(2);
    let pad = ch.boolean();
    let under_star = ch.chance(1, 4);

    let scheme = scheme();
    let texts: Vec<String> = items.iter().zip(&forms).map(|(v, f)| bytes_text(v, *f)).collect();
    let list = list_text(&texts, sep, pad);
    let text = if under_star { format!("any(asb[*] in {list})") } else { format!("s in {list}") };
    let show = |probe: Option<&[u8]>, extra: Value| {
        json!({"filter": text, "items": items.iter().map(|v| show_bytes(v)).collect::<Vec<_>>(), "probe": probe.map(show_bytes), "detail": extra})
    };
    let filter = compile(&scheme, &text, &|| show(None, Value::Null))?;
    let field = scheme.get_field(if under_star { "asb" } else { "s" }).expect("field");
    let mut shared_prefix = false;
    let mut duplicate = false;
    for i in 0..items.len() {
        for j in 0..items.len() {
            if i != j && items[j].starts_with(&items[i]) {
                if items[i] == items[j] {
                    duplicate = true;
                } else {
                    shared_prefix = true;
                }
            }
        }
    }
    let mut counts: BTreeMap<&'static str, u64> = BTreeMap::new();
    let mut bump = |k: &'static str| *counts.entry(k).or_insert(0) += 1;
    bump("list:bytes");
    for (c, name) in [
        (items.is_empty(), "list:empty"),
        (items.len() >= 10, "list:10+items"),
        (shared_prefix, "list:bytes-item-is-prefix-of-another"),
        (duplicate, "list:duplicate-items"),
        (items.iter().any(|i| i.is_empty()), "list:bytes-has-empty-string"),
        (under_star, "form:any(array[*] in {..})"),
    ] {
        if c {
            bump(name);
        }
    }
    let mut truths = Vec::new();
    for p in &probes {
        // linear scan over the written items
        let mut want = false;
        for it in &items {
            if it.len() == p.len() && it.iter().zip(p.iter()).all(|(a, b)| a == b) {
                want = true;
            }
        }
        truths.push(want);
        let mut ec = ExecutionContext::new(&scheme);
        let val = LhsValue::Bytes(p.clone().into());
        if under_star {
            ec.set_field_value(field, LhsValue::Array(Array::try_from_iter(Type::Bytes, [val]).expect("array"))).expect("array value");
        } else {
            ec.set_field_value(field, val).expect("bytes value");
        }
        let got = exec(&filter, &ec, st, &|| show(Some(p), Value::Null))?;
        if got != want {
            return Err(Fail::new(
                format!("in-bytes-{}", dir(want)),
                format!("`{text}` with value {:?}: engine {got}, linear scan over the written items {want}", show_bytes(p)),
                show(Some(p), json!({"expected": want, "got": got})),
            ));
        }
        bump(if want { "probe:member" } else { "probe:non-member" });
        // within one trailing byte of an item
        let near = items.iter().any(|it| {
            (it.len() == p.len() + 1 && it.starts_with(p)) || (p.len() == it.len() + 1 && p.starts_with(it)) || it == p
        });
        if (shared_prefix || duplicate) && near {
            bump("nt:messy-list-and-boundary-probe");
            st.nontrivial(&(&texts, p, under_star));
            st.sample("nontrivial-bytes", || json!({"filter": text, "probe": show_bytes(p), "result": want}));
        }
    }
    {
        let ec = ExecutionContext::new(&scheme);
        let got = exec(&filter, &ec, st, &|| show(None, json!("field unset")))?;
        bump("probe:absent");
        if got {
            return Err(Fail::new("in-bytes-absent-true", format!("`{text}` is true although the field has no value"), show(None, json!("field unset"))));
        }
    }
    if under_star {
        let mut ec = ExecutionContext::new(&scheme);
        let arr = Array::try_from_iter(Type::Bytes, probes.iter().map(|p| LhsValue::Bytes(p.clone().into()))).expect("array");
        ec.set_field_value(field, LhsValue::Array(arr)).expect("array value");
        let want = truths.iter().any(|t| *t);
        let got = exec(&filter, &ec, st, &|| show(None, json!("all probes in one array")))?;
        if got != want {
            return Err(Fail::new(
                "in-bytes-under-any-mismatch",
                format!("`{text}` over all probes at once: engine {got}, model {want}"),
                show(None, json!({"array": probes.iter().map(|p| show_bytes(p)).collect::<Vec<_>>(), "element_truths": truths})),
            ));
        }
    }
    for (k, v) in counts {
        st.class_n(k, v);
    }
    Ok(())
}

pub fn subs() -> Vec<Sub> {
    vec![
        Sub { name: "exhaustive", f: Box::new(exh_case) },
        Sub { name: "int-random", f: Box::new(int_case) },
        Sub { name: "ip-random", f: Box::new(ip_case) },
        Sub { name: "bytes-random", f: Box::new(bytes_case) },
    ]
}

pub fn run(run: &Run) {
    run.rule(
        "exhaustive: every list of <= K inclusive ranges (28 ranges each) over the 7-point domain {MIN,MIN+1,-1,0,1,MAX-1,MAX} of i64, over {0.0.0.0, 0.0.0.1, 127.255.255.255, 128.0.0.0, 128.0.0.1, 255.255.255.254, 255.255.255.255} and over the IPv6 analogue, \
         single points written as value / a..a / host CIDR, aligned ranges also as CIDR, every domain point plus in-between values and other-family addresses as probes, plus the unset field (K: quick 3 int/v4, 2 v6; thorough 4 int/v4, 3 v6); \
         random: lists of 0..=40 items (single values, a..b, CIDR /0../32 resp. /128, duplicates; endpoints drawn from type extremes, around earlier endpoints (+-2), v4-mapped/v4-compatible images of the other family, uniformly), v4 only / v6 only / mixed, \
         literal forms varied (hex/octal ints, full/compressed v6, separators incl. newlines), probes = every item boundary -1/0/+1, midpoints, cross-family images, extremes, drawn points, the unset field; a quarter of the cases through any(array[*] in {..}) on singleton arrays, all probes at once and the empty array; \
         byte-string sets with shared prefixes, \"\", duplicates, bytes needing escapes, probes = items +-1 byte; \
         non-trivial = the list is unsorted or has overlapping/touching/nested/duplicate items (bytes: an item that is a prefix of another, or duplicates) and the probe lies within one unit of an item boundary; distinct by (list text, probe, form)",
    );
    run.assume("integer / IP / byte-string literal forms denote the values written (checked by C06)");
    run.assume("any(array[*] <cmp>) is true iff the comparison holds for some element (checked by C02)");
    let subs = subs();
    run_regressions(run, &subs);
    let (k, k6) = run.tier.pick((3usize, 2usize), (4, 3));
    let tot: Vec<u64> = vec![exh_total(0, k), exh_total(1, k), exh_total(2, k6)];
    let total: u64 = tot.iter().sum();
    run.note("exhaustive_lists", json!({"int": tot[0], "ipv4": tot[1], "ipv6": tot[2], "max_items": {"int": k, "ipv4": k, "ipv6": k6}}));
    run.enumerate(
        "exhaustive",
        total,
        &|i| {
            if i < tot[0] {
                exh_key(0, k, i)
            } else if i < tot[0] + tot[1] {
                exh_key(1, k, i - tot[0])
            } else {
                exh_key(2, k6, i - tot[0] - tot[1])
            }
        },
        &*find_sub(&subs, "exhaustive").unwrap().f,
    );
    run.note(
        "exhaustive_part",
        json!({"sub": "exhaustive", "complete": run.exhaustive_all.load(std::sync::atomic::Ordering::Relaxed), "lists": total}),
    );
    let n = run.tier.pick(40_000, 400_000);
    run.random("int-random", n, 400, &*find_sub(&subs, "int-random").unwrap().f);
    run.random("ip-random", n, 500, &*find_sub(&subs, "ip-random").unwrap().f);
    run.random("bytes-random", n / 2, 400, &*find_sub(&subs, "bytes-random").unwrap().f);
}

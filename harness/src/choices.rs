//! Choice sequences: every generated case is a pure function of a `Vec<u32>`
//! produced (and shrunk) by proptest.  Draws are mapped monotonically
//! (`x * n >> 32`), so shrinking a number towards zero moves towards the first
//! (simplest) alternative, and an exhausted sequence yields zeros.

#[derive(Clone, Debug)]
pub struct Choices<'a> {
    data: &'a [u32],
    pos: usize,
    /// exact mode: raw values are used as indices (clamped); used for
    /// exhaustive enumerations and hand-written regression cases.
    exact: bool,
}

impl<'a> Choices<'a> {
    pub fn new(data: &'a [u32]) -> Self {
        Choices { data, pos: 0, exact: false }
    }

    pub fn exact(data: &'a [u32]) -> Self {
        Choices { data, pos: 0, exact: true }
    }

    pub fn is_exact(&self) -> bool {
        self.exact
    }

    pub fn consumed(&self) -> usize {
        self.pos
    }

    pub fn exhausted(&self) -> bool {
        self.pos >= self.data.len()
    }

    #[inline]
    pub fn raw(&mut self) -> u32 {
        let v = self.data.get(self.pos).copied().unwrap_or(0);
        self.pos += 1;
        v
    }

    /// Uniform-ish draw in `0..n` (n >= 1).
    #[inline]
    pub fn draw(&mut self, n: usize) -> usize {
        debug_assert!(n >= 1);
        let x = self.raw();
        if self.exact {
            (x as usize).min(n - 1)
        } else {
            ((x as u64 * n as u64) >> 32) as usize
        }
    }

    pub fn range(&mut self, lo: usize, hi_incl: usize) -> usize {
        lo + self.draw(hi_incl - lo + 1)
    }

    /// true with probability num/den (false is the "simple" outcome).
    pub fn chance(&mut self, num: usize, den: usize) -> bool {
        if self.exact {
            return self.raw() != 0;
        }
        // keep 0 => false
        self.draw(den) >= den - num
    }

    pub fn boolean(&mut self) -> bool {
        self.draw(2) == 1
    }

    pub fn weighted(&mut self, weights: &[usize]) -> usize {
        if self.exact {
            return self.draw(weights.len());
        }
        let total: usize = weights.iter().sum();
        let mut x = self.draw(total.max(1));
        for (i, w) in weights.iter().enumerate() {
            if x < *w {
                return i;
            }
            x -= *w;
        }
        weights.len() - 1
    }

    pub fn pick<'b, T>(&mut self, items: &'b [T]) -> &'b T {
        &items[self.draw(items.len())]
    }

    pub fn u64(&mut self) -> u64 {
        ((self.raw() as u64) << 32) | self.raw() as u64
    }

    pub fn byte(&mut self) -> u8 {
        (self.raw() >> 24) as u8
    }
}

use wfverif::runner::{Run, Tier, replay_file, watchdog};

fn usage() -> ! {
    eprintln!("usage: wfcheck <ID> <quick|thorough> | wfcheck --replay <file>");
    std::process::exit(2);
}

fn main() {
    let args: Vec<String> = std::env::args().collect();
    if args.len() < 3 {
        usage();
    }
    if args[1] == "--child" {
        std::process::exit(wfverif::child_main(&args[2..]));
    }
    wfverif::engine::quiet_panics();
    if args[1] == "--replay" {
        let bytes = std::fs::read(&args[2]).unwrap_or_else(|e| {
            eprintln!("cannot read {}: {e}", args[2]);
            std::process::exit(2)
        });
        let is_replay_json = serde_json::from_slice::<serde_json::Value>(&bytes).map(|v| v.get("choices").is_some()).unwrap_or(false);
        if is_replay_json {
            std::process::exit(replay_file(&args[2], &wfverif::subs_of));
        }
        // a raw fuzzer artifact: needs the property id
        let prop = args.get(3).map(|s| s.as_str()).unwrap_or("");
        match wfverif::replay_raw(prop, &bytes) {
            Some(Ok(())) => {
                eprintln!("replay {}: input passes", args[2]);
                std::process::exit(0)
            }
            Some(Err(f)) => {
                eprintln!("replay {}: [{}] {}", args[2], f.sig, f.msg);
                println!("VIOLATION property={} replay={}", prop, args[2]);
                std::process::exit(1)
            }
            None => {
                eprintln!("{} is a raw artifact; pass the property id: ./check <ID> --replay <file>", args[2]);
                std::process::exit(2)
            }
        }
    }
    let prop: &'static str = match wfverif::PROPS.iter().find(|p| **p == args[1]) {
        Some(p) => p,
        None => {
            eprintln!("unknown property {}", args[1]);
            std::process::exit(2);
        }
    };
    let tier = match args[2].as_str() {
        "quick" => Tier::Quick,
        "thorough" => Tier::Thorough,
        _ => usage(),
    };
    let seed: u64 = std::env::var("VERIF_SEED").ok().and_then(|s| s.parse().ok()).unwrap_or(1);
    watchdog(match tier {
        Tier::Quick => 1200,
        Tier::Thorough => 4 * 3600,
    });
    let run = Run::new(prop, tier, seed);
    if !wfverif::run_prop(&run) {
        eprintln!("property {prop} has no check");
        std::process::exit(2);
    }
    std::process::exit(run.finish());
}

//! C08 - execution contexts are typed field maps bound to one scheme.
//!
//! Sub-checks
//! * `histories` / `histories-long`: model-based operation histories over a
//!   pool of live contexts of scheme S1 (and its `clone()`), plus a separately
//!   built, structurally identical twin S2.  The oracle is an abstract state
//!   (`Vec<Option<MVal>>` + list-matcher sets + user-data tag per live context)
//!   that is compared with the engine after every step.
//! * `ctor`: homogeneity of `Array::try_from_iter` / `Array::try_from_vec` /
//!   `Map::try_from_iter` (0-1 misfit element at a random position, differing
//!   from the declared element type at a random nesting depth) and of the
//!   `TypedArray` / `TypedMap` wrappers.

use crate::ast::*;
use crate::choices::Choices;
use crate::engine::catch;
use crate::eval::{self, BV, Env, Pres};
use crate::genr::{self as g, Gen, GenCfg, Hints};
use crate::lists::{LV, ListKind, SetMatcher};
use crate::model::*;
use crate::runner::*;
use crate::scheme::{ListState, Recipe};
use crate::typeck;
use serde_json::{Value, json};
use std::collections::{BTreeMap, BTreeSet};
use std::net::IpAddr;
use wirefilter::{
    Array, DefaultCompiler, ExecutionContext, ExpectedTypeList, Filter, FilterValue, GetType, LhsValue, Map, Scheme,
    SchemeMismatchError, SetFieldValueError, TypedArray, TypedMap, UnknownFieldError,
};

type Ctx = ExecutionContext<'static, u32>;

// ---------------------------------------------------------------------------
// Types: pools and mutations

fn spine(t: &MType) -> (Vec<bool>, MType) {
    let mut sp = Vec::new();
    let mut cur = t;
    loop {
        match cur {
            MType::Array(e) => {
                sp.push(true);
                cur = e;
            }
            MType::Map(e) => {
                sp.push(false);
                cur = e;
            }
            leaf => return (sp, leaf.clone()),
        }
    }
}

fn rebuild(sp: &[bool], leaf: MType) -> MType {
    let mut t = leaf;
    for is_array in sp.iter().rev() {
        t = if *is_array { MType::array(t) } else { MType::map(t) };
    }
    t
}

const LEAVES: [MType; 4] = [MType::Int, MType::Bytes, MType::Ip, MType::Bool];

fn other_leaf(ch: &mut Choices<'_>, leaf: &MType) -> MType {
    let others: Vec<MType> = LEAVES.iter().filter(|l| *l != leaf).cloned().collect();
    ch.pick(&others).clone()
}

/// A type different from `t`, with the kind of difference.
fn mutate_type(ch: &mut Choices<'_>, t: &MType) -> (MType, &'static str) {
    let (mut sp, leaf) = spine(t);
    let d = sp.len();
    if d == 0 {
        return match ch.weighted(&[3, 2]) {
            0 => (other_leaf(ch, &leaf), "wrong-primitive"),
            _ => {
                let is_array = ch.boolean();
                (rebuild(&[is_array], leaf), "container-of-the-scalar")
            }
        };
    }
    match ch.weighted(&[4, 3, if d <= 3 { 2 } else { 0 }, 3, 1]) {
        0 => (rebuild(&sp, other_leaf(ch, &leaf)), "right-container-wrong-element"),
        1 => {
            let k = ch.draw(d);
            sp[k] = !sp[k];
            (rebuild(&sp, leaf), if k == 0 { "array-vs-map-outer" } else { "array-vs-map-inner" })
        }
        2 => {
            let k = ch.draw(d + 1);
            let is_array = ch.boolean();
            sp.insert(k, is_array);
            (rebuild(&sp, leaf), "right-shape-deeper")
        }
        3 => {
            let k = ch.draw(d);
            sp.remove(k);
            (rebuild(&sp, leaf), "right-shape-shallower")
        }
        _ => (ch.pick(&LEAVES).clone(), "primitive-for-container"),
    }
}

fn type_pool(ch: &mut Choices<'_>, max_depth: usize) -> MType {
    let d = match max_depth {
        0 => 0,
        1 => ch.weighted(&[2, 3]),
        2 => ch.weighted(&[2, 3, 3]),
        _ => ch.weighted(&[2, 3, 3, 2]),
    };
    let leaf = ch.pick(&LEAVES).clone();
    let sp: Vec<bool> = (0..d).map(|_| ch.boolean()).collect();
    rebuild(&sp, leaf)
}

/// A value of type `t`; containers are biased towards the empty container,
/// whose only type evidence is the declared element type.
fn gen_val_biased(ch: &mut Choices<'_>, t: &MType, h: &Hints) -> MVal {
    match t {
        MType::Array(e) if ch.chance(1, 3) => MVal::Array((**e).clone(), vec![]),
        MType::Map(e) if ch.chance(1, 3) => MVal::Map((**e).clone(), BTreeMap::new()),
        _ => g::gen_val(ch, t, h),
    }
}

// ---------------------------------------------------------------------------
// Typed wrappers (TypedArray / TypedMap).  The `IntoValue` trait is not
// nameable outside the engine, so the instantiations are written out.

fn l_int(v: &MVal, _: usize) -> i64 {
    match v {
        MVal::Int(i) => *i,
        _ => unreachable!("model: not an Int"),
    }
}
fn l_bool(v: &MVal, _: usize) -> bool {
    match v {
        MVal::Bool(b) => *b,
        _ => unreachable!("model: not a Bool"),
    }
}
fn l_ip(v: &MVal, _: usize) -> IpAddr {
    match v {
        MVal::Ip(i) => *i,
        _ => unreachable!("model: not an Ip"),
    }
}
fn l_bytes(v: &MVal, _: usize) -> Vec<u8> {
    match v {
        MVal::Bytes(b) => b.clone(),
        _ => unreachable!("model: not Bytes"),
    }
}

macro_rules! mk_arr {
    ($name:ident, $elem:ty, $conv:path) => {
        fn $name(v: &MVal, mode: usize) -> TypedArray<'static, $elem> {
            let MVal::Array(_, items) = v else { unreachable!("model: not an array") };
            match mode % 3 {
                0 => items.iter().map(|x| $conv(x, mode)).collect(),
                1 => {
                    let mut a = TypedArray::new();
                    for x in items {
                        a.push($conv(x, mode));
                    }
                    a
                }
                _ => {
                    let mut a: TypedArray<'static, $elem> = TypedArray::default();
                    a.extend(items.iter().map(|x| $conv(x, mode)));
                    a
                }
            }
        }
    };
}

macro_rules! mk_map {
    ($name:ident, $elem:ty, $conv:path) => {
        fn $name(v: &MVal, mode: usize) -> TypedMap<'static, $elem> {
            let MVal::Map(_, items) = v else { unreachable!("model: not a map") };
            match mode % 3 {
                0 => items.iter().map(|(k, x)| (k.clone().into_boxed_slice(), $conv(x, mode))).collect(),
                1 => {
                    let mut a = TypedMap::new();
                    for (k, x) in items {
                        a.insert(k.clone().into_boxed_slice(), $conv(x, mode));
                    }
                    a
                }
                _ => {
                    let mut a: TypedMap<'static, $elem> = TypedMap::default();
                    a.extend(items.iter().map(|(k, x)| (k.clone().into_boxed_slice(), $conv(x, mode))));
                    a
                }
            }
        }
    };
}

type TA<T> = TypedArray<'static, T>;
type TM<T> = TypedMap<'static, T>;

mk_arr!(a_int, i64, l_int);
mk_arr!(a_bool, bool, l_bool);
mk_arr!(a_ip, IpAddr, l_ip);
mk_arr!(a_bytes, Vec<u8>, l_bytes);
mk_map!(m_int, i64, l_int);
mk_map!(m_bool, bool, l_bool);
mk_map!(m_ip, IpAddr, l_ip);
mk_map!(m_bytes, Vec<u8>, l_bytes);

mk_arr!(aa_int, TA<i64>, a_int);
mk_arr!(aa_bool, TA<bool>, a_bool);
mk_arr!(aa_ip, TA<IpAddr>, a_ip);
mk_arr!(aa_bytes, TA<Vec<u8>>, a_bytes);
mk_arr!(am_int, TM<i64>, m_int);
mk_arr!(am_bool, TM<bool>, m_bool);
mk_arr!(am_ip, TM<IpAddr>, m_ip);
mk_arr!(am_bytes, TM<Vec<u8>>, m_bytes);
mk_map!(ma_int, TA<i64>, a_int);
mk_map!(ma_bool, TA<bool>, a_bool);
mk_map!(ma_ip, TA<IpAddr>, a_ip);
mk_map!(ma_bytes, TA<Vec<u8>>, a_bytes);
mk_map!(mm_int, TM<i64>, m_int);
mk_map!(mm_bool, TM<bool>, m_bool);
mk_map!(mm_ip, TM<IpAddr>, m_ip);
mk_map!(mm_bytes, TM<Vec<u8>>, m_bytes);

mk_arr!(aaa_int, TA<TA<i64>>, aa_int);
mk_arr!(ama_bytes, TM<TA<Vec<u8>>>, ma_bytes);
mk_map!(mam_ip, TA<TM<IpAddr>>, am_ip);
mk_map!(mma_bool, TM<TA<bool>>, ma_bool);
mk_map!(maa_int, TA<TA<i64>>, aa_int);
mk_arr!(amm_bytes, TM<TM<Vec<u8>>>, mm_bytes);

// nested wrappers filled through the typed `get_mut` / `get_or_insert` views
fn aa_int_mut(v: &MVal) -> TA<TA<i64>> {
    let MVal::Array(_, items) = v else { unreachable!() };
    let mut outer: TA<TA<i64>> = TypedArray::new();
    for _ in items {
        outer.push(TypedArray::new());
    }
    for (i, inner) in items.iter().enumerate() {
        let MVal::Array(_, xs) = inner else { unreachable!() };
        let slot = outer.get_mut(i).expect("pushed");
        for x in xs {
            slot.push(l_int(x, 0));
        }
    }
    outer
}
fn am_bytes_mut(v: &MVal) -> TA<TM<Vec<u8>>> {
    let MVal::Array(_, items) = v else { unreachable!() };
    let mut outer: TA<TM<Vec<u8>>> = TypedArray::new();
    for _ in items {
        outer.push(TypedMap::new());
    }
    for (i, inner) in items.iter().enumerate() {
        let MVal::Map(_, xs) = inner else { unreachable!() };
        let slot = outer.get_mut(i).expect("pushed");
        for (k, x) in xs {
            slot.insert(k.clone().into_boxed_slice(), l_bytes(x, 0));
        }
    }
    outer
}
fn mm_ip_mut(v: &MVal) -> TM<TM<IpAddr>> {
    let MVal::Map(_, items) = v else { unreachable!() };
    let mut outer: TM<TM<IpAddr>> = TypedMap::new();
    for (k, inner) in items {
        let MVal::Map(_, xs) = inner else { unreachable!() };
        let slot = outer.get_or_insert(k.clone().into_boxed_slice(), TypedMap::new());
        for (k2, x) in xs {
            slot.insert(k2.clone().into_boxed_slice(), l_ip(x, 0));
        }
    }
    for (k, inner) in items {
        // second pass through get_mut: re-insert the same entries (idempotent)
        let MVal::Map(_, xs) = inner else { unreachable!() };
        let slot = outer.get_mut(k).expect("inserted");
        for (k2, x) in xs {
            slot.insert(k2.clone().into_boxed_slice(), l_ip(x, 0));
        }
    }
    outer
}
fn ma_bool_mut(v: &MVal) -> TM<TA<bool>> {
    let MVal::Map(_, items) = v else { unreachable!() };
    let mut outer: TM<TA<bool>> = TypedMap::new();
    for k in items.keys() {
        outer.insert(k.clone().into_boxed_slice(), TypedArray::new());
    }
    for (k, inner) in items {
        let MVal::Array(_, xs) = inner else { unreachable!() };
        let slot = outer.get_mut(k).expect("inserted");
        for x in xs {
            slot.push(l_bool(x, 0));
        }
    }
    outer
}

/// Build the engine value of a (well-formed) model container through the
/// typed wrappers, if its type is one of the instantiated shapes.
fn typed_lhs(v: &MVal, mode: usize) -> Option<LhsValue<'static>> {
    let t = v.ty();
    let via_array = mode % 2 == 1;
    macro_rules! arr {
        ($e:expr) => {{
            let x = $e;
            Some(if via_array { LhsValue::Array(Array::from(x)) } else { LhsValue::from(x) })
        }};
    }
    macro_rules! map {
        ($e:expr) => {{
            let x = $e;
            Some(if via_array { LhsValue::Map(Map::from(x)) } else { LhsValue::from(x) })
        }};
    }
    let m = mode / 2;
    match t.show().as_str() {
        "Array(Int)" => arr!(a_int(v, m)),
        "Array(Bool)" => arr!(a_bool(v, m)),
        "Array(Ip)" => arr!(a_ip(v, m)),
        "Array(Bytes)" => arr!(a_bytes(v, m)),
        "Map(Int)" => map!(m_int(v, m)),
        "Map(Bool)" => map!(m_bool(v, m)),
        "Map(Ip)" => map!(m_ip(v, m)),
        "Map(Bytes)" => map!(m_bytes(v, m)),
        "Array(Array(Int))" => {
            if m % 4 == 3 {
                arr!(aa_int_mut(v))
            } else {
                arr!(aa_int(v, m))
            }
        }
        "Array(Array(Bool))" => arr!(aa_bool(v, m)),
        "Array(Array(Ip))" => arr!(aa_ip(v, m)),
        "Array(Array(Bytes))" => arr!(aa_bytes(v, m)),
        "Array(Map(Int))" => arr!(am_int(v, m)),
        "Array(Map(Bool))" => arr!(am_bool(v, m)),
        "Array(Map(Ip))" => arr!(am_ip(v, m)),
        "Array(Map(Bytes))" => {
            if m % 4 == 3 {
                arr!(am_bytes_mut(v))
            } else {
                arr!(am_bytes(v, m))
            }
        }
        "Map(Array(Int))" => map!(ma_int(v, m)),
        "Map(Array(Bool))" => {
            if m % 4 == 3 {
                map!(ma_bool_mut(v))
            } else {
                map!(ma_bool(v, m))
            }
        }
        "Map(Array(Ip))" => map!(ma_ip(v, m)),
        "Map(Array(Bytes))" => map!(ma_bytes(v, m)),
        "Map(Map(Int))" => map!(mm_int(v, m)),
        "Map(Map(Bool))" => map!(mm_bool(v, m)),
        "Map(Map(Ip))" => {
            if m % 4 == 3 {
                map!(mm_ip_mut(v))
            } else {
                map!(mm_ip(v, m))
            }
        }
        "Map(Map(Bytes))" => map!(mm_bytes(v, m)),
        "Array(Array(Array(Int)))" => arr!(aaa_int(v, m)),
        "Array(Map(Array(Bytes)))" => arr!(ama_bytes(v, m)),
        "Map(Array(Map(Ip)))" => map!(mam_ip(v, m)),
        "Map(Map(Array(Bool)))" => map!(mma_bool(v, m)),
        "Map(Array(Array(Int)))" => map!(maa_int(v, m)),
        "Array(Map(Map(Bytes)))" => arr!(amm_bytes(v, m)),
        _ => None,
    }
}

/// Engine value of a model value: through the typed wrappers when asked for
/// and possible, else through the checked constructors.
fn to_engine(v: &MVal, typed_mode: Option<usize>) -> (LhsValue<'static>, bool) {
    if let Some(mode) = typed_mode {
        if let Some(x) = typed_lhs(v, mode) {
            return (x, true);
        }
    }
    (v.to_lhs(), false)
}

/// Everything the property fixes about a constructed engine value.
fn value_conforms(x: &LhsValue<'_>, want: &MVal) -> Result<(), String> {
    let t = x.get_type();
    if t != want.ty().to_engine() {
        return Err(format!("type of the built value is {t:?}, declared {}", want.ty().show()));
    }
    if !MVal::lhs_deep_well_typed(x) {
        return Err("the built value is not homogeneous (an element's type differs from the declared element type)".into());
    }
    let back = MVal::from_lhs(x);
    if back != *want {
        return Err(format!("built value reads back as {} instead of {}", back.show(), want.show()));
    }
    Ok(())
}

// ---------------------------------------------------------------------------
// Constructor homogeneity

fn ctor_case(ch: &mut Choices<'_>, st: &mut Stats) -> CaseResult {
    let hints = Hints::default();
    let elem_t = type_pool(ch, 2);
    let n = ch.weighted(&[1, 2, 3, 3, 2, 2, 1]);
    let mut elems: Vec<MVal> = (0..n).map(|_| gen_val_biased(ch, &elem_t, &hints)).collect();
    let mut misfit: Option<(usize, MType, &'static str)> = None;
    if ch.chance(1, 2) {
        let (t2, kind) = mutate_type(ch, &elem_t);
        let v = gen_val_biased(ch, &t2, &hints);
        let pos = match ch.weighted(&[3, 1, 2]) {
            0 => elems.len(),
            1 => 0,
            _ => ch.draw(elems.len() + 1),
        };
        elems.insert(pos, v);
        misfit = Some((pos, t2, kind));
    }
    let typed_mode = if ch.chance(1, 2) { Some(ch.draw(24)) } else { None };
    let keys: Vec<Vec<u8>> = {
        // distinct keys in a drawn order (duplicate keys are outside the statement)
        let mut pool: Vec<Vec<u8>> = g::KEY_POOL.iter().map(|k| k.as_bytes().to_vec()).collect();
        pool.push(b"\xff".to_vec());
        pool.push(b"a\xfe".to_vec());
        pool.push(b"\x00".to_vec());
        let k = ch.draw(pool.len());
        pool.rotate_left(k);
        if ch.boolean() {
            pool.reverse();
        }
        pool.truncate(elems.len());
        pool
    };
    let show = || {
        json!({
            "declared_element_type": elem_t.show(),
            "elements": elems.iter().map(|e| json!({"type": e.ty().show(), "value": e.show()})).collect::<Vec<_>>(),
            "misfit": misfit.as_ref().map(|(p, t, k)| json!({"position": p, "type": t.show(), "kind": k})),
            "map_keys": keys.iter().map(|k| show_bytes(k)).collect::<Vec<_>>(),
            "elements_built_through_typed_wrappers": typed_mode,
        })
    };
    // the elements themselves (built by the engine's constructors / wrappers) must conform
    let mut used_typed = false;
    let mut build = |i: usize| -> Result<LhsValue<'static>, Fail> {
        let e = &elems[i];
        let r = catch(|| to_engine(e, typed_mode.map(|m| m + i)));
        match r {
            Err(p) => Err(Fail::new("ctor-panic", format!("building element #{i} panicked: {p}"), show())),
            Ok((x, typed)) => {
                used_typed |= typed;
                let sig = if typed { "typed-wrapper-value" } else { "element-value" };
                value_conforms(&x, e).map_err(|m| Fail::new(sig, format!("element #{i}: {m}"), show()))?;
                Ok(x)
            }
        }
    };
    let mut lhs: Vec<LhsValue<'static>> = Vec::new();
    for i in 0..elems.len() {
        lhs.push(build(i)?);
    }
    let et = elem_t.to_engine();
    let want_arr = MVal::Array(elem_t.clone(), elems.clone());
    let want_map = MVal::Map(elem_t.clone(), keys.iter().cloned().zip(elems.iter().cloned()).collect());
    let results: Vec<(&'static str, Result<Result<LhsValue<'static>, wirefilter::TypeMismatchError>, String>, &MVal)> = vec![
        (
            "Array::try_from_iter",
            catch(|| Array::try_from_iter(et, lhs.clone()).map(LhsValue::Array)),
            &want_arr,
        ),
        (
            // an iterator that cannot announce its length (size_hint lower bound 0)
            "Array::try_from_iter(filtered iterator)",
            catch(|| Array::try_from_iter(et, lhs.clone().into_iter().filter(|_| true)).map(LhsValue::Array)),
            &want_arr,
        ),
        (
            // an iterator that announces only its first half
            "Array::try_from_iter(chained iterator)",
            catch(|| {
                let (a, b) = lhs.split_at(lhs.len() / 2);
                let mut tail = b.to_vec().into_iter();
                Array::try_from_iter(et, a.to_vec().into_iter().chain(std::iter::from_fn(move || tail.next()))).map(LhsValue::Array)
            }),
            &want_arr,
        ),
        (
            "Array::try_from_vec",
            catch(|| Array::try_from_vec(et, lhs.clone()).map(LhsValue::Array)),
            &want_arr,
        ),
        (
            "Map::try_from_iter",
            catch(|| {
                Map::try_from_iter::<wirefilter::TypeMismatchError, _>(
                    et,
                    keys.iter().cloned().zip(lhs.clone()).map(|(k, v)| Ok((k.into_boxed_slice(), v))),
                )
                .map(LhsValue::Map)
            }),
            &want_map,
        ),
    ];
    for (name, res, want) in results {
        st.eval();
        let res = res.map_err(|p| Fail::new("ctor-panic", format!("{name} panicked: {p}"), show()))?;
        match (&misfit, res) {
            (None, Ok(x)) => {
                value_conforms(&x, want).map_err(|m| Fail::new("ctor-built-value", format!("{name}: {m}"), show()))?;
            }
            (None, Err(e)) => {
                return Err(Fail::new(
                    "ctor-rejects-homogeneous",
                    format!("{name} rejected a homogeneous element list: {e}"),
                    show(),
                ));
            }
            (Some((pos, t2, kind)), Ok(x)) => {
                return Err(Fail::new(
                    "ctor-accepts-heterogeneous",
                    format!(
                        "{name} built a {:?} although element #{pos} has type {} ({kind}); declared element type {}",
                        x.get_type(),
                        t2.show(),
                        elem_t.show()
                    ),
                    show(),
                ));
            }
            (Some((_, t2, _)), Err(e)) => {
                if e.actual != t2.to_engine() || e.expected != ExpectedTypeList::from(et) {
                    return Err(Fail::new(
                        "ctor-error-content",
                        format!("{name}: error {e:?} does not name expected {} / actual {}", elem_t.show(), t2.show()),
                        show(),
                    ));
                }
            }
        }
    }
    // repeated keys: which value wins is not stated, but whatever is built must be homogeneous
    // and a homogeneous element list must be accepted
    if elems.len() >= 2 {
        let nk = 1 + ch.draw(elems.len() - 1);
        let dup_keys: Vec<Vec<u8>> = (0..elems.len()).map(|i| keys[(i * 7 + i / 2) % nk].clone()).collect();
        st.eval();
        let res = catch(|| {
            Map::try_from_iter::<wirefilter::TypeMismatchError, _>(et, dup_keys.iter().cloned().zip(lhs.clone()).map(|(k, v)| Ok((k.into_boxed_slice(), v))))
        })
        .map_err(|p| Fail::new("ctor-panic", format!("Map::try_from_iter with repeated keys panicked: {p}"), show()))?;
        let show_dup = || {
            let mut c = show();
            c["map_keys"] = json!(dup_keys.iter().map(|k| show_bytes(k)).collect::<Vec<_>>());
            c
        };
        match res {
            Ok(m) => {
                let v = LhsValue::Map(m);
                if v.get_type() != MType::map(elem_t.clone()).to_engine() || !MVal::lhs_deep_well_typed(&v) {
                    return Err(Fail::new(
                        "ctor-accepts-heterogeneous",
                        format!("Map::try_from_iter with repeated keys built a map of type {:?} that holds an element of another type; declared element type {}", v.get_type(), elem_t.show()),
                        show_dup(),
                    ));
                }
            }
            Err(e) => {
                if misfit.is_none() {
                    return Err(Fail::new("ctor-rejects-homogeneous", format!("Map::try_from_iter with repeated keys rejected a homogeneous element list: {e}"), show_dup()));
                }
            }
        }
        st.class("ctor-map-with-repeated-keys");
    }
    // classes
    match &misfit {
        None => st.class("ctor-homogeneous"),
        Some((pos, t2, kind)) => {
            st.class(&format!("ctor-misfit-{kind}"));
            if *pos + 1 == elems.len() {
                st.class("ctor-misfit-last");
            }
            if *pos == 0 {
                st.class("ctor-misfit-first");
            }
            let (sp_a, _) = spine(&elem_t);
            let (sp_b, _) = spine(t2);
            if !sp_a.is_empty() && sp_a.first() == sp_b.first() {
                st.class("ctor-misfit-same-outer-constructor");
            }
            if matches!(&elems[*pos], MVal::Array(_, v) if v.is_empty()) || matches!(&elems[*pos], MVal::Map(_, m) if m.is_empty()) {
                st.class("ctor-misfit-is-empty-container");
            }
        }
    }
    st.class(&format!("ctor-elem-depth-{}", elem_t.depth()));
    if used_typed {
        st.class("ctor-elements-via-typed-wrappers");
    }
    if elems.is_empty() {
        st.class("ctor-empty");
    }
    if misfit.is_some() || elems.len() >= 2 {
        st.nontrivial(&(&elem_t, &elems, &keys, typed_mode));
    }
    st.sample(if misfit.is_some() { "ctor-misfit" } else { "ctor-homogeneous" }, show);
    Ok(())
}

/// Typed wrappers on their own: a well-formed container value of an
/// instantiated shape is built through every wrapper route and must be the
/// declared type, homogeneous, and equal to the model value.
fn typed_case(ch: &mut Choices<'_>, st: &mut Stats) -> CaseResult {
    let hints = Hints::default();
    let t = loop {
        let t = type_pool(ch, 3);
        if t.depth() > 0 {
            break t;
        }
        if ch.exhausted() {
            break MType::array(MType::Int);
        }
    };
    let v = g::gen_val(ch, &t, &hints);
    let (t2, _) = mutate_type(ch, &t);
    let show = || json!({"type": t.show(), "value": v.show(), "other_type": t2.show()});
    let mut any = false;
    for mode in 0..24 {
        let r = catch(|| typed_lhs(&v, mode)).map_err(|p| Fail::new("typed-wrapper-panic", format!("mode {mode}: {p}"), show()))?;
        let Some(x) = r else { continue };
        any = true;
        st.eval();
        value_conforms(&x, &v).map_err(|m| Fail::new("typed-wrapper-value", format!("mode {mode}: {m}"), show()))?;
        // the wrapper-built value is accepted as an element of the declared type and nothing else
        let outer = Array::try_from_vec(t.to_engine(), vec![x.clone(), x.clone()]);
        if outer.is_err() {
            return Err(Fail::new("typed-wrapper-value", format!("mode {mode}: Array::try_from_vec(declared type) rejected the wrapper-built value"), show()));
        }
        if Array::try_from_vec(t2.to_engine(), vec![x]).is_ok() {
            return Err(Fail::new(
                "ctor-accepts-heterogeneous",
                format!("mode {mode}: Array::try_from_vec({}) accepted a wrapper-built {}", t2.show(), t.show()),
                show(),
            ));
        }
    }
    if any {
        st.class(&format!("typed-depth-{}", t.depth()));
        st.nontrivial(&(&t, &v));
        st.sample("typed", show);
    } else {
        st.class("typed-shape-not-instantiated");
    }
    Ok(())
}

// ---------------------------------------------------------------------------
// Histories

struct FilterSpec {
    expr: MExpr,
    text: String,
    /// compiled for family 0 (S1 or its clone) and family 1 (twin S2)
    compiled: [Filter<u32>; 2],
}

struct ValueSpec {
    ix: MIndex,
    text: String,
    ty: MType,
    compiled: [FilterValue<u32>; 2],
}

struct World {
    recipe: Recipe,
    hints: Hints,
    s1: Scheme,
    s1c: Scheme,
    s2: Scheme,
    filters: Vec<FilterSpec>,
    values: Vec<ValueSpec>,
    set_lists: Vec<MType>,
    /// candidate names that are not fields
    bad_names: Vec<String>,
}

impl World {
    /// the scheme object to use for family `fam`; `alt` picks the clone of S1
    fn scheme(&self, fam: usize, alt: bool) -> &Scheme {
        match (fam, alt) {
            (0, false) => &self.s1,
            (0, true) => &self.s1c,
            _ => &self.s2,
        }
    }
}

#[derive(Clone, Debug, PartialEq)]
struct Model {
    fam: usize,
    vals: MCtx,
    lists: ListState,
    tag: u32,
}

struct Live {
    ec: Ctx,
    m: Model,
    /// contexts related by clone_with share a group
    grp: usize,
}

#[derive(Clone, Hash, Debug)]
enum OpRec {
    SetField { ctx: usize, src: u8, field: usize, val: MVal, vkind: &'static str, typed: bool },
    SetName { ctx: usize, name: String, val: MVal, vkind: &'static str },
    Get { ctx: usize, src: u8, field: usize },
    Clear { ctx: usize },
    Clone { ctx: usize, into: usize, tag: u32 },
    BorrowBegin { ctx: usize, tag: u32 },
    BorrowEnd { ctx: usize },
    Take { ctx: usize },
    Exec { ctx: usize, filter: usize, fam: u8 },
    ExecValue { ctx: usize, value: usize, fam: u8 },
    SetList { ctx: usize, ty: MType, name: String, members: Option<Vec<LV>>, by_type: bool },
    NewCtx { into: usize, src: u8, tag: u32 },
}

const SRC: [&str; 3] = ["S1", "clone-of-S1", "twin-S2"];

fn src_fam(src: u8) -> usize {
    if src == 2 { 1 } else { 0 }
}

struct Session<'w, 'c, 'd, 's> {
    w: &'w World,
    ch: &'c mut Choices<'d>,
    st: &'s mut Stats,
    pool: Vec<Option<Live>>,
    log: Vec<OpRec>,
    next_grp: usize,
    steps: usize,
    // non-triviality
    nt_failed_after_ok: bool,
    nt_copy_diverged: bool,
    nt_borrow_write: bool,
    classes: BTreeSet<&'static str>,
}

const POOL: usize = 5;

impl Session<'_, '_, '_, '_> {
    fn show_op(&self, op: &OpRec) -> Value {
        let fields = &self.w.recipe.fields;
        match op {
            OpRec::SetField { ctx, src, field, val, vkind, typed } => json!({
                "op": "set_field_value", "ctx": ctx, "field_of": SRC[*src as usize], "field": fields[*field].name,
                "field_type": fields[*field].ty.show(), "value_type": val.ty().show(), "value": val.show(), "value_kind": vkind,
                "built_by_typed_wrapper": typed,
            }),
            OpRec::SetName { ctx, name, val, vkind } => json!({
                "op": "set_field_value_from_name", "ctx": ctx, "name": name, "value_type": val.ty().show(), "value": val.show(), "value_kind": vkind,
            }),
            OpRec::Get { ctx, src, field } => json!({"op": "get_field_value", "ctx": ctx, "field_of": SRC[*src as usize], "field": fields[*field].name}),
            OpRec::Clear { ctx } => json!({"op": "clear", "ctx": ctx}),
            OpRec::Clone { ctx, into, tag } => json!({"op": "clone_with", "ctx": ctx, "new_ctx": into, "user_data": tag}),
            OpRec::BorrowBegin { ctx, tag } => json!({"op": "borrow_with {", "ctx": ctx, "user_data": tag}),
            OpRec::BorrowEnd { ctx } => json!({"op": "} drop guard", "ctx": ctx}),
            OpRec::Take { ctx } => json!({"op": "take_with", "ctx": ctx}),
            OpRec::Exec { ctx, filter, fam } => json!({"op": "Filter::execute", "ctx": ctx, "filter": self.w.filters[*filter].text, "compiled_for": if *fam == 0 { "S1" } else { "twin-S2" }}),
            OpRec::ExecValue { ctx, value, fam } => json!({"op": "FilterValue::execute", "ctx": ctx, "value_expr": self.w.values[*value].text, "compiled_for": if *fam == 0 { "S1" } else { "twin-S2" }}),
            OpRec::SetList { ctx, ty, name, members, by_type } => json!({
                "op": "list matcher update", "ctx": ctx, "list_type": ty.show(), "list": name,
                "members": members.as_ref().map(|m| m.iter().map(|v| v.to_mval().show()).collect::<Vec<_>>()),
                "via": if *by_type { "get_list_matcher_mut_from_type" } else { "get_list_matcher_mut" },
            }),
            OpRec::NewCtx { into, src, tag } => json!({"op": "ExecutionContext::new_with", "new_ctx": into, "scheme": SRC[*src as usize], "user_data": tag}),
        }
    }

    fn case_json(&self, cur: Option<(usize, &Model)>) -> Value {
        let fields = &self.w.recipe.fields;
        let mut states = serde_json::Map::new();
        let show_m = |m: &Model| {
            json!({
                "scheme": if m.fam == 0 { "S1" } else { "twin-S2" },
                "user_data": m.tag,
                "values": m.vals.show(fields),
                "lists": crate::scheme::show_lists(&m.lists),
            })
        };
        for (i, l) in self.pool.iter().enumerate() {
            if let Some(l) = l {
                states.insert(format!("ctx{i}"), show_m(&l.m));
            }
        }
        if let Some((i, m)) = cur {
            states.insert(format!("ctx{i}"), show_m(m));
        }
        json!({
            "scheme": self.w.recipe.show(),
            "filters": self.w.filters.iter().map(|f| f.text.clone()).collect::<Vec<_>>(),
            "value_exprs": self.w.values.iter().map(|f| f.text.clone()).collect::<Vec<_>>(),
            "history": self.log.iter().map(|o| self.show_op(o)).collect::<Vec<_>>(),
            "expected_state_after_last_step": Value::Object(states),
        })
    }

    fn fail(&self, sig: &str, msg: String, cur: Option<(usize, &Model)>) -> Fail {
        Fail::new(sig, format!("after step #{} ({}): {msg}", self.log.len(), self.log.last().map(|o| self.show_op(o).to_string()).unwrap_or_default()), self.case_json(cur))
    }

    /// A freshly built context holding exactly the model state.
    fn expected(&self, m: &Model, alt: bool) -> Ctx {
        let w = self.w;
        let scheme = w.scheme(m.fam, alt);
        let mut ec: Ctx = ExecutionContext::new_with(scheme, || m.tag);
        for (f, v) in w.recipe.fields.iter().zip(&m.vals.vals) {
            if let Some(v) = v {
                ec.set_field_value(scheme.get_field(&f.name).expect("field exists"), v.to_lhs())
                    .expect("model value has the field's type");
            }
        }
        for t in &w.set_lists {
            let list = scheme.get_list(&t.to_engine()).expect("list registered");
            let sm = ec.get_list_matcher_mut(list).as_any_mut().downcast_mut::<SetMatcher>().expect("set matcher");
            sm.sets = m.lists.get(t).cloned().unwrap_or_default();
        }
        ec
    }

    /// Read everything back from one context and compare with its model.
    fn verify(&self, idx: usize, ec: &Ctx, m: &Model, in_borrow: bool) -> CaseResult {
        let w = self.w;
        let alt = (self.steps + idx) % 2 == 1;
        let scheme = w.scheme(m.fam, alt);
        let cur = if in_borrow { Some((idx, &*m)) } else { None };
        let r = catch(|| -> Result<(), (String, String)> {
            for (i, f) in w.recipe.fields.iter().enumerate() {
                let fr = scheme.get_field(&f.name).expect("field exists");
                let got = ec.get_field_value(fr);
                match (got, &m.vals.vals[i]) {
                    (None, None) => {}
                    (Some(x), want) => {
                        if x.get_type() != f.ty.to_engine() || !MVal::lhs_deep_well_typed(x) {
                            return Err((
                                "stored-value-ill-typed".into(),
                                format!("ctx{idx}: field {} : {} holds a value of type {:?} (deep homogeneous: {})", f.name, f.ty.show(), x.get_type(), MVal::lhs_deep_well_typed(x)),
                            ));
                        }
                        let back = MVal::from_lhs(x);
                        if Some(&back) != want.as_ref() {
                            return Err((
                                "readback-differs".into(),
                                format!("ctx{idx}: field {} reads {} but the last successful set/clear left {}", f.name, back.show(), want.as_ref().map(|v| v.show().to_string()).unwrap_or("no value".into())),
                            ));
                        }
                    }
                    (None, Some(want)) => {
                        return Err(("readback-differs".into(), format!("ctx{idx}: field {} reads no value but {} was set", f.name, want.show())));
                    }
                }
            }
            if *ec.get_user_data() != m.tag {
                return Err(("user-data-differs".into(), format!("ctx{idx}: user data {} instead of {}", ec.get_user_data(), m.tag)));
            }
            let same0 = ec.scheme() == &w.s1 && ec.scheme() == &w.s1c;
            let same1 = ec.scheme() == &w.s2;
            if (m.fam == 0) != same0 || (m.fam == 1) != same1 {
                return Err(("context-scheme-changed".into(), format!("ctx{idx}: scheme() equals S1: {same0}, equals twin: {same1}, expected family {}", m.fam)));
            }
            for t in &w.set_lists {
                let et = t.to_engine();
                let list = scheme.get_list(&et).expect("list registered");
                let a = ec.get_list_matcher(list).as_any().downcast_ref::<SetMatcher>().map(|s| s.sets.clone());
                let b = ec.get_list_matcher_from_type(&et).and_then(|x| x.as_any().downcast_ref::<SetMatcher>()).map(|s| s.sets.clone());
                let want = m.lists.get(t).cloned().unwrap_or_default();
                if a.as_ref() != Some(&want) || b.as_ref() != Some(&want) {
                    return Err(("list-matcher-state-differs".into(), format!("ctx{idx}: matcher of the {} list holds {a:?} / {b:?}, expected {want:?}", t.show())));
                }
            }
            let exp = self.expected(m, !alt);
            if *ec != exp {
                return Err(("context-not-equal-expected".into(), format!("ctx{idx} != a fresh context holding the expected state\n got: {ec:?}\nwant: {exp:?}")));
            }
            Ok(())
        });
        match r {
            Err(p) => Err(self.fail("readback-panic", format!("reading back ctx{idx} panicked: {p}"), cur)),
            Ok(Err((sig, msg))) => Err(self.fail(&sig, msg, cur)),
            Ok(Ok(())) => Ok(()),
        }
    }

    fn check_all(&self, cur: Option<(usize, &Ctx, &Model)>) -> CaseResult {
        for (i, l) in self.pool.iter().enumerate() {
            if let Some(l) = l {
                self.verify(i, &l.ec, &l.m, false)?;
            }
        }
        if let Some((i, ec, m)) = cur {
            self.verify(i, ec, m, true)?;
        }
        Ok(())
    }

    fn gen_value(&mut self, fty: &MType) -> (MVal, &'static str) {
        if self.ch.weighted(&[5, 4]) == 0 {
            let v = if self.ch.chance(1, 4) { gen_val_biased(self.ch, fty, &self.w.hints) } else { g::gen_val(self.ch, fty, &self.w.hints) };
            (v, "well-typed")
        } else {
            let (t2, kind) = mutate_type(self.ch, fty);
            (gen_val_biased(self.ch, &t2, &self.w.hints), kind)
        }
    }

    /// Whether another live context is a clone relative of `grp`.
    fn has_live_relative(&self, grp: usize) -> bool {
        self.pool.iter().flatten().any(|l| l.grp == grp)
    }

    fn note_write(&mut self, grp: usize, in_borrow: bool) {
        if self.has_live_relative(grp) {
            self.nt_copy_diverged = true;
        }
        if in_borrow {
            self.nt_borrow_write = true;
        }
    }

    /// Outcome check shared by both setters.
    #[allow(clippy::too_many_arguments)]
    fn judge_set(
        &mut self,
        idx: usize,
        m: &mut Model,
        grp: usize,
        in_borrow: bool,
        res: Result<Result<Option<MVal>, SetFieldValueError>, String>,
        field: Option<usize>,
        same_scheme: bool,
        val: MVal,
    ) -> CaseResult {
        let cur = Some((idx, &*m));
        let res = match res {
            Ok(r) => r,
            Err(p) => return Err(self.fail("set-panic", format!("the setter panicked: {p}"), cur)),
        };
        let Some(fi) = field else {
            self.classes.insert("set-unknown-name");
            return match res {
                Err(SetFieldValueError::UnknownField(UnknownFieldError)) => Ok(()),
                other => Err(self.fail("set-unknown-name-outcome", format!("a name that is not a field gave {other:?}, expected Err(UnknownField)"), cur)),
            };
        };
        let fty = self.w.recipe.fields[fi].ty.clone();
        let typed = val.ty() == fty;
        match (same_scheme, typed) {
            (true, true) => match res {
                Ok(prev) => {
                    if prev != m.vals.vals[fi] {
                        return Err(self.fail(
                            "set-returns-wrong-previous",
                            format!("set returned previous value {:?}, the field held {:?}", prev.as_ref().map(|v| v.show()), m.vals.vals[fi].as_ref().map(|v| v.show())),
                            cur,
                        ));
                    }
                    self.classes.insert(if prev.is_some() { "set-ok-overwrite" } else { "set-ok-first" });
                    m.vals.vals[fi] = Some(val);
                    self.note_write(grp, in_borrow);
                    Ok(())
                }
                Err(e) => Err(self.fail("set-rejects-well-typed", format!("a value of exactly the field's type for a field of the context's scheme was rejected: {e:?}"), cur)),
            },
            (true, false) => match res {
                Err(SetFieldValueError::TypeMismatch(e)) => {
                    if e.actual != val.ty().to_engine() || e.expected != ExpectedTypeList::from(fty.to_engine()) {
                        return Err(self.fail("set-error-content", format!("{e:?} does not name expected {} / actual {}", fty.show(), val.ty().show()), cur));
                    }
                    self.classes.insert("set-type-mismatch");
                    if m.vals.vals[fi].is_some() {
                        self.nt_failed_after_ok = true;
                        self.classes.insert("failed-set-on-a-set-field");
                    }
                    Ok(())
                }
                other => Err(self.fail(
                    "set-accepts-ill-typed",
                    format!("value of type {} for field of type {} gave {other:?}, expected Err(TypeMismatch)", val.ty().show(), fty.show()),
                    cur,
                )),
            },
            (false, typed) => match res {
                Err(SetFieldValueError::SchemeMismatch(SchemeMismatchError)) => {
                    self.classes.insert("set-scheme-mismatch");
                    if m.vals.vals[fi].is_some() {
                        self.nt_failed_after_ok = true;
                        self.classes.insert("failed-set-on-a-set-field");
                    }
                    Ok(())
                }
                // both the scheme and the type are wrong: the statement does not rank the two errors
                Err(SetFieldValueError::TypeMismatch(_)) if !typed => Ok(()),
                other => Err(self.fail("set-accepts-foreign-field", format!("a field of the twin scheme gave {other:?}, expected Err(SchemeMismatch)"), cur)),
            },
        }
    }

    /// One operation on `ec` (a pool context taken out of its slot, or the
    /// view of a guard).  Returns after the full read-back of all contexts.
    fn apply(&mut self, idx: usize, ec: &mut Ctx, m: &mut Model, grp: usize, depth: usize) -> CaseResult {
        let w = self.w;
        let nf = w.recipe.fields.len();
        let in_borrow = depth > 0;
        let has_lists = !w.set_lists.is_empty();
        let kind = self.ch.weighted(&[
            10,
            6,
            2,
            1,
            2,
            if depth < 2 { 2 } else { 0 },
            1,
            if w.filters.is_empty() { 0 } else { 3 },
            if w.values.is_empty() { 0 } else { 2 },
            if has_lists { 3 } else { 0 },
            2,
        ]);
        self.steps += 1;
        match kind {
            0 => {
                // set by field
                let fi = self.ch.draw(nf);
                // mostly a field of the context's own scheme (S1 and its clone are the same scheme)
                let own = self.ch.weighted(&[5, 2]) == 0;
                let src = match (m.fam, own) {
                    (0, true) | (1, false) => self.ch.draw(2) as u8,
                    _ => 2,
                };
                let f = &w.recipe.fields[fi];
                let (val, vkind) = self.gen_value(&f.ty);
                let typed_mode = if self.ch.chance(1, 3) { Some(self.ch.draw(24)) } else { None };
                let scheme = w.scheme(src_fam(src), src == 1);
                let fr = scheme.get_field(&f.name).expect("field exists");
                let mut typed = false;
                let res = catch(|| {
                    let (x, t) = to_engine(&val, typed_mode);
                    typed = t;
                    ec.set_field_value(fr, x).map(|p| p.map(|p| MVal::from_lhs(&p)))
                });
                self.log.push(OpRec::SetField { ctx: idx, src, field: fi, val: val.clone(), vkind, typed });
                if vkind != "well-typed" {
                    self.classes.insert("ill-typed-value-offered");
                }
                self.judge_set(idx, m, grp, in_borrow, res, Some(fi), src_fam(src) == m.fam, val)?;
            }
            1 => {
                // set by name
                let (name, fi) = if self.ch.weighted(&[7, 3]) == 0 {
                    let fi = self.ch.draw(nf);
                    (w.recipe.fields[fi].name.clone(), Some(fi))
                } else {
                    let n = self.ch.pick(&w.bad_names).clone();
                    let fi = w.recipe.field(&n).map(|(i, _)| i);
                    (n, fi)
                };
                let vt = match fi {
                    Some(i) => w.recipe.fields[i].ty.clone(),
                    None => type_pool(self.ch, 2),
                };
                let (val, vkind) = self.gen_value(&vt);
                let res = catch(|| ec.set_field_value_from_name(&name, val.to_lhs()).map(|p| p.map(|p| MVal::from_lhs(&p))));
                self.log.push(OpRec::SetName { ctx: idx, name, val: val.clone(), vkind });
                self.judge_set(idx, m, grp, in_borrow, res, fi, true, val)?;
            }
            2 => {
                // explicit get through a field reference of S1 / its clone / the twin (own family only)
                let fi = self.ch.draw(nf);
                let src = if m.fam == 1 { 2 } else { self.ch.draw(2) as u8 };
                let scheme = w.scheme(m.fam, src == 1);
                let fr = scheme.get_field(&w.recipe.fields[fi].name).expect("field exists");
                self.log.push(OpRec::Get { ctx: idx, src, field: fi });
                let got = catch(|| ec.get_field_value(fr).map(MVal::from_lhs));
                match got {
                    Err(p) => return Err(self.fail("get-panic", p, Some((idx, &*m)))),
                    Ok(g) if g != m.vals.vals[fi] => {
                        return Err(self.fail("readback-differs", format!("get_field_value gave {:?}, expected {:?}", g.map(|v| v.show()), m.vals.vals[fi].as_ref().map(|v| v.show())), Some((idx, &*m))));
                    }
                    Ok(_) => {}
                }
            }
            3 => {
                self.log.push(OpRec::Clear { ctx: idx });
                if let Err(p) = catch(|| ec.clear()) {
                    return Err(self.fail("clear-panic", p, Some((idx, &*m))));
                }
                let had_vals = m.vals.vals.iter().any(|v| v.is_some());
                let had_lists = m.lists.values().any(|s| !s.is_empty());
                for v in m.vals.vals.iter_mut() {
                    *v = None;
                }
                for s in m.lists.values_mut() {
                    s.clear();
                }
                if had_vals {
                    self.classes.insert("clear-with-values");
                }
                if had_lists {
                    self.classes.insert("clear-with-list-state");
                }
                if had_vals || had_lists {
                    self.note_write(grp, in_borrow);
                }
            }
            4 => {
                // clone_with into another slot (replacing, i.e. dropping, what lives there)
                let mut into = self.ch.draw(POOL - 1);
                if into >= idx {
                    into += 1;
                }
                let tag = self.ch.draw(1000) as u32;
                self.log.push(OpRec::Clone { ctx: idx, into, tag });
                let c = match catch(|| ec.clone_with(tag)) {
                    Ok(c) => c,
                    Err(p) => return Err(self.fail("clone-panic", p, Some((idx, &*m)))),
                };
                let mut m2 = m.clone();
                m2.tag = tag;
                if m.vals.vals.iter().any(|v| v.is_some()) {
                    self.classes.insert("clone-with-values");
                }
                if m.vals.vals.last().map(|v| v.is_some()).unwrap_or(false) {
                    self.classes.insert("clone-with-last-field-set");
                }
                if m.lists.values().any(|s| !s.is_empty()) {
                    self.classes.insert("clone-with-list-state");
                }
                if in_borrow {
                    self.classes.insert("clone-of-a-guard-view");
                }
                self.pool[into] = Some(Live { ec: c, m: m2, grp });
            }
            5 => {
                // borrow_with { inner ops } drop
                let tag = self.ch.draw(1000) as u32;
                let n_inner = self.ch.range(0, 4);
                self.log.push(OpRec::BorrowBegin { ctx: idx, tag });
                let saved = m.tag;
                {
                    let mut guard = ec.borrow_with(tag);
                    m.tag = tag;
                    self.check_all(Some((idx, &*guard, &*m)))?;
                    for _ in 0..n_inner {
                        self.apply(idx, &mut *guard, m, grp, depth + 1)?;
                    }
                    self.log.push(OpRec::BorrowEnd { ctx: idx });
                    m.tag = saved;
                    if self.ch.chance(1, 6) {
                        // the scope is left by unwinding: the guard is dropped while a panic is in
                        // flight (caught outside); the borrow still writes through
                        let r = catch(move || {
                            let _alive = guard;
                            panic!("harness: leaving the borrow scope by unwinding");
                        });
                        match r {
                            Err(p) if p.contains("leaving the borrow scope by unwinding") => {}
                            Err(p) => return Err(self.fail("guard-drop-panic", p, Some((idx, &*m)))),
                            Ok(()) => unreachable!(),
                        }
                        self.classes.insert("borrow-scope-left-by-unwinding");
                    } else if let Err(p) = catch(move || drop(guard)) {
                        return Err(self.fail("guard-drop-panic", p, Some((idx, &*m))));
                    }
                }
                self.classes.insert(if depth == 0 { "borrow" } else { "nested-borrow" });
            }
            6 => {
                // take_with (moves everything into a new context object)
                self.log.push(OpRec::Take { ctx: idx });
                let scheme = w.scheme(m.fam, false);
                let r = catch(|| {
                    let old = std::mem::replace(ec, ExecutionContext::new_with(scheme, || 0));
                    *ec = old.take_with(|u| u.wrapping_mul(3).wrapping_add(1));
                });
                if let Err(p) = r {
                    return Err(self.fail("take-panic", p, Some((idx, &*m))));
                }
                m.tag = m.tag.wrapping_mul(3).wrapping_add(1);
                if m.vals.vals.iter().any(|v| v.is_some()) {
                    self.classes.insert("take-with-values");
                }
            }
            7 => {
                let k = self.ch.draw(w.filters.len());
                let fam = self.ch.weighted(&[3, 2]);
                self.log.push(OpRec::Exec { ctx: idx, filter: k, fam: fam as u8 });
                let f = &w.filters[k];
                if fam != m.fam {
                    match catch(|| f.compiled[fam].execute(&*ec)) {
                        Err(p) => return Err(self.fail("foreign-exec-panic", format!("executing a filter of the other scheme panicked: {p}"), Some((idx, &*m)))),
                        Ok(Ok(b)) => return Err(self.fail("foreign-exec-evaluated", format!("a filter compiled for the other scheme evaluated to {b} instead of Err(SchemeMismatchError)"), Some((idx, &*m)))),
                        Ok(Err(SchemeMismatchError)) => {
                            self.classes.insert("exec-foreign-scheme");
                        }
                    }
                } else if self.mandatory_unset(m) {
                    self.classes.insert("exec-skipped-mandatory-unset");
                } else {
                    let env = Env::new(&w.recipe, &m.vals, &m.lists);
                    let want = eval::eval_expr(&env, &f.expr);
                    match catch(|| f.compiled[fam].execute(&*ec)) {
                        Err(p) => return Err(self.fail("exec-panic", format!("execution panicked: {p}"), Some((idx, &*m)))),
                        Ok(Err(e)) => return Err(self.fail("exec-own-scheme-rejected", format!("a filter of the context's own scheme gave {e:?}"), Some((idx, &*m)))),
                        Ok(Ok(b)) => match want {
                            Ok(BV::One(wb)) if wb != b => {
                                return Err(self.fail("exec-differs-from-model-state", format!("filter gave {b}, the reference evaluation on the expected state gives {wb}"), Some((idx, &*m))));
                            }
                            Ok(BV::One(_)) => {
                                self.classes.insert(if b { "exec-true" } else { "exec-false" });
                            }
                            _ => self.st.excluded(),
                        },
                    }
                }
            }
            8 => {
                let k = self.ch.draw(w.values.len());
                let fam = self.ch.weighted(&[3, 2]);
                self.log.push(OpRec::ExecValue { ctx: idx, value: k, fam: fam as u8 });
                let v = &w.values[k];
                if fam != m.fam {
                    match catch(|| v.compiled[fam].execute(&*ec).map(|r| r.map(|x| MVal::from_lhs(&x)))) {
                        Err(p) => return Err(self.fail("foreign-exec-panic", format!("executing a value expression of the other scheme panicked: {p}"), Some((idx, &*m)))),
                        Ok(Ok(r)) => return Err(self.fail("foreign-exec-evaluated", format!("a value expression compiled for the other scheme evaluated to {r:?}"), Some((idx, &*m)))),
                        Ok(Err(SchemeMismatchError)) => {
                            self.classes.insert("exec-value-foreign-scheme");
                        }
                    }
                } else if self.mandatory_unset(m) {
                    self.classes.insert("exec-skipped-mandatory-unset");
                } else {
                    let env = Env::new(&w.recipe, &m.vals, &m.lists);
                    let want = eval::eval_index_value(&env, &v.ix);
                    let got = catch(|| v.compiled[fam].execute(&*ec).map(|r| r.map(|x| (MVal::from_lhs(&x), MVal::lhs_deep_well_typed(&x))).map_err(MType::from_engine)));
                    match got {
                        Err(p) => return Err(self.fail("exec-panic", format!("value execution panicked: {p}"), Some((idx, &*m)))),
                        Ok(Err(e)) => return Err(self.fail("exec-own-scheme-rejected", format!("a value expression of the context's own scheme gave {e:?}"), Some((idx, &*m)))),
                        Ok(Ok(r)) => match (want, r) {
                            (Ok(Pres::Val(wv)), Ok((gv, deep))) => {
                                if wv != gv || !deep || gv.ty() != v.ty {
                                    return Err(self.fail("exec-differs-from-model-state", format!("value expression gave {} (homogeneous: {deep}), expected {}", gv.show(), wv.show()), Some((idx, &*m))));
                                }
                                self.classes.insert("exec-value-present");
                            }
                            (Ok(Pres::Absent), Err(t)) => {
                                if t != v.ty {
                                    return Err(self.fail("exec-differs-from-model-state", format!("absence tagged {} for static type {}", t.show(), v.ty.show()), Some((idx, &*m))));
                                }
                                self.classes.insert("exec-value-absent");
                            }
                            (Err(_), _) | (Ok(Pres::GreyEmpty), _) => self.st.excluded(),
                            (Ok(wv), gv) => {
                                return Err(self.fail("exec-differs-from-model-state", format!("value expression gave {gv:?}, expected {wv:?}"), Some((idx, &*m))));
                            }
                        },
                    }
                }
            }
            10 => {
                // populate: well-typed values for many fields at once (so that executions see values)
                for fi in 0..nf {
                    if !self.ch.chance(2, 3) {
                        continue;
                    }
                    let f = &w.recipe.fields[fi];
                    let val = g::gen_val(self.ch, &f.ty, &w.hints);
                    let src = if m.fam == 1 { 2 } else { (fi % 2) as u8 };
                    let scheme = w.scheme(m.fam, src == 1);
                    let fr = scheme.get_field(&f.name).expect("field exists");
                    let res = catch(|| ec.set_field_value(fr, val.to_lhs()).map(|p| p.map(|p| MVal::from_lhs(&p))));
                    self.log.push(OpRec::SetField { ctx: idx, src, field: fi, val: val.clone(), vkind: "well-typed", typed: false });
                    self.judge_set(idx, m, grp, in_borrow, res, Some(fi), true, val)?;
                }
                self.classes.insert("populate");
            }
            _ => {
                // list matcher update (the matcher state must travel with the values)
                let t = self.ch.pick(&w.set_lists).clone();
                let known: Vec<String> = w.hints.list_names.iter().filter(|(lt, _)| *lt == t).map(|(_, n)| n.clone()).collect();
                let name = if !known.is_empty() && self.ch.chance(3, 4) { self.ch.pick(&known).clone() } else { g::gen_list_name(self.ch) };
                let members = if self.ch.chance(1, 6) {
                    None
                } else {
                    let n = self.ch.range(0, 3);
                    let mut s = BTreeSet::new();
                    for _ in 0..n {
                        if let Some(lv) = LV::from_mval(&g::gen_val(self.ch, &t, &w.hints)) {
                            s.insert(lv);
                        }
                    }
                    Some(s)
                };
                let by_type = self.ch.boolean();
                self.log.push(OpRec::SetList { ctx: idx, ty: t.clone(), name: name.clone(), members: members.as_ref().map(|s| s.iter().cloned().collect()), by_type });
                let et = t.to_engine();
                let scheme = w.scheme(m.fam, self.steps % 2 == 0);
                let r = catch(|| {
                    let mm = if by_type {
                        ec.get_list_matcher_mut_from_type(&et).expect("list registered")
                    } else {
                        ec.get_list_matcher_mut(scheme.get_list(&et).expect("list registered"))
                    };
                    let sm = mm.as_any_mut().downcast_mut::<SetMatcher>().expect("set matcher");
                    match &members {
                        Some(s) => {
                            sm.sets.insert(name.clone(), s.clone());
                        }
                        None => {
                            sm.sets.remove(&name);
                        }
                    }
                });
                if let Err(p) = r {
                    return Err(self.fail("list-matcher-access-panic", p, Some((idx, &*m))));
                }
                let entry = m.lists.entry(t).or_default();
                let before = entry.clone();
                match members {
                    Some(s) => {
                        entry.insert(name, s);
                    }
                    None => {
                        entry.remove(&name);
                    }
                }
                if *entry != before {
                    self.classes.insert("list-state-changed");
                    self.note_write(grp, in_borrow);
                }
            }
        }
        if depth > 0 {
            // inside a borrow: the guard's view plus every other live context
            self.check_all(Some((idx, &*ec, &*m)))
        } else {
            // the caller puts the context back into its slot and reads everything back
            Ok(())
        }
    }

    fn mandatory_unset(&self, m: &Model) -> bool {
        self.w.recipe.fields.iter().zip(&m.vals.vals).any(|(f, v)| !f.optional && v.is_none())
    }
}

fn gen_world(ch: &mut Choices<'_>, st: &mut Stats, rich: bool) -> World {
    let cfg = GenCfg { lists: true, sets: true, max_depth: 2, ..GenCfg::indexing() };
    let mut gen_ = Gen::new(ch, cfg);
    let nf = gen_.ch.range(1, 3);
    let mut exprs: Vec<MExpr> = Vec::new();
    for _ in 0..nf {
        let d = gen_.ch.draw(3);
        exprs.push(gen_.gen_bool(d));
    }
    let nv = gen_.ch.range(1, 2);
    let mut ixs: Vec<MIndex> = Vec::new();
    for _ in 0..nv {
        let target = type_pool(gen_.ch, 2);
        ixs.push(gen_.gen_index(&target, 0, 0));
    }
    // extra fields from the whole type pool (depth <= 3)
    let extra = if rich { gen_.ch.range(2, 6) } else { gen_.ch.range(0, 3) };
    for _ in 0..extra {
        let ty = type_pool(gen_.ch, 3);
        let name = gen_.fresh_name();
        let optional = gen_.ch.boolean();
        gen_.r.fields.push(FieldSpec { name, ty, optional });
    }
    // a list with matcher state, read by a filter `f in $name`
    if gen_.ch.chance(7, 8) {
        let scalar: Vec<MType> = [MType::Int, MType::Bytes, MType::Ip].into_iter().filter(|t| gen_.r.list_kind(t).is_none()).collect();
        let have: Vec<MType> = gen_.r.lists.iter().filter(|(_, k)| *k == ListKind::Set).map(|(t, _)| t.clone()).collect();
        let t = if !have.is_empty() && (scalar.is_empty() || gen_.ch.boolean()) {
            Some(gen_.ch.pick(&have).clone())
        } else if !scalar.is_empty() {
            let t = gen_.ch.pick(&scalar).clone();
            gen_.r.lists.push((t.clone(), ListKind::Set));
            Some(t)
        } else {
            None
        };
        if let Some(t) = t {
            let f = gen_.field_of(&t);
            let name = g::gen_list_name(gen_.ch);
            gen_.hints.list_names.push((t.clone(), name.clone()));
            exprs.push(MExpr::Cmp { lhs: MIndex::field(&f), op: MOp::InList(name) });
        }
    }
    gen_.finish_scheme();
    if gen_.r.fields.len() > 64 {
        st.class("world:wide-scheme");
    }
    let alias: Vec<u8> = (0..4).map(|_| gen_.ch.draw(2) as u8).collect();
    let style = Style { alias, space: vec![1] };
    let mut recipe = gen_.r.clone();
    let hints = gen_.hints.clone();
    // an unset mandatory field makes execution panic by contract: mostly optional fields
    if ch.weighted(&[3, 1]) == 0 {
        for f in recipe.fields.iter_mut() {
            f.optional = true;
        }
    }
    if ch.boolean() {
        // a function name is an identifier of the scheme but not a field
        recipe.funcs.push("len".to_string());
    }
    let s1 = recipe.build();
    let s1c = s1.clone();
    let s2 = recipe.build();
    let mut filters = Vec::new();
    for e in exprs {
        let text = print_expr(&e, &style);
        let compile = |s: &Scheme| -> Option<Filter<u32>> {
            catch(|| s.parse(&text).ok().map(|ast| ast.compile_with_compiler(&mut DefaultCompiler::<u32>::new()))).ok().flatten()
        };
        match (compile(if filters.len() % 2 == 0 { &s1 } else { &s1c }), compile(&s2)) {
            (Some(a), Some(b)) => filters.push(FilterSpec { expr: e, text, compiled: [a, b] }),
            // not this property's business (C04/C05): the filter is left out
            _ => st.class("generated-filter-not-compiled"),
        }
    }
    let mut values = Vec::new();
    for ix in ixs {
        let text = print_index(&ix, &style);
        let Ok(ty) = typeck::index_value_type(&recipe, &ix) else { continue };
        let compile = |s: &Scheme| -> Option<FilterValue<u32>> {
            catch(|| s.parse_value(&text).ok().map(|ast| ast.compile_with_compiler(&mut DefaultCompiler::<u32>::new()))).ok().flatten()
        };
        match (compile(if values.len() % 2 == 0 { &s1c } else { &s1 }), compile(&s2)) {
            (Some(a), Some(b)) => values.push(ValueSpec { ix, text, ty, compiled: [a, b] }),
            _ => st.class("generated-filter-not-compiled"),
        }
    }
    let set_lists: Vec<MType> = recipe.lists.iter().filter(|(_, k)| *k == ListKind::Set).map(|(t, _)| t.clone()).collect();
    let mut bad_names: Vec<String> = vec![String::new(), "len".into(), "$lists".into(), "nosuchfield".into()];
    for f in &recipe.fields {
        let n = &f.name;
        bad_names.push(n[..n.len() - 1].to_string());
        bad_names.push(format!("{n}x"));
        bad_names.push(format!("{n} "));
        bad_names.push(format!("{n}."));
        bad_names.push(n.to_ascii_uppercase());
        let mut c = n.clone();
        let first = c.remove(0).to_ascii_uppercase();
        c.insert(0, first);
        bad_names.push(c);
        if let Some((head, _)) = n.split_once('.') {
            bad_names.push(head.to_string());
        }
    }
    World { recipe, hints, s1, s1c, s2, filters, values, set_lists, bad_names }
}

fn history_case_with(rich: bool, max_ops: usize, ch: &mut Choices<'_>, st: &mut Stats) -> CaseResult {
    let w = gen_world(ch, st, rich);
    let nfields = w.recipe.fields.len();
    let empty_model = |fam: usize, tag: u32| Model {
        fam,
        vals: MCtx { vals: vec![None; nfields] },
        lists: w.set_lists.iter().map(|t| (t.clone(), BTreeMap::new())).collect(),
        tag,
    };
    let n_ops = ch.range(3, max_ops);
    let mut s = Session {
        w: &w,
        ch,
        st,
        pool: (0..POOL).map(|_| None).collect(),
        log: Vec::new(),
        next_grp: 0,
        steps: 0,
        nt_failed_after_ok: false,
        nt_copy_diverged: false,
        nt_borrow_write: false,
        classes: BTreeSet::new(),
    };
    // initial contexts: one per scheme object
    for (slot, src) in [(0usize, 0u8), (1, 2), (2, 1)] {
        if slot == 2 && !s.ch.boolean() {
            continue;
        }
        let tag = 100 + slot as u32;
        let scheme = w.scheme(src_fam(src), src == 1);
        s.log.push(OpRec::NewCtx { into: slot, src, tag });
        let ec: Ctx = match catch(|| ExecutionContext::new_with(scheme, || tag)) {
            Ok(c) => c,
            Err(p) => return Err(s.fail("new-panic", p, None)),
        };
        s.pool[slot] = Some(Live { ec, m: empty_model(src_fam(src), tag), grp: s.next_grp });
        s.next_grp += 1;
    }
    s.check_all(None)?;
    while s.steps < n_ops {
        if s.ch.exhausted() && s.steps >= 3 {
            break;
        }
        // target: an occupied slot, or a fresh context in an empty one
        let slot = s.ch.draw(POOL);
        if s.pool[slot].is_none() {
            let src = s.ch.weighted(&[3, 2, 2]) as u8;
            let tag = 200 + s.steps as u32;
            let scheme = w.scheme(src_fam(src), src == 1);
            s.log.push(OpRec::NewCtx { into: slot, src, tag });
            let ec: Ctx = ExecutionContext::new_with(scheme, || tag);
            s.pool[slot] = Some(Live { ec, m: empty_model(src_fam(src), tag), grp: s.next_grp });
            s.next_grp += 1;
        }
        let mut live = s.pool[slot].take().expect("occupied");
        let r = s.apply(slot, &mut live.ec, &mut live.m, live.grp, 0);
        s.pool[slot] = Some(live);
        r?;
        // after the operation (and after any guard was dropped) everything is read back once more
        s.check_all(None)?;
    }
    let steps = s.steps;
    let nt = s.nt_failed_after_ok || s.nt_copy_diverged || s.nt_borrow_write;
    if nt && s.st.samples.get("history").map(|v| v.len()).unwrap_or(0) < 2 {
        let sample = json!({
            "scheme_fields": w.recipe.fields.iter().map(|f| format!("{}: {}", f.name, f.ty.show())).collect::<Vec<_>>(),
            "filters": w.filters.iter().map(|f| f.text.clone()).collect::<Vec<_>>(),
            "value_exprs": w.values.iter().map(|f| f.text.clone()).collect::<Vec<_>>(),
            "steps": steps,
            "first_ops": s.log.iter().take(14).map(|o| s.show_op(o)).collect::<Vec<_>>(),
        });
        s.st.sample("history", || sample);
    }
    let Session { log, classes, nt_failed_after_ok, nt_copy_diverged, nt_borrow_write, .. } = s;
    st.eval();
    st.class_n("history-steps", steps as u64);
    for c in &classes {
        st.class(c);
    }
    if nt_failed_after_ok {
        st.class("nt-failed-set-after-successful-set");
    }
    if nt_copy_diverged {
        st.class("nt-write-to-one-of-two-live-copies");
    }
    if nt_borrow_write {
        st.class("nt-write-through-guard");
    }
    if !w.set_lists.is_empty() {
        st.class("scheme-with-set-list");
    }
    if nt {
        st.nontrivial(&(&w.recipe, &log));
    }
    Ok(())
}

fn history_case(ch: &mut Choices<'_>, st: &mut Stats) -> CaseResult {
    history_case_with(false, 40, ch, st)
}

fn history_long_case(ch: &mut Choices<'_>, st: &mut Stats) -> CaseResult {
    history_case_with(true, 120, ch, st)
}

pub fn subs() -> Vec<Sub> {
    vec![
        Sub { name: "histories", f: Box::new(history_case) },
        Sub { name: "histories-long", f: Box::new(history_long_case) },
        Sub { name: "ctor", f: Box::new(ctor_case) },
        Sub { name: "typed", f: Box::new(typed_case) },
    ]
}

pub fn run(run: &Run) {
    run.rule(
        "histories: a generated scheme S1 (fields to nesting depth 3, lists with matcher state, 1-4 generated filters and 1-2 value expressions), its clone() and a separately built twin S2; \
         up to 40 (histories) / 120 (histories-long, richer scheme) operations over a pool of <=5 live contexts: set_field_value with a field of S1 / the clone / the twin, set_field_value_from_name (incl. prefix, suffixed, case-changed, empty and function names), \
         get, clear, clone_with, borrow_with{inner ops, nested}+drop, take_with, Filter::execute and FilterValue::execute compiled for S1 or the twin, list-matcher updates; values are well-typed or ill-typed \
         (wrong primitive, right container/wrong element, deeper/shallower, Array vs Map at any level, empty containers of the wrong element type); after every step every field, the user data, the matcher state of every live context are read back and the context is compared with == against a freshly built one; \
         non-trivial = a failed set on a field that holds a value from an earlier successful set | a state-changing write to one of two live clone relatives (both read back afterwards) | a state-changing write through a guard (original read back after drop); distinct by (scheme recipe, operation list) \
         | ctor: declared element type (depth 0-2), 0-6 elements, 0-1 misfit whose type differs at a random level, at a random/last/first position, elements built by the checked constructors or the typed wrappers: Array::try_from_iter, Array::try_from_vec, Map::try_from_iter (distinct keys) are Ok iff homogeneous; non-trivial = has a misfit or >= 2 elements \
         | typed: every instantiated TypedArray/TypedMap shape (depth 1-3) via from_iter / push|insert / extend / get_mut / get_or_insert, converted by Into<LhsValue> and Array::from/Map::from",
    );
    run.assume("executing a filter on a context with an unset mandatory field panics by contract: such executions are skipped (most schemes have only optional fields)");
    run.assume("get_field_value / get_list_matcher with a reference of another scheme assert by design and are never called that way");
    run.assume("when both the field's scheme and the value's type are wrong either error variant is accepted");
    run.assume("the reference evaluator (eval.rs) gives the expected result of executions on the expected state; generated filters that do not parse are left out");
    run.assume("Map::try_from_iter with repeated keys: only homogeneity of whatever is built (and acceptance of homogeneous lists) is asserted, not which value wins");
    let subs = subs();
    run_regressions(run, &subs);
    let n = run.tier.pick(60_000, 400_000);
    run.random("histories", n, 2500, &*find_sub(&subs, "histories").unwrap().f);
    let n = run.tier.pick(6_000, 500_000);
    run.random("histories-long", n, 7000, &*find_sub(&subs, "histories-long").unwrap().f);
    let n = run.tier.pick(300_000, 5_000_000);
    run.random("ctor", n, 400, &*find_sub(&subs, "ctor").unwrap().f);
    let n = run.tier.pick(20_000, 400_000);
    run.random("typed", n, 300, &*find_sub(&subs, "typed").unwrap().f);
}

//! Scheme recipes (model side) and their realisation as engine schemes and
//! execution contexts.

use crate::funcs;
use crate::lists::{LV, ListKind, SetList, SetMatcher};
use crate::model::*;
use serde_json::{Value, json};
use std::collections::{BTreeMap, BTreeSet};
use wirefilter::{AlwaysList, ConcatFunction, ExecutionContext, NeverList, Scheme, SchemeBuilder};

/// matcher state per list type: list name -> members
pub type ListState = BTreeMap<MType, BTreeMap<String, BTreeSet<LV>>>;

#[derive(Clone, Debug, PartialEq, Eq, Hash)]
pub struct Recipe {
    pub fields: Vec<FieldSpec>,
    pub nil_ne: bool,
    /// harness functions registered, in registration order
    pub funcs: Vec<String>,
    pub concat: bool,
    pub lists: Vec<(MType, ListKind)>,
}

impl Recipe {
    pub fn empty() -> Self {
        Recipe { fields: vec![], nil_ne: true, funcs: vec![], concat: false, lists: vec![] }
    }

    pub fn field(&self, name: &str) -> Option<(usize, &FieldSpec)> {
        self.fields.iter().enumerate().find(|(_, f)| f.name == name)
    }

    pub fn list_kind(&self, ty: &MType) -> Option<ListKind> {
        self.lists.iter().find(|(t, _)| t == ty).map(|(_, k)| *k)
    }

    pub fn builder(&self) -> SchemeBuilder {
        // both public ways of creating a builder (the C API uses the second)
        let mut b = if (self.fields.len() + self.funcs.len()) % 2 == 0 { SchemeBuilder::new() } else { SchemeBuilder::default() };
        // a third of the recipes is built with refused registrations in between (a name or list type that is already
        // taken is offered again): a refusal changes nothing, so everything built from the scheme must be unaffected
        let refusals = (self.fields.len() * 7 + self.funcs.len() * 3 + self.lists.len() + self.nil_ne as usize) % 3 == 0;
        for (i, f) in self.fields.iter().enumerate() {
            if f.optional {
                b.add_optional_field(&f.name, f.ty.to_engine()).expect("recipe field names are unique");
            } else {
                b.add_field(&f.name, f.ty.to_engine()).expect("recipe field names are unique");
            }
            if refusals && i % 2 == 1 {
                let again = &self.fields[i / 2];
                let _ = b.add_field(&again.name, wirefilter::Type::Int);
                let _ = b.add_optional_field(&f.name, wirefilter::Type::Bytes);
            }
        }
        for name in &self.funcs {
            if name == "ctxfn" {
                b.add_function(name, funcs::CtxFn).expect("function names are unique");
                continue;
            }
            let s = funcs::sig(name).expect("known harness function");
            b.add_function(name, funcs::definition(&s)).expect("function names are unique");
        }
        if self.concat {
            b.add_function("concat", ConcatFunction::new()).expect("concat unique");
        }
        if refusals {
            if let Some(name) = self.funcs.first() {
                let _ = b.add_field(name, wirefilter::Type::Bool);
                let _ = b.add_function(name, ConcatFunction::new());
            }
            if let Some(f) = self.fields.last() {
                let _ = b.add_function(&f.name, ConcatFunction::new());
            }
        }
        for (i, (t, k)) in self.lists.iter().enumerate() {
            match k {
                ListKind::Set => b.add_list(t.to_engine(), SetList).expect("one list per type"),
                ListKind::Always => b.add_list(t.to_engine(), AlwaysList {}).expect("one list per type"),
                ListKind::Never => b.add_list(t.to_engine(), NeverList {}).expect("one list per type"),
            }
            if refusals {
                // the first list's type (and this one's) offered again, with the opposite built-in kind
                let (t0, k0) = &self.lists[0];
                let _ = if *k0 == ListKind::Always { b.add_list(t0.to_engine(), NeverList {}) } else { b.add_list(t0.to_engine(), AlwaysList {}) };
                if i > 0 {
                    let _ = if *k == ListKind::Always { b.add_list(t.to_engine(), NeverList {}) } else { b.add_list(t.to_engine(), AlwaysList {}) };
                }
            }
        }
        b.set_nil_not_equal_behavior(self.nil_ne);
        b
    }

    pub fn build(&self) -> Scheme {
        self.builder().build()
    }

    pub fn show(&self) -> Value {
        json!({
            "fields": self.fields.iter().map(|f| json!({"name": f.name, "type": f.ty.show(), "optional": f.optional})).collect::<Vec<_>>(),
            "nil_not_equal": self.nil_ne,
            "functions": self.funcs,
            "concat": self.concat,
            "lists": self.lists.iter().map(|(t, k)| json!([t.show(), format!("{k:?}")])).collect::<Vec<_>>(),
        })
    }

    /// Build an engine context holding the model context's values.
    pub fn make_ctx(&self, scheme: &Scheme, ctx: &MCtx, lists: &ListState) -> ExecutionContext<'static> {
        let mut ec: ExecutionContext<'static> = ExecutionContext::new(scheme);
        for (f, v) in self.fields.iter().zip(&ctx.vals) {
            if let Some(v) = v {
                ec.set_field_value(scheme.get_field(&f.name).expect("field exists"), v.to_lhs())
                    .expect("model value has the field's type");
            }
        }
        for (t, k) in &self.lists {
            if *k == ListKind::Set {
                if let Some(state) = lists.get(t) {
                    let list = scheme.get_list(&t.to_engine()).expect("list registered");
                    let m = ec.get_list_matcher_mut(list);
                    let sm = m.as_any_mut().downcast_mut::<SetMatcher>().expect("set matcher");
                    sm.sets = state.clone();
                }
            }
        }
        ec
    }
}

pub fn show_lists(l: &ListState) -> Value {
    let mut o = serde_json::Map::new();
    for (t, sets) in l {
        let mut s = serde_json::Map::new();
        for (name, vals) in sets {
            s.insert(name.clone(), Value::Array(vals.iter().map(|v| v.to_mval().show()).collect()));
        }
        o.insert(t.show(), Value::Object(s));
    }
    Value::Object(o)
}

//! Thin helpers around the engine under test: panic capture, the common
//! "print, parse, compare JSON, compile, execute, compare with the model" step.

use crate::ast::*;
use crate::eval::{self, BV, Env, Grey};
use crate::model::*;
use crate::runner::{CaseResult, Fail, Stats};
use crate::scheme::{ListState, Recipe, show_lists};
use serde_json::{Value, json};
use std::cell::RefCell;
use std::panic::{AssertUnwindSafe, catch_unwind};
use wirefilter::{ExecutionContext, Filter, FilterAst, Scheme};

thread_local! {
    static LAST_PANIC: RefCell<String> = const { RefCell::new(String::new()) };
}

/// Install a hook that records the panic message instead of printing it.
pub fn quiet_panics() {
    std::panic::set_hook(Box::new(|info| {
        let s = info.to_string();
        LAST_PANIC.with(|p| *p.borrow_mut() = s);
    }));
}

pub fn catch<T>(f: impl FnOnce() -> T) -> Result<T, String> {
    match catch_unwind(AssertUnwindSafe(f)) {
        Ok(v) => Ok(v),
        Err(p) => {
            let hook = LAST_PANIC.with(|p| p.borrow().clone());
            let msg = crate::runner::panic_message(&p);
            Err(if hook.is_empty() { msg } else { hook })
        }
    }
}

pub struct Case<'a> {
    pub recipe: &'a Recipe,
    pub expr: &'a MExpr,
    pub text: &'a str,
    pub ctxs: &'a [MCtx],
    pub lists: &'a ListState,
}

impl Case<'_> {
    pub fn show(&self) -> Value {
        json!({
            "scheme": self.recipe.show(),
            "filter": self.text,
            "contexts": self.ctxs.iter().map(|c| c.show(&self.recipe.fields)).collect::<Vec<_>>(),
            "lists": show_lists(self.lists),
        })
    }
}

pub fn parse_checked<'s>(scheme: &'s Scheme, case: &Case<'_>) -> Result<FilterAst, Fail> {
    match catch(|| scheme.parse(case.text).map_err(|e| e.to_string())) {
        Ok(Ok(ast)) => Ok(ast),
        Ok(Err(e)) => Err(Fail::new("well-typed-rejected", format!("parser rejected a well-typed filter:\n{e}"), case.show())),
        Err(p) => Err(Fail::new("parse-panic", format!("parser panicked: {p}"), case.show())),
    }
}

pub fn json_checked(ast: &FilterAst, case: &Case<'_>) -> CaseResult {
    let got = catch(|| serde_json::to_value(ast)).map_err(|p| Fail::new("serialize-panic", p, case.show()))?;
    let got = got.map_err(|e| Fail::new("serialize-error", e.to_string(), case.show()))?;
    let want = expr_json(case.expr);
    if got != want {
        return Err(Fail::new(
            "ast-json-mismatch",
            format!("AST JSON differs from the canonical document\n got: {got}\nwant: {want}"),
            case.show(),
        ));
    }
    Ok(())
}

pub fn compile_checked(ast: FilterAst, case: &Case<'_>) -> Result<Filter, Fail> {
    catch(|| ast.compile()).map_err(|p| Fail::new("compile-panic", format!("compile panicked: {p}"), case.show()))
}

pub enum ExecOutcome {
    Agree(bool),
    Grey(&'static str),
}

/// Execute on one context and compare with the reference evaluator.
pub fn exec_checked(
    filter: &Filter,
    ec: &ExecutionContext<'_>,
    case: &Case<'_>,
    ci: usize,
) -> Result<ExecOutcome, Fail> {
    let env = Env::new(case.recipe, &case.ctxs[ci], case.lists);
    let want = match eval::eval_expr(&env, case.expr) {
        Ok(BV::One(b)) => Some(b),
        Ok(BV::Many(_)) => panic!("model: top level is an array"),
        Err(Grey(_)) => None,
    };
    let got = catch(|| filter.execute(ec));
    let got = match got {
        Err(p) => {
            return Err(Fail::new(
                "execute-panic",
                format!("execution panicked on context #{ci}: {p}"),
                case.show(),
            ));
        }
        Ok(Err(e)) => return Err(Fail::new("execute-error", format!("context #{ci}: {e}"), case.show())),
        Ok(Ok(b)) => b,
    };
    match want {
        None => Ok(ExecOutcome::Grey("grey")),
        Some(w) if w == got => Ok(ExecOutcome::Agree(got)),
        Some(w) => Err(Fail::new(
            "eval-mismatch",
            format!("context #{ci}: engine returned {got}, reference semantics give {w}"),
            case.show(),
        )),
    }
}

/// Truth values of the scalar comparison leaves on this context (for the
/// non-triviality rule).
pub fn leaf_truths(env: &Env<'_>, e: &MExpr, out: &mut Vec<bool>) {
    match e {
        MExpr::Cmp { .. } => {
            if let Ok(BV::One(b)) = eval::eval_expr(env, e) {
                out.push(b);
            } else if let Ok(BV::Many(v)) = eval::eval_expr(env, e) {
                out.extend(v);
            }
        }
        MExpr::Not(a) | MExpr::Paren(a) => leaf_truths(env, a, out),
        MExpr::Comb { items, .. } => items.iter().for_each(|i| leaf_truths(env, i, out)),
        MExpr::Quant { arg, .. } => match &**arg {
            MQArg::Index(_) => {}
            MQArg::Logical(e) => leaf_truths(env, e, out),
        },
    }
}

pub fn count(st: &mut Stats, cond: bool, class: &str) {
    if cond {
        st.class(class);
    }
}

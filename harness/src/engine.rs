//! Thin helpers around the engine under test: panic capture, the common
//! "print, parse, compare JSON, compile, execute, compare with the model" step.

use crate::ast::*;
use crate::eval::{self, BV, Env, Grey};
use crate::model::*;
use crate::runner::{CaseResult, Fail, Stats};
use crate::scheme::{ListState, Recipe, show_lists};
use serde_json::{Value, json};
use std::cell::RefCell;
use std::panic::{AssertUnwindSafe, catch_unwind};
use wirefilter::{ExecutionContext, Filter, FilterAst, Scheme};

thread_local! {
    static LAST_PANIC: RefCell<String> = const { RefCell::new(String::new()) };
}

/// Install a hook that records the panic message instead of printing it.
pub fn quiet_panics() {
    std::panic::set_hook(Box::new(|info| {
        let s = info.to_string();
        LAST_PANIC.with(|p| *p.borrow_mut() = s);
    }));
}

pub fn catch<T>(f: impl FnOnce() -> T) -> Result<T, String> {
    match catch_unwind(AssertUnwindSafe(f)) {
        Ok(v) => Ok(v),
        Err(p) => {
            let hook = LAST_PANIC.with(|p| p.borrow().clone());
            let msg = crate::runner::panic_message(&p);
            Err(if hook.is_empty() { msg } else { hook })
        }
    }
}

pub struct Case<'a> {
    pub recipe: &'a Recipe,
    pub expr: &'a MExpr,
    pub text: &'a str,
    pub ctxs: &'a [MCtx],
    pub lists: &'a ListState,
}

impl Case<'_> {
    pub fn show(&self) -> Value {
        json!({
            "scheme": self.recipe.show(),
            "filter": self.text,
            "contexts": self.ctxs.iter().map(|c| c.show(&self.recipe.fields)).collect::<Vec<_>>(),
            "lists": show_lists(self.lists),
        })
    }
}

pub fn parse_checked<'s>(scheme: &'s Scheme, case: &Case<'_>) -> Result<FilterAst, Fail> {
    match catch(|| scheme.parse(case.text).map_err(|e| e.to_string())) {
        Ok(Ok(ast)) => Ok(ast),
        Ok(Err(e)) => Err(Fail::new("well-typed-rejected", format!("parser rejected a well-typed filter:\n{e}"), case.show())),
        Err(p) => Err(Fail::new("parse-panic", format!("parser panicked: {p}"), case.show())),
    }
}

pub fn json_checked(ast: &FilterAst, case: &Case<'_>) -> CaseResult {
    let got = catch(|| serde_json::to_value(ast)).map_err(|p| Fail::new("serialize-panic", p, case.show()))?;
    let got = got.map_err(|e| Fail::new("serialize-error", e.to_string(), case.show()))?;
    let want = expr_json(case.expr);
    if got != want {
        return Err(Fail::new(
            "ast-json-mismatch",
            format!("AST JSON differs from the canonical document\n got: {got}\nwant: {want}"),
            case.show(),
        ));
    }
    Ok(())
}

pub fn compile_checked(ast: FilterAst, case: &Case<'_>) -> Result<Filter, Fail> {
    catch(|| ast.compile()).map_err(|p| Fail::new("compile-panic", format!("compile panicked: {p}"), case.show()))
}

pub enum ExecOutcome {
    Agree(bool),
    Grey(&'static str),
}

/// Execute on one context and compare with the reference evaluator.
pub fn exec_checked(
    filter: &Filter,
    ec: &ExecutionContext<'_>,
    case: &Case<'_>,
    ci: usize,
) -> Result<ExecOutcome, Fail> {
    let env = Env::new(case.recipe, &case.ctxs[ci], case.lists);
    let want = match eval::eval_expr(&env, case.expr) {
        Ok(BV::One(b)) => Some(b),
        Ok(BV::Many(_)) => panic!("model: top level is an array"),
        Err(Grey(_)) => None,
    };
    let got = catch(|| filter.execute(ec));
    let got = match got {
        Err(p) => {
            return Err(Fail::new(
                "execute-panic",
                format!("execution panicked on context #{ci}: {p}"),
                case.show(),
            ));
        }
        Ok(Err(e)) => return Err(Fail::new("execute-error", format!("context #{ci}: {e}"), case.show())),
        Ok(Ok(b)) => b,
    };
    match want {
        None => Ok(ExecOutcome::Grey("grey")),
        Some(w) if w == got => Ok(ExecOutcome::Agree(got)),
        Some(w) => Err(Fail::new(
            "eval-mismatch",
            format!("context #{ci}: engine returned {got}, reference semantics give {w}"),
            case.show(),
        )),
    }
}

/// Truth values of the scalar comparison leaves on this context (for the
/// non-triviality rule).
pub fn leaf_truths(env: &Env<'_>, e: &MExpr, out: &mut Vec<bool>) {
    match e {
        MExpr::Cmp { .. } => {
            if let Ok(BV::One(b)) = eval::eval_expr(env, e) {
                out.push(b);
            } else if let Ok(BV::Many(v)) = eval::eval_expr(env, e) {
                out.extend(v);
            }
        }
        MExpr::Not(a) | MExpr::Paren(a) => leaf_truths(env, a, out),
        MExpr::Comb { items, .. } => items.iter().for_each(|i| leaf_truths(env, i, out)),
        MExpr::Quant { arg, .. } => match &**arg {
            MQArg::Index(_) => {}
            MQArg::Logical(e) => leaf_truths(env, e, out),
        },
    }
}

pub fn count(st: &mut Stats, cond: bool, class: &str) {
    if cond {
        st.class(class);
    }
}

/// Well-formedness of a parse error's text (C05): the header designates a line
/// of the input, the echoed line is that line, the caret range lies inside it.
pub fn error_wellformed(input: &str, shown: &str) -> Result<(usize, usize, usize), String> {
    let mut lines = shown.split('\n');
    let header = lines.next().ok_or("empty error text")?;
    let rest = header.strip_prefix("Filter parsing error (").ok_or_else(|| format!("unexpected header {header:?}"))?;
    let rest = rest.strip_suffix("):").ok_or_else(|| format!("unexpected header {header:?}"))?;
    let (l, c) = rest.split_once(':').ok_or_else(|| format!("unexpected header {header:?}"))?;
    let l: usize = l.parse().map_err(|_| format!("bad line number in {header:?}"))?;
    let c: usize = c.parse().map_err(|_| format!("bad column in {header:?}"))?;
    if l == 0 || c == 0 {
        return Err(format!("line/column must be 1-based: {header:?}"));
    }
    let in_lines: Vec<&str> = input.split('\n').collect();
    let line = *in_lines.get(l - 1).ok_or_else(|| format!("line {l} is not a line of the input ({} lines)", in_lines.len()))?;
    let echoed = lines.next().ok_or("missing echoed line")?;
    if echoed != line {
        return Err(format!("echoed line {echoed:?} is not line {l} of the input {line:?}"));
    }
    let caret = lines.next().ok_or("missing caret line")?;
    let spaces = caret.bytes().take_while(|b| *b == b' ').count();
    let carets = caret[spaces..].bytes().take_while(|b| *b == b'^').count();
    if spaces != c - 1 {
        return Err(format!("caret line has {spaces} spaces for column {c}"));
    }
    if carets == 0 {
        return Err("no caret".into());
    }
    if c - 1 > line.len() {
        return Err(format!("column {c} is beyond the line (len {})", line.len()));
    }
    if !line.is_char_boundary(c - 1) {
        return Err(format!("column {c} is inside a multi-byte character"));
    }
    if c - 1 + carets > line.len() + 1 {
        return Err(format!("caret range {}..{} exceeds the line (len {})", c - 1, c - 1 + carets, line.len()));
    }
    Ok((l, c, carets))
}

/// Owner of data that engine values borrow for the duration of one case.
/// `keep_*` hand out `'static` references for convenience; they are only valid
/// while the arena lives, so declare the arena FIRST in the case function (it is
/// then dropped last, after every context that borrows from it).
#[derive(Default)]
pub struct Arena {
    strs: Vec<Box<str>>,
    bytes: Vec<Box<[u8]>>,
    values: Vec<Box<serde_json::Value>>,
    schemes: Vec<Box<Scheme>>,
}

impl Arena {
    pub fn new() -> Self {
        Self::default()
    }
    pub fn keep_str(&mut self, s: String) -> &'static str {
        let b = s.into_boxed_str();
        let p: *const str = &*b;
        self.strs.push(b);
        unsafe { &*p }
    }
    pub fn keep_bytes(&mut self, v: Vec<u8>) -> &'static [u8] {
        let b = v.into_boxed_slice();
        let p: *const [u8] = &*b;
        self.bytes.push(b);
        unsafe { &*p }
    }
    /// A buffer that is lent to the engine for one call and scrubbed afterwards;
    /// it stays allocated until the arena is dropped.
    pub fn keep_bytes_mut(&mut self, v: Vec<u8>) -> &'static mut [u8] {
        let mut b = v.into_boxed_slice();
        let p: *mut [u8] = &mut *b;
        self.bytes.push(b);
        unsafe { &mut *p }
    }
    pub fn keep_value(&mut self, v: serde_json::Value) -> &'static serde_json::Value {
        let b = Box::new(v);
        let p: *const serde_json::Value = &*b;
        self.values.push(b);
        unsafe { &*p }
    }
    pub fn keep_scheme(&mut self, s: Scheme) -> &'static Scheme {
        let b = Box::new(s);
        let p: *const Scheme = &*b;
        self.schemes.push(b);
        unsafe { &*p }
    }
}

//! C01 - scalar comparisons and boolean logic.

use crate::ast::*;
use crate::choices::Choices;
use crate::engine::*;
use crate::eval::{self, Env};
use crate::genr::{self as g, Gen, GenCfg};
use crate::model::*;
use crate::runner::*;
use crate::scheme::{ListState, Recipe};
use serde_json::json;

fn pool_val(t: usize, i: usize) -> Option<MVal> {
    match t {
        0 => g::INT_POOL.get(i).map(|v| MVal::Int(*v)),
        1 => g::BYTES_POOL.get(i).map(|v| MVal::Bytes(v.to_vec())),
        _ => g::ip_pool().get(i).map(|v| MVal::Ip(*v)),
    }
}

fn pool_len(t: usize) -> usize {
    match t {
        0 => g::INT_POOL.len(),
        1 => g::BYTES_POOL.len(),
        _ => g::ip_pool().len(),
    }
}

fn nops(t: usize) -> usize {
    if t == 0 { 7 } else { 6 }
}

/// Complete operator table: [type, op, lhs (pool index, or len = absent), rhs, nil_ne, optional]
fn optable_total() -> u64 {
    (0..3).map(|t| (nops(t) * (pool_len(t) + 1) * pool_len(t) * 2 * 2) as u64).sum()
}

fn optable_key(mut i: u64) -> Vec<u32> {
    for t in 0..3usize {
        let n = (nops(t) * (pool_len(t) + 1) * pool_len(t) * 4) as u64;
        if i < n {
            let mut k = vec![t as u32];
            for d in [nops(t), pool_len(t) + 1, pool_len(t), 2, 2] {
                k.push((i % d as u64) as u32);
                i /= d as u64;
            }
            return k;
        }
        i -= n;
    }
    unreachable!()
}

fn optable_case(ch: &mut Choices<'_>, st: &mut Stats) -> CaseResult {
    let t = ch.draw(3);
    let opi = ch.draw(nops(t));
    let li = ch.draw(pool_len(t) + 1);
    let ri = ch.draw(pool_len(t));
    let nil_ne = ch.draw(2) == 1;
    let optional = ch.draw(2) == 1;
    let ty = [MType::Int, MType::Bytes, MType::Ip][t].clone();
    let lhs = pool_val(t, li);
    if lhs.is_none() && !optional {
        // a mandatory field must be set: outside the property's domain
        return Ok(());
    }
    let rhs = pool_val(t, ri).unwrap();
    let lit = match &rhs {
        MVal::Int(v) => MLit::Int(IntLit { v: *v, form: if *v >= 0 && ri % 2 == 1 { IntForm::Hex } else { IntForm::Dec } }),
        MVal::Bytes(v) => MLit::Bytes(BytesLit { v: v.clone(), form: BytesForm::Quoted((ri % 3) as u8) }),
        MVal::Ip(v) => MLit::Ip(*v),
        _ => unreachable!(),
    };
    let op = if opi < 6 {
        MOp::Ord(OrdOp::ALL[opi], lit)
    } else {
        let MLit::Int(i) = lit else { unreachable!() };
        MOp::BitAnd(i)
    };
    let recipe = Recipe {
        fields: vec![FieldSpec { name: "x".into(), ty, optional }],
        nil_ne,
        funcs: vec![],
        concat: false,
        lists: vec![],
    };
    let expr = MExpr::Cmp { lhs: MIndex::field("x"), op };
    let style = Style { alias: vec![(li % 2) as u8], space: vec![1] };
    let text = print_expr(&expr, &style);
    let ctxs = vec![MCtx { vals: vec![lhs.clone()] }];
    let lists = ListState::new();
    let case = Case { recipe: &recipe, expr: &expr, text: &text, ctxs: &ctxs, lists: &lists };
    let scheme = recipe.build();
    let ast = parse_checked(&scheme, &case)?;
    json_checked(&ast, &case)?;
    let filter = compile_checked(ast, &case)?;
    let ec = recipe.make_ctx(&scheme, &ctxs[0], &lists);
    exec_checked(&filter, &ec, &case, 0)?;
    st.eval();
    st.class(if lhs.is_none() { "optable-absent-lhs" } else { "optable-present-lhs" });
    // every table cell is a distinct case; boundary pairs are the point of the table
    st.nontrivial(&(t, opi, li, ri, nil_ne, optional));
    if li == pool_len(t) || li == ri {
        st.sample("optable", || json!({"filter": text, "x": lhs.as_ref().map(|v| v.show()), "nil_ne": nil_ne}));
    }
    Ok(())
}

pub fn random_case_with(cfg: GenCfg, nctx: usize, ch: &mut Choices<'_>, st: &mut Stats) -> CaseResult {
    let mut gen_ = Gen::new(ch, cfg.clone());
    let expr = gen_.gen_bool(cfg.max_depth);
    gen_.finish_scheme();
    let alias: Vec<u8> = (0..8).map(|_| gen_.ch.draw(2) as u8).collect();
    let space: Vec<u8> = (0..8).map(|_| gen_.ch.weighted(&[3, 6, 1, 1, 1, 1]) as u8).collect();
    let style = Style { alias, space };
    let recipe = gen_.r.clone();
    let hints = gen_.hints.clone();
    let lists = g::gen_lists(gen_.ch, &recipe, &hints);
    let ctxs: Vec<MCtx> = (0..nctx).map(|_| g::gen_ctx(gen_.ch, &recipe, &hints)).collect();
    let text = print_expr(&expr, &style);
    let case = Case { recipe: &recipe, expr: &expr, text: &text, ctxs: &ctxs, lists: &lists };
    let scheme = recipe.build();
    let ast = parse_checked(&scheme, &case)?;
    json_checked(&ast, &case)?;
    let filter = compile_checked(ast, &case)?;
    let (leaves, ops, nots) = count_ops(&expr);
    let shape_nt = ops.len() >= 2 || nots > 0;
    for (ci, c) in ctxs.iter().enumerate() {
        let ec = recipe.make_ctx(&scheme, c, &lists);
        let out = exec_checked(&filter, &ec, &case, ci)?;
        st.eval();
        if let ExecOutcome::Grey(_) = out {
            st.excluded();
            continue;
        }
        let env = Env::new(&recipe, c, &lists);
        let mut truths = Vec::new();
        leaf_truths(&env, &expr, &mut truths);
        let mixed = truths.iter().any(|b| *b) && truths.iter().any(|b| !*b);
        if shape_nt && mixed {
            st.nontrivial(&(&text, c));
            st.sample("nontrivial", || json!({"filter": text, "context": c.show(&recipe.fields), "result": matches!(out, ExecOutcome::Agree(true))}));
        }
        if c.vals.iter().any(|v| v.is_none()) {
            st.class("ctx-with-absent-field");
        }
        // does flipping nil_ne flip the result?
        let mut r2 = recipe.clone();
        r2.nil_ne = !r2.nil_ne;
        let env2 = Env::new(&r2, c, &lists);
        if let (Ok(a), Ok(b)) = (eval::eval_expr(&env, &expr), eval::eval_expr(&env2, &expr)) {
            if a != b {
                st.class("nil-ne-setting-decides-result");
            }
        }
    }
    st.class(&format!("leaves-{}", leaves.min(8)));
    st.class(&format!("distinct-logical-ops-{}", ops.len()));
    if nots > 0 {
        st.class("has-not");
    }
    Ok(())
}

fn random_case(ch: &mut Choices<'_>, st: &mut Stats) -> CaseResult {
    random_case_with(GenCfg::scalar(), 8, ch, st)
}

pub fn subs() -> Vec<Sub> {
    vec![
        Sub { name: "optable", f: Box::new(optable_case) },
        Sub { name: "random", f: Box::new(random_case) },
    ]
}

pub fn run(run: &Run) {
    run.rule(
        "optable: every (Int|Bytes|Ip) x operator x (boundary lhs incl. absent) x boundary rhs x nil_ne x optional cell, each distinct cell counts; \
         random: grammar-directed well-typed scalar filters (depth<=5, chains of 3-6 operands) x 8 contexts; non-trivial = filter has >=2 distinct logical operators or a not AND on that context some comparison is true and some false; distinct by (filter text, context)",
    );
    run.assume("mandatory fields are always set (an unset mandatory field panics by contract)");
    run.assume("the reference evaluator in harness/src/eval.rs states the documented semantics");
    let subs = subs();
    run_regressions(run, &subs);
    run.enumerate("optable", optable_total(), &optable_key, &*find_sub(&subs, "optable").unwrap().f);
    let n = run.tier.pick(300_000, 20_000_000);
    run.random("random", n, 300, &*find_sub(&subs, "random").unwrap().f);
}
